"""Engine R runner: contract context (symbolic and numeric modes), external-function contract stubs,
discharge of domain / path-coverage / ensures obligations.

One contract function  `def contract(ctx, **instance)`  is the single statement of a contract.  It
  * declares its inputs        ctx.reals(name, shape, sampler)   (ctx.complexes likewise)
  * states the precondition    ctx.assume(a, rel, b)
  * calls the REAL functions imported from /repo
  * states postconditions      ctx.ensure_eq(name, a, b) / ctx.ensure(name, a, rel, b) / ctx.ensure_true(name, bool)

mode 'num' : inputs are float arrays, clauses are evaluated with a tolerance  (bounded stand-in and replay)
mode 'sym' : inputs are symbols (Alg) with the numeric seed as shadow; clauses become proof obligations.
"""
import contextlib
import itertools
import math
import time
import traceback

import numpy as np

from . import smt
from .alg import (Alg, Cond, World, Undecided, DomainViolation, sym_array, lift, shadow, _eval_poly,
                  eval_generators, cond_value)


class Reject(Exception):
    """numeric seed does not satisfy the precondition"""


class ClauseFail(Exception):
    pass


REL_NUM = {
    '<': lambda a, b, t: a < b - 0 * t, '<=': lambda a, b, t: a <= b + t,
    '>': lambda a, b, t: a > b, '>=': lambda a, b, t: a >= b - t,
    '==': lambda a, b, t: abs(a - b) <= t, '!=': lambda a, b, t: abs(a - b) > t,
}


class Ctx:
    def __init__(self, mode, rng, seeds=None):
        self.mode = mode
        self.rng = rng
        self.seeds = seeds            # dict name -> ndarray (sym mode: the numeric seed; num replay: fixed input)
        self.inputs = {}              # name -> numeric value used
        self.world = World() if mode == 'sym' else None
        self.clauses = []             # (name, kind, payload)
        self.failures = []            # numeric mode: (clause, detail)
        self.evaluated = []           # numeric mode: clause names evaluated
        self.values = {}              # clause name -> numeric residual / value (self-check sym vs num)
        self.tol = 1e-8
        self.notes = []
        self.thin_points = []         # solver models on measure-zero branches that could not be executed symbolically

    # ---------------------------------------------------------------- inputs
    def _input(self, name, shape, sampler, cplx=False):
        shape = tuple(shape)
        if self.seeds is not None and name in self.seeds:
            val = np.asarray(self.seeds[name]).reshape(shape)
        else:
            if sampler is None:
                val = self.rng.normal(size=shape)
                if cplx:
                    val = val + 1j * self.rng.normal(size=shape)
            else:
                val = np.asarray(sampler(self.rng)).reshape(shape)
        val = np.array(val, dtype=complex if cplx else float)
        self.inputs[name] = val.copy()
        if self.mode == 'num':
            return val.copy()
        w = self.world
        if not cplx:
            return sym_array(w, name, shape, val)
        re = sym_array(w, name + "re", shape, val.real)
        im = sym_array(w, name + "im", shape, val.imag)
        out = np.empty(shape, dtype=object)
        I = w.I()
        for idx in np.ndindex(*shape):
            out[idx] = re[idx] + I * im[idx]
        return out

    def reals(self, name, shape=(), sampler=None):
        return self._input(name, shape, sampler, False)

    def complexes(self, name, shape=(), sampler=None):
        return self._input(name, shape, sampler, True)

    def real(self, name, sampler=None):
        a = self._input(name, (), sampler, False)
        return a[()] if self.mode == 'sym' else float(a)

    def const(self, arr):
        """numeric constant array, lifted to exact constants in symbolic mode"""
        if self.mode == 'num':
            return np.array(arr, dtype=float) if not np.iscomplexobj(arr) else np.array(arr)
        return lift(self.world, arr)

    # ---------------------------------------------------------------- precondition
    def assume(self, a, rel, b=0):
        if self.mode == 'num':
            av, bv = np.asarray(a, dtype=float), np.asarray(b, dtype=float)
            ok = {'<': av < bv, '<=': av <= bv, '>': av > bv, '>=': av >= bv, '!=': av != bv, '==': av == bv}[rel]
            if not np.all(ok):
                raise Reject()
            return
        w = self.world
        for x, y in np.broadcast(np.asarray(a, dtype=object), np.asarray(b, dtype=object)):
            d = x - y
            if not isinstance(d, Alg):
                d = w.const(d)
            c = Cond(d, rel)
            if not c.holds_shadow():
                raise Reject()
            w.assume(c)

    # ---------------------------------------------------------------- postconditions
    def ensure_true(self, name, ok, detail=""):
        """a concrete fact (shape, type, dtype ...) checked during the run in both modes"""
        self.evaluated.append(name)
        if self.mode == 'sym':
            self.clauses.append((name, 'concrete', bool(ok), detail))
        if not ok:
            self.failures.append((name, f"concrete fact is false {detail}"))

    def ensure_eq(self, name, a, b, tol=None, proj=False):
        """a == b entrywise; proj=True: rows of a and b are equal as projective points (cross-multiplied)"""
        tol = self.tol if tol is None else tol
        a_arr, b_arr = np.asarray(a), np.asarray(b)
        if a_arr.shape != b_arr.shape:
            try:
                a_arr, b_arr = np.broadcast_arrays(a_arr, b_arr)
            except ValueError:
                self.ensure_true(name, False, f"shape mismatch {a_arr.shape} vs {b_arr.shape}")
                return
        if proj:
            res = _cross_residual(a_arr, b_arr)
            ref = None
        else:
            res = a_arr - b_arr
        self.evaluated.append(name)
        if self.mode == 'num':
            r = np.asarray(res)
            if r.dtype == object:
                r = shadow(r)
            scale = 1.0
            if not proj:
                scale = max(1.0, float(np.max(np.abs(shadow(a_arr)))) if a_arr.size else 1.0)
            else:
                scale = max(1.0, float(np.max(np.abs(shadow(a_arr))) * np.max(np.abs(shadow(b_arr)))) if a_arr.size else 1.0)
            err = float(np.max(np.abs(r))) if r.size else 0.0
            self.values[name] = err
            if not (err <= tol * scale):   # also catches nan
                self.failures.append((name, f"residual {err:.3e} > {tol * scale:.1e}"))
            if proj and a_arr.size:
                # non-zero rows
                na = np.max(np.abs(shadow(a_arr)), axis=-1)
                nb = np.max(np.abs(shadow(b_arr)), axis=-1)
                if np.any(na == 0) or np.any(nb == 0) or np.any(np.isnan(na)) or np.any(np.isnan(nb)):
                    self.failures.append((name, "zero / nan row in a projective comparison"))
            return
        self.clauses.append((name, 'eq', np.asarray(res, dtype=object), (tol, proj, a_arr, b_arr)))

    def ensure(self, name, a, rel, b=0, tol=None):
        tol = self.tol if tol is None else tol
        self.evaluated.append(name)
        if self.mode == 'num':
            av, bv = np.asarray(shadow(a), dtype=float), np.asarray(shadow(b), dtype=float)
            scale = max(1.0, float(np.max(np.abs(av))) if av.size else 1.0)
            ok = REL_NUM[rel](av, bv, tol * scale)
            if not np.all(ok):
                self.failures.append((name, f"{rel} fails: {np.asarray(av).ravel()[:4]} vs {np.asarray(bv).ravel()[:4]}"))
            return
        w = self.world
        conds = []
        for x, y in np.broadcast(np.asarray(a, dtype=object), np.asarray(b, dtype=object)):
            d = x - y
            if not isinstance(d, Alg):
                d = w.const(d)
            conds.append(Cond(d, rel))
        self.clauses.append((name, 'rel', conds, tol))

    def note(self, s):
        self.notes.append(s)

    def spectral_form(self, name, signs, det_minus=False):
        """a symmetric matrix declared through its spectral decomposition  B = U diag(e) U^T :
        e strictly ascending with the given signs (the order numpy.linalg.eigh returns), U orthogonal, parametrised as a
        product of plane rotations (times a reflection if det_minus).  Returns (B, e, U).  In symbolic mode the triple is
        registered so that the eigh contract stub can return (e, U) for B."""
        n = len(signs)
        neg = [i for i, s_ in enumerate(signs) if s_ < 0]
        pos = [i for i, s_ in enumerate(signs) if s_ > 0]
        assert signs == sorted(signs), "ascending eigenvalues: negative signs first"

        def samp(r):
            m = np.sort(r.uniform(0.4, 2.5, n))
            vals = [-x for x in sorted(m[:len(neg)], reverse=True)] + list(np.sort(r.uniform(0.4, 2.5, len(pos))))
            return np.array(vals)
        e = self.reals(name + 'e', (n,), samp)
        for i in range(n):
            self.assume(e[i], '<' if signs[i] < 0 else '>', 0)
        for i in range(n - 1):
            self.assume(e[i], '<', e[i + 1])
        pairs = [(i, j) for i in range(n) for j in range(i + 1, n)]
        th = self.reals(name + 'th', (len(pairs),), lambda r: r.uniform(-3, 3, len(pairs)))
        U = self.const(np.identity(n))
        for k_, (i, j) in enumerate(pairs):
            c, s_ = np.cos(th[k_]), np.sin(th[k_])
            G = self.const(np.identity(n))
            G[i, i], G[j, j], G[i, j], G[j, i] = c, c, -s_, s_
            U = U @ G
        if det_minus:
            R = self.const(np.identity(n)); R[0, 0] = -1 * R[0, 0]
            U = U @ R
        D = self.const(np.zeros((n, n)))
        for i in range(n):
            D[i, i] = e[i]
        B = U @ D @ U.T
        if self.mode == 'sym':
            self.__dict__.setdefault('eigh_table', []).append((np.array(B, copy=True), np.array(e, copy=True), np.array(U, copy=True)))
        return B, e, U

    def arg_of(self, value, fname):
        """argument x of value = fname(x) (sym: looked up from the function symbol; num: the inverse function)"""
        inv = {'arccosh': np.cosh, 'arccos': np.cos, 'arcsin': np.sin, 'arcsinh': np.sinh, 'arctan': np.tan}[fname]
        if self.mode == 'num':
            return inv(np.asarray(value, dtype=float))
        w = self.world

        def one(v):
            if not isinstance(v, Alg):
                return inv(v)
            if v.is_zero_nf() and fname == 'arccosh':
                return w.const(1)
            for gi, info in w.info.items():
                if w.kind[gi] == 'fun' and info[0] == fname:
                    g = Alg(w, w.gen(gi), w.ring.one, w.shadow[gi])
                    if (v - g).is_zero_nf():
                        return info[1]
            raise Undecided(f"value is not a {fname} function symbol")
        return np.vectorize(one, otypes=[object])(np.asarray(value, dtype=object)) if np.ndim(value) else one(value)

    def ensure_finite(self, name, value):
        """num: no nan/inf.  sym: every arccosh/arccos/sqrt/division domain obligation recorded so far is provable
        from the path conditions ALONE (all intermediate values treated as arbitrary reals), i.e. it cannot be
        broken by rounding of the preceding arithmetic (DESIGN A.6, 'fp-domain')."""
        self.evaluated.append(name)
        if self.mode == 'num':
            v = np.asarray(shadow(value), dtype=complex)
            if not np.all(np.isfinite(v)):
                self.failures.append((name, "nan/inf in the result"))
            return
        self.clauses.append((name, 'robust', len(self.world.events), None))


def _cross_residual(a, b):
    """2x2 minors of the pair of rows (a_i b_j - a_j b_i): zero iff the rows are proportional"""
    n = a.shape[-1]
    cols = []
    for i in range(n):
        for j in range(i + 1, n):
            cols.append(a[..., i] * b[..., j] - a[..., j] * b[..., i])
    if not cols:
        return np.zeros(a.shape[:-1] + (0,))
    return np.stack(cols, axis=-1)


# -----------------------------------------------------------------------------------------------------------
# contract stubs for external functions (symbolic mode only); numeric arrays fall through to NumPy
_ORIG = {}


def _is_obj(a):
    return isinstance(a, np.ndarray) and a.dtype == object or isinstance(a, Alg)


def _unwrap(x):
    return x[()] if isinstance(x, np.ndarray) and x.ndim == 0 else x


def _det_obj(m):
    """Leibniz / Laplace determinant on the last two axes of an object array"""
    n = m.shape[-1]
    if n == 0:
        return 1
    if n == 1:
        return _unwrap(m[..., 0, 0])
    if n == 2:
        return _unwrap(m[..., 0, 0] * m[..., 1, 1] - m[..., 0, 1] * m[..., 1, 0])
    tot = 0
    for j in range(n):
        minor = np.delete(np.delete(m, 0, axis=-2), j, axis=-1)
        term = m[..., 0, j] * _det_obj(minor)
        tot = tot + term if j % 2 == 0 else tot - term
    return _unwrap(tot)


def stub_det(a, *args, **kw):
    if not _is_obj(a):
        return _ORIG['det'](a, *args, **kw)
    return _det_obj(np.asarray(a, dtype=object))


def stub_inv(a, *args, **kw):
    """contract of numpy.linalg.inv: requires det != 0, returns the unique R with a R = R a = 1  (adj/det)"""
    if not _is_obj(a):
        return _ORIG['inv'](a, *args, **kw)
    a = np.asarray(a, dtype=object)
    n = a.shape[-1]
    if n > 5:
        raise Undecided("inv stub: matrices larger than 5x5")
    det = _det_obj(a)
    adj = np.empty(a.shape, dtype=object)
    for i in range(n):
        for j in range(n):
            minor = np.delete(np.delete(a, i, axis=-2), j, axis=-1)
            c = _det_obj(minor)
            adj[..., j, i] = c if (i + j) % 2 == 0 else -c
    det = np.asarray(det, dtype=object)
    return adj / det[..., None, None]


def stub_norm(x, ord=None, axis=None, keepdims=False):
    if not _is_obj(x):
        return _ORIG['norm'](x, ord=ord, axis=axis, keepdims=keepdims)
    if ord is not None:
        raise Undecided("norm stub: ord != None")
    x = np.asarray(x, dtype=object)
    sq = np.vectorize(lambda e: (e * e.conjugate()) if isinstance(e, Alg) else e * e, otypes=[object])(x)
    s = np.sum(sq, axis=axis, keepdims=keepdims)
    return np.sqrt(np.asarray(s, dtype=object)) if isinstance(s, np.ndarray) else s.sqrt() if isinstance(s, Alg) else math.sqrt(s)


def _all_const(a):
    return all((not isinstance(e, Alg)) or e.is_const() for e in np.asarray(a, dtype=object).ravel())


def _to_float_array(a):
    a = np.asarray(a, dtype=object)
    return np.array([float(e.const_value()) if isinstance(e, Alg) else e for e in a.ravel()], dtype=float).reshape(a.shape)


def make_eigh_stub(ctx):
    def eigh(a, *args, **kw):
        if not _is_obj(a):
            return _ORIG['eigh'](a, *args, **kw)
        if not _all_const(a):
            # contract of numpy.linalg.eigh in REVERSE solved form: the contract declared its input as
            # B = U diag(e) U^T for symbolic ascending eigenvalues e and a parametrised orthogonal U (every output
            # (e, U) of eigh on every symmetric matrix arises this way); the stub returns that (e, U)
            a_ = np.asarray(a, dtype=object)
            for (B_, e_, U_) in getattr(ctx, 'eigh_table', []):
                if B_.shape == a_.shape and all(((x - y).is_zero_nf() if isinstance(x - y, Alg) else (x - y) == 0)
                                                for x, y in zip(a_.ravel(), B_.ravel())):
                    ctx.stub_uses.append("numpy.linalg.eigh (reverse solved form: input declared as U diag(e) U^T, e ascending, U orthogonal)")
                    return np.array(e_, copy=True), np.array(U_, copy=True)
            raise Undecided("eigh stub: symbolic matrix without a declared spectral decomposition")
        ev, U = _ORIG['eigh'](_to_float_array(a), *args, **kw)
        # exact only if the decomposition is representable: check U^T U = 1 and U diag(ev) U^T = a in floats to 1e-14
        if np.max(np.abs(U @ np.diag(ev) @ U.T - _to_float_array(a))) > 1e-14 or np.max(np.abs(U.T @ U - np.eye(len(ev)))) > 1e-14:
            raise Undecided("eigh stub: constant form without an exactly representable eigen-decomposition")
        ctx.stub_uses.append("numpy.linalg.eigh (constant matrix, evaluated concretely)")
        return lift(ctx.world, ev), lift(ctx.world, U)
    return eigh


def make_kernel_stub(ctx):
    """contract of utils.numerical.svd_kernel on a full-rank (k x n) matrix, in solved form:
    returns K (n x (n-k)) with  mat K = 0  and independent columns:  K[P] = -A_P^{-1} A_F Phi,  K[F] = Phi,
    for a pivot set P with det A_P != 0 (path condition) and a *free* invertible Phi (fresh symbols, shadowed
    by the basis NumPy's SVD returns, so that shadows agree with the native run)."""
    def svd_kernel(mat, assume_full_rank=False, matching_rank=True, tolerance=1e-8,
                   with_dimensions=False, with_loc=False):
        if not _is_obj(mat):
            return _ORIG['svd_kernel'](mat, assume_full_rank, matching_rank, tolerance, with_dimensions, with_loc)
        if not matching_rank or with_dimensions or with_loc:
            raise Undecided("kernel stub: only the matching_rank path is under contract")
        w = ctx.world
        mat = np.asarray(mat, dtype=object)
        k, n = mat.shape[-2:]
        if k >= n:
            raise Undecided("kernel stub: needs k < n")
        batch = mat.shape[:-2]
        cache = ctx.__dict__.setdefault('_kernel_cache', {})
        native = _ORIG['svd_kernel'](shadow(mat).astype(float), assume_full_rank, True, tolerance)
        if native.shape[-1] != n - k:
            raise Undecided("kernel stub: seed matrix is rank deficient")
        out = np.empty(batch + (n, n - k), dtype=object)
        for b in np.ndindex(*batch):
            A = mat[b]
            Ash = shadow(A).astype(float)
            # choose pivot columns greedily (lowest index first among well-conditioned choices)
            P = _choose_pivots(Ash, k)
            F = [j for j in range(n) if j not in P]
            AP = A[:, P]
            detP = _det_obj(AP)
            if isinstance(detP, Alg) and not detP.is_const():
                w.record_path(detP, '!=', 'kernel stub pivot')
            # the external is a function: the same matrix (same normal form) gets the same basis symbols
            from .alg import _poly_key
            ckey = tuple((lambda c_: (_poly_key(c_.num), _poly_key(c_.den)))(e.canon()) if isinstance(e, Alg) else e for e in A.ravel())
            if ckey in cache:
                Phi = cache[ckey]
            else:
                tag = f"ker{len(w.names)}"
                Phi = sym_array(w, tag, (n - k, n - k), native[b][F, :])
                cache[ckey] = Phi
                detPhi = _det_obj(Phi)
                c = Cond(detPhi if isinstance(detPhi, Alg) else w.const(detPhi), '!=')
                w.assume(c, 'kernel stub: columns independent')
            ctx.stub_uses.append("numerical.svd_kernel (solved form, free basis)")
            form = getattr(ctx, 'kernel_gs_form', None)
            if form is not None:
                # ASSUMED contract on the external: the basis returned by the SVD is in general position with respect
                # to the form (Gram-Schmidt on it never meets a null vector).  Listed in the evidence.
                ctx.stub_uses.append("ASSUMED: SVD kernel basis in general position w.r.t. the form (leading Gram minors != 0)")
            APinv = stub_inv(AP) if k > 0 else None
            top = -(APinv @ A[:, F] @ Phi)
            K = np.empty((n, n - k), dtype=object)
            for r, j in enumerate(P):
                K[j, :] = top[r, :]
            for r, j in enumerate(F):
                K[j, :] = Phi[r, :]
            out[b] = K
            if form is not None:
                G = K.T @ np.asarray(form, dtype=object) @ K
                for j in range(1, n - k + 1):
                    g = _det_obj(G[:j, :j])
                    if isinstance(g, Alg) and not g.is_const():
                        w.assume(Cond(g, '!='), 'ASSUMED: SVD kernel basis in general position w.r.t. the form')
        return out
    return svd_kernel


def _choose_pivots(Ash, k):
    """first (lexicographically smallest) column set whose minor is not tiny relative to the best one"""
    n = Ash.shape[1]
    dets = [(abs(np.linalg.det(Ash[:, P])) if k else 1.0, P) for P in itertools.combinations(range(n), k)]
    best = max(d for d, _ in dets)
    for d, P in dets:
        if d >= 1e-3 * best and d > 0:
            return list(P)
    return list(dets[0][1])


def stub_c_to_r(cx_array):
    if not _is_obj(cx_array):
        return _ORIG['c_to_r'](cx_array)
    a = np.asarray(cx_array, dtype=object)
    out = np.empty(a.shape + (2,), dtype=object)
    for idx in np.ndindex(*a.shape):
        e = a[idx]
        if isinstance(e, Alg):
            re, im = e.re_im()
        else:
            re, im = complex(e).real, complex(e).imag
        out[idx + (0,)] = re
        out[idx + (1,)] = im
    return out


def stub_real(arg):
    if not _is_obj(arg):
        return _ORIG['real'](arg)
    return np.vectorize(lambda e: e.real if isinstance(e, Alg) else complex(e).real, otypes=[object])(np.asarray(arg, dtype=object))


def stub_imag(arg):
    if not _is_obj(arg):
        return _ORIG['imag'](arg)
    return np.vectorize(lambda e: e.imag if isinstance(e, Alg) else complex(e).imag, otypes=[object])(np.asarray(arg, dtype=object))


@contextlib.contextmanager
def stubs(ctx):
    """rebind the externals while a symbolic run is in progress"""
    import geometry_tools.utils as gu
    import geometry_tools.utils.core as guc
    import geometry_tools.utils.numerical as gun
    ctx.stub_uses = []
    saved = []

    def patch(obj, name, new, key):
        old = getattr(obj, name)
        _ORIG.setdefault(key, old)
        saved.append((obj, name, old))
        setattr(obj, name, new)

    def iscomplexobj(x):
        # dtype emulation: an object array of symbolic scalars counts as complex iff complex inputs were declared
        if _is_obj(x):
            return any(k == 'I' for k in ctx.world.kind)
        return _ORIG['iscomplexobj'](x)
    patch(np, 'iscomplexobj', iscomplexobj, 'iscomplexobj')

    # dtype emulation: float64 arrays created inside /repo while symbols are in flight become object arrays of
    # exact rationals (machine arithmetic is treated as real arithmetic), so that symbolic entries can be stored
    import sys as _sys

    def _from_repo():
        f = _sys._getframe(2)
        return f.f_globals.get('__name__', '').startswith('geometry_tools')

    def mk(name):
        orig = getattr(np, name)
        _ORIG.setdefault(name, orig)

        def wrapped(*a, **k):
            if _from_repo() and k.get('dtype', None) is None and not (name in ('zeros', 'ones') and len(a) > 1):
                return orig(*a, **k).astype(object)
            return orig(*a, **k)
        return wrapped
    for nm in ('identity', 'zeros', 'ones', 'eye'):
        patch(np, nm, mk(nm), nm)
    patch(np.linalg, 'inv', stub_inv, 'inv')
    patch(np.linalg, 'det', stub_det, 'det')
    patch(np.linalg, 'norm', stub_norm, 'norm')
    patch(np.linalg, 'eigh', make_eigh_stub(ctx), 'eigh')
    patch(gun, 'svd_kernel', make_kernel_stub(ctx), 'svd_kernel')
    for mod in (gu, guc):
        patch(mod, 'c_to_r', stub_c_to_r, 'c_to_r')
        patch(mod, 'real', stub_real, 'real')
        patch(mod, 'imag', stub_imag, 'imag')
    try:
        yield
    finally:
        for obj, name, old in reversed(saved):
            setattr(obj, name, old)


# -----------------------------------------------------------------------------------------------------------
# proving
class ObResult:
    def __init__(self, name):
        self.name = name
        self.status = 'undecided'     # proved | refuted | undecided | error
        self.detail = ""
        self.clauses = {}             # clause -> (status, detail)
        self.inputs = None            # numeric seed (counterexample candidate)
        self.stats = {}

    def to_json(self):
        return {"name": self.name, "status": self.status, "detail": self.detail,
                "clauses": {k: list(v) for k, v in self.clauses.items()}, "stats": self.stats,
                "inputs": None if self.inputs is None else {k: _tolist(v) for k, v in self.inputs.items()}}


def _tolist(a):
    a = np.asarray(a)
    if np.iscomplexobj(a):
        return {"re": a.real.tolist(), "im": a.imag.tolist()}
    return a.tolist()


def _fromlist(v):
    if isinstance(v, dict) and "re" in v:
        return np.array(v["re"]) + 1j * np.array(v["im"])
    return np.array(v)


def find_seed(contract, inst, rng, tries=200):
    """numeric dry runs until the precondition holds; returns (ctx)"""
    last = None
    for _ in range(tries):
        ctx = Ctx('num', rng)
        try:
            contract(ctx, **inst)
            return ctx
        except Reject:
            continue
    raise Undecided("no seed satisfying the precondition found (vacuous or too strict precondition?)")


def run_numeric(contract, inst, rng=None, seeds=None):
    """evaluate the contract on concrete float inputs; returns ctx (ctx.failures lists violated clauses)"""
    ctx = Ctx('num', rng or np.random.default_rng(0), seeds=seeds)
    with np.errstate(all='ignore'):
        contract(ctx, **inst)
    return ctx


def prove(contract, inst, name, seed=0, max_paths=8, timeout=10.0, allow_concretise=()):
    """Discharge one contract instance for ALL inputs satisfying its precondition.  Returns ObResult."""
    t0 = time.time()
    res = ObResult(name)
    rng = np.random.default_rng(seed)
    nq0, ns0 = smt.STATS["queries"], smt.STATS["seconds"]
    try:
        numctx = find_seed(contract, inst, rng)
    except Undecided as e:
        res.status, res.detail = 'error', str(e)
        return res
    except Exception as e:
        res.status, res.detail = 'refuted', f"real code raised {type(e).__name__}: {e} on an input satisfying the precondition"
        res.detail += "\n" + traceback.format_exc(limit=6)
        return res
    res.inputs = numctx.inputs
    if numctx.failures:
        res.status = 'refuted'
        res.detail = "contract fails natively at the seed: " + "; ".join(f"{c}: {d}" for c, d in numctx.failures)
        for c, d in numctx.failures:
            res.clauses[c] = ('refuted', d)
        return res

    pending = [(dict(numctx.inputs), -1)]
    thin = []
    explored = []
    all_clause = {}
    paths_done = 0
    uncovered = []
    stubs_used = set()
    while pending and paths_done < max_paths:
        seeds, bound = pending.pop()
        ctx = Ctx('sym', rng, seeds=seeds)
        try:
            with stubs(ctx), np.errstate(all='ignore'):
                contract(ctx, **inst)
        except Reject:
            continue
        except Undecided as e:
            res.status, res.detail = 'undecided', f"engine: {e}"
            break
        except DomainViolation as e:
            res.status, res.detail = 'refuted', f"domain violation at a seed satisfying the precondition: {e}"
            res.inputs = seeds
            break
        except Exception as e:
            res.status = 'undecided'
            res.detail = f"symbolic run raised {type(e).__name__}: {e}\n" + traceback.format_exc(limit=8)
            break
        paths_done += 1
        stubs_used.update(getattr(ctx, 'stub_uses', []))
        w = ctx.world
        bad_sites = [s for s, _ in w.concretised if not any(a in s for a in allow_concretise + DEFAULT_CONCRETISE)]
        if bad_sites:
            res.status, res.detail = 'undecided', f"unlisted float() concretisation at {sorted(set(bad_sites))}"
            break
        ok, detail = _discharge_path(ctx, res, all_clause, seeds, timeout,
                                     numctx.values if paths_done == 1 else None)
        if not ok:
            break
        # coverage: negate each path condition after its prefix
        new_seeds, unc = _coverage(ctx, seeds, bound, timeout, contract, inst, rng)
        explored.append(_path_sig(w))
        pending.extend(new_seeds)
        uncovered.extend(unc)
        thin.extend(ctx.thin_points)
    else:
        if pending:
            uncovered.append(f"path cap {max_paths} reached with {len(pending)} unexplored branches")
    # branches that exist only on a measure-zero locus cannot be executed generically: evaluate the contract natively AT
    # the solver's point of that locus (a concrete input); a failure there is a replayable counterexample
    if res.status in ('undecided',) and thin:
        for pt in thin[:6]:
            try:
                nctx = run_numeric(contract, inst, seeds=pt)
            except Reject:
                continue
            except Exception as e:
                res.status = 'refuted'
                res.inputs = pt
                res.detail = f"real code raised {type(e).__name__}: {e} at a point of a degenerate branch locus satisfying the precondition"
                break
            if nctx.failures:
                res.status = 'refuted'
                res.inputs = pt
                res.detail = "contract fails natively on a degenerate branch locus: " + "; ".join(f"{c}: {d}" for c, d in nctx.failures[:3])
                for c, d in nctx.failures:
                    res.clauses[c] = ('refuted', d)
                break
    if res.status == 'undecided' and not res.detail:
        if uncovered:
            res.status, res.detail = 'undecided', "paths not covered: " + "; ".join(uncovered[:4])
        elif all(v[0] == 'proved' for v in all_clause.values()) and all_clause:
            res.status = 'proved'
        else:
            bad = {k: v for k, v in all_clause.items() if v[0] != 'proved'}
            res.status = 'undecided'
            res.detail = "; ".join(f"{k}: {v[0]} {v[1]}" for k, v in bad.items())
    res.clauses = all_clause if not res.clauses else {**all_clause, **res.clauses}
    res.stats = {"paths": paths_done, "smt_queries": smt.STATS["queries"] - nq0,
                 "smt_seconds": round(smt.STATS["seconds"] - ns0, 3), "wall_s": round(time.time() - t0, 3),
                 "stubs": sorted(stubs_used)}
    return res


# float() concretisations are only tolerated at these sites (function names inside /repo), where the value is
# used for a sign / zero test that the engine records as a path condition
DEFAULT_CONCRETISE = (":normalize", ":affine_coords", ":diagonalize_form", ":bilinear_form")


def _path_sig(w):
    return tuple((str(c.alg.num), str(c.alg.den), c.rel) for c in w.path)


def _discharge_path(ctx, res, all_clause, seeds, timeout, native_values=None):
    """prove domain obligations and ensures on this path.  False -> stop (res filled)"""
    w = ctx.world
    hyps = []
    seen = set()
    for kind, c, what in w.events:
        if kind in ('assume', 'path'):
            hyps.append(c)
            continue
        key = (str(c.alg.num), str(c.alg.den), c.rel)
        if key in seen:
            continue
        seen.add(key)
        st, model, solver = smt.check_implied(w, hyps, c, timeout)
        cname = f"domain[{what}@{c.where}]"
        if st == 'proved':
            all_clause.setdefault(cname, ('proved', solver))
            hyps.append(c)
        elif st == 'refuted':
            all_clause[cname] = ('refuted', f"{what} can fail: counter-model {model}")
            res.status = 'refuted'
            res.detail = f"domain obligation fails ({what} at {c.where}); counter-model {_model_inputs(w, model)}"
            res.model = _model_inputs(w, model)
            return False, ""
        else:
            all_clause[cname] = ('undecided', f"solver {solver} unknown")
            res.status, res.detail = 'undecided', f"domain obligation undecided: {what} at {c.where}"
            return False, ""
    # hypotheses for the ensures: everything on the path
    for (name, kind, payload, extra) in ctx.clauses:
        if kind == 'concrete':
            st = ('proved', 'checked during the run') if payload else ('refuted', extra)
        elif kind == 'robust':
            st = _prove_robust(w, payload, timeout)
        elif kind == 'eq':
            st = _prove_eq(w, payload, extra)
            if st[0] == 'refuted' and native_values is not None and native_values.get(name, 1.0) <= 1e-9:
                # engine self-check: the float shadow disagrees with the native float64 run of the same code
                res.status = 'error'
                res.detail = (f"shadow/native mismatch on clause {name}: native residual "
                              f"{native_values.get(name)} but {st[1]}")
                return False, ""
        else:
            st = _prove_rel(w, hyps, payload, timeout)
        prev = all_clause.get(name)
        if prev is None or prev[0] == 'proved':
            all_clause[name] = st
        if st[0] == 'refuted':
            res.status = 'refuted'
            res.detail = f"clause {name} refuted: {st[1]}"
            res.inputs = seeds
            return False, ""
    return True, ""


def _prove_eq(w, resid, extra):
    tol, proj, a_arr, b_arr = extra
    worst = 0.0
    nonzero = 0
    for e in resid.ravel():
        if isinstance(e, Alg):
            if e.is_zero_nf():
                continue
            nonzero += 1
            worst = max(worst, abs(e.val))
        else:
            if e != 0:
                nonzero += 1
                worst = max(worst, abs(e))
    if nonzero == 0:
        return ('proved', 'normal form zero')
    scale = max(1.0, float(np.max(np.abs(shadow(a_arr)))) if a_arr.size else 1.0)
    if worst > max(tol, 1e-7) * scale:
        return ('refuted', f"normal form non-zero in {nonzero} entries and float residual {worst:.3e} at the seed")
    return ('undecided', f"normal form non-zero in {nonzero} entries but float residual {worst:.1e} "
                         f"(relations not a field tower, or identity needs an assumed relation)")


def _prove_robust(w, upto, timeout):
    """domain obligations of transcendental functions among events[:upto] follow from path conditions alone"""
    hyps = []
    for kind, c, what in w.events[:upto]:
        if kind == 'path':
            hyps.append(c)
        elif kind == 'domain' and (what.startswith('arccosh') or what.startswith('arccos') or what.startswith('arcsin')):
            st, model, solver = smt.check_implied(w, hyps, c, timeout, free=True)
            if st != 'proved':
                return ('undecided', f"'{what}' at {c.where} relies on exact real arithmetic (not implied by the "
                                     f"branch conditions alone): rounding can violate it")
    return ('proved', 'smt (free intermediates)')


def _prove_rel(w, hyps, conds, timeout):
    for c in conds:
        a = c.alg
        if a.is_const():
            v = a.const_value()
            ok = {'<': v < 0, '<=': v <= 0, '>': v > 0, '>=': v >= 0, '==': v == 0, '!=': v != 0}[c.rel]
            if not ok:
                return ('refuted', f"constant {v} {c.rel} 0 is false")
            continue
        st, model, solver = smt.check_implied(w, hyps, c, timeout)
        if st == 'refuted':
            return ('refuted', f"counter-model {_model_inputs(w, model)}")
        if st != 'proved':
            return ('undecided', f"solver unknown on {c!r}")
    return ('proved', 'smt')


def _model_inputs(w, model):
    if not model:
        return {}
    return {w.names[i]: v for i, v in model.items() if i < len(w.names) and w.kind[i] == 'sym'}


def _coverage(ctx, seeds, bound, timeout, contract, inst, rng):
    """for every path condition c_j beyond the forced prefix: is  pre /\\ c_1..c_{j-1} /\\ not c_j  satisfiable?
    sat -> a new generic seed on that branch (searched around the solver's model)."""
    w = ctx.world
    new, unc = [], []
    prefix = []
    j = -1
    for kind, c, what in w.events:
        if kind == 'assume' or kind == 'domain':
            prefix.append(c)
            continue
        j += 1
        if j <= bound:
            prefix.append(c)
            continue
        neg = c.negated()
        st, model, solver = smt.check_sat(w, prefix + [neg], timeout)
        if st == 'sat':
            s2 = _generic_seed(ctx, seeds, model, prefix + [neg], contract, inst, rng)
            if s2 is None:
                unc.append(f"other branch of {c!r} at {c.where} feasible but no generic seed found")
                pt = _seed_from_model(ctx, seeds, model)
                if pt is not None:
                    ctx.thin_points.append(pt)
            else:
                new.append((s2, j))
        elif st != 'unsat':
            unc.append(f"feasibility of the other branch of {c!r} at {c.where} undecided")
        prefix.append(c)
    return new, unc


def _sym_index(w):
    return {w.names[i]: i for i, k in enumerate(w.kind) if k == 'sym'}


def _seeds_to_symvals(w, seeds):
    idx = _sym_index(w)
    out = {}
    for name, arr in seeds.items():
        arr = np.asarray(arr)
        for ix in np.ndindex(*arr.shape):
            suffix = "".join(f"_{i}" for i in ix)
            if name + suffix in idx:
                out[idx[name + suffix]] = float(np.real(arr[ix]))
            if name + "re" + suffix in idx:
                out[idx[name + "re" + suffix]] = float(np.real(arr[ix]))
                out[idx[name + "im" + suffix]] = float(np.imag(arr[ix]))
    return out


def _conds_hold(w, conds, symvals, margin=1e-7):
    sh = eval_generators(w, symvals)
    if sh is None:
        return False
    for c in conds:
        v = cond_value(w, c, sh)
        if isinstance(v, complex):
            if c.rel in ('==', '!='):
                v = abs(v)
            else:
                v = v.real
        if v != v:
            return False
        ok = {'<': v < -margin, '<=': v < -margin, '>': v > margin, '>=': v > margin,
              '!=': abs(v) > margin, '==': False}[c.rel]
        if not ok:
            return False
    return True


def _generic_seed(ctx, seeds, model, conds, contract, inst, rng):
    """a seed strictly inside the region described by conds (so that the run is not on a measure-zero locus)"""
    w = ctx.world
    base = _seeds_to_symvals(w, seeds)
    center = dict(base)
    for i, v in (model or {}).items():
        if v is not None and i < len(w.kind) and w.kind[i] == 'sym':
            center[i] = v
    keys = sorted(center)
    local = np.random.default_rng(12345)
    for scale in (1e-3, 1e-2, 3e-2, 1e-1, 0.3, 1.0):
        for _ in range(40):
            cand = {k: center[k] + scale * local.normal() * max(1.0, abs(center[k])) for k in keys}
            if _conds_hold(w, conds, cand):
                return _symvals_to_seeds(w, seeds, cand)
    # fall back: seeds drawn by the contract's own samplers
    for _ in range(300):
        try:
            numctx = Ctx('num', local)
            with np.errstate(all='ignore'):
                contract(numctx, **inst)
        except Reject:
            continue
        except Exception:
            continue
        cand = dict(base)
        cand.update(_seeds_to_symvals(w, numctx.inputs))
        if _conds_hold(w, conds, cand):
            return _symvals_to_seeds(w, seeds, cand)
    return None


def _seed_from_model(ctx, seeds, model):
    """the solver's model as a concrete input (symbols not mentioned keep the old seed value)"""
    w = ctx.world
    symvals = dict(_seeds_to_symvals(w, seeds))
    touched = False
    for i, v in (model or {}).items():
        if v is not None and i < len(w.kind) and w.kind[i] == 'sym':
            symvals[i] = v
            touched = True
    return _symvals_to_seeds(w, seeds, symvals) if touched else None


def _symvals_to_seeds(w, seeds, symvals):
    idx = _sym_index(w)
    out = {k: np.array(v, dtype=complex if np.iscomplexobj(v) else float) for k, v in seeds.items()}
    for name, arr in out.items():
        for ix in np.ndindex(*arr.shape):
            suffix = "".join(f"_{i}" for i in ix)
            if name + suffix in idx and idx[name + suffix] in symvals:
                arr[ix] = symvals[idx[name + suffix]]
            elif name + "re" + suffix in idx:
                arr[ix] = symvals.get(idx[name + "re" + suffix], arr[ix].real) + 1j * symvals.get(idx[name + "im" + suffix], arr[ix].imag)
    return out
