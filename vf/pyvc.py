"""Engine P: verification conditions for the pure-Python code of /repo, generated from the AST of the REAL source.

The source file is re-read and re-parsed on every run; the function body is executed *symbolically*, statement by
statement, by the interpreter below (a mechanical translation: nothing is re-typed by hand).  What a contract supplies:

  * the static types of the parameters / object fields it touches  (vf.pyvc types below),
  * requires / ensures,
  * one invariant per loop (keyed by the loop's ordinal in the function body),
  * contracts of the callees (a call is checked against the callee's contract, not its body).

Every proof obligation (loop invariant initially / preserved, postcondition on every path, callee preconditions,
"no unexpected exception") is a first-order formula over

  Int, Bool, Atom (hashable scalars: vertices, labels), Loc (heap objects), Mat (an abstract group),
  words = (Array Int Atom, length), dict objects = (present, value) arrays per location, label lists = multisets,

handed to z3 (cvc5 on unknown) in a separate process with a hard time limit.

Accepted subset (anything else makes the translator REFUSE the function - reported as undecided, never skipped):
assignments (names, tuple unpacking, attribute / subscript targets), augmented assignment, if/elif/else, for over
words / label lists / dict views / tuples of parameters, continue, return, raise, try/except (KeyError, FSAException),
calls to contracted callees and to the modelled methods (append, pop, items, keys, len, list, copy.deepcopy),
comparisons, boolean operators, `in`, `is None`, conditional expressions, f-strings (opaque).

What the translation drops / assumes (listed in every evidence file):
  order inside a label list (multiset), character structure of labels (atomic symbols), dict iteration order
  (an arbitrary enumeration without repetition), exact matrix arithmetic (abstract group), unbounded integers.
"""
import ast
import inspect
import os
import subprocess
import tempfile
import textwrap
import time

import z3

from .smt import Z3, CVC5

Atom = z3.DeclareSort("Atom")
Loc = z3.DeclareSort("Loc")
Mat = z3.DeclareSort("Mat")
I, B = z3.IntSort(), z3.BoolSort()


class Refuse(Exception):
    """construct outside the accepted subset"""


# ----------------------------------------------------------------------------------------------------------- values
class V:
    pass


class VInt(V):
    def __init__(self, t): self.t = t


class VBool(V):
    def __init__(self, t): self.t = t


class VAtom(V):
    def __init__(self, t): self.t = t


class VNone(V):
    pass


class VOpt(V):
    """an Atom or None:  isnone (Bool), val (Atom)"""
    def __init__(self, isnone, val): self.isnone, self.val = isnone, val


class VWord(V):
    """sequence of atoms: Python str, tuple or list of labels; (Array Int Atom, Int)"""
    def __init__(self, arr, n): self.arr, self.n = arr, n


class VMat(V):
    def __init__(self, t): self.t = t


class VTuple(V):
    def __init__(self, items): self.items = items


class VDict(V):
    """reference to a dict object.  typ = ('dict'|'ddlist'|'dddict', keysort, valuetype) with valuetype one of
    'atom' | ('dictref', typ) | 'list' | 'mat' """
    def __init__(self, loc, typ): self.loc, self.typ = loc, typ


class VList(V):
    """reference to a list of labels (multiset behind a location)"""
    def __init__(self, loc): self.loc = loc


class VMSet(V):
    """a label list VALUE (parameter / comprehension result not yet stored): multiset Atom -> Int"""
    def __init__(self, ms): self.ms = ms


class VRecords(V):
    """a Python list of tuples, column-wise: cols = [('atom', Array Int Atom) | ('mset', Array Int (Array Atom Int))], n"""
    def __init__(self, cols, n): self.cols, self.n = cols, n

    def row(self, i):
        return VTuple([VAtom(a[i]) if k == 'atom' else VMSet(a[i]) for k, a in self.cols])


class VObj(V):
    def __init__(self, fields, cls): self.fields, self.cls = fields, cls


class VOpaque(V):
    def __init__(self, what=""): self.what = what


class VFunc(V):
    def __init__(self, name, fn): self.name, self.fn = name, fn


# ----------------------------------------------------------------------------------------------------------- heap
HEAP_FIELDS = {
    "present": z3.ArraySort(Loc, z3.ArraySort(Atom, B)),
    "valA": z3.ArraySort(Loc, z3.ArraySort(Atom, Atom)),
    "valL": z3.ArraySort(Loc, z3.ArraySort(Atom, Loc)),
    "cnt": z3.ArraySort(Loc, z3.ArraySort(Atom, I)),
    "alloc": z3.ArraySort(Loc, B),
    "kind": z3.ArraySort(Loc, I),          # 0 plain dict, 1 defaultdict(list), 2 defaultdict(dict)
}


class State:
    def __init__(self, tag=""):
        self.env = {}
        self.heap = {k: z3.Const(f"{k}_{tag}", s) for k, s in HEAP_FIELDS.items()}
        self.pc = []          # path condition (list of z3 Bool)
        self.ghost = {}

    def fork(self):
        s = State.__new__(State)
        s.env = dict(self.env)
        s.heap = dict(self.heap)
        s.pc = list(self.pc)
        s.ghost = dict(self.ghost)
        return s

    # dict primitives -----------------------------------------------------------------------------------
    def d_present(self, loc, k):
        return self.heap["present"][loc][k]

    def d_getA(self, loc, k):
        return self.heap["valA"][loc][k]

    def d_getL(self, loc, k):
        return self.heap["valL"][loc][k]

    def d_set_present(self, loc, k, b=True):
        h = self.heap
        h["present"] = z3.Store(h["present"], loc, z3.Store(h["present"][loc], k, z3.BoolVal(b)))

    def d_setA(self, loc, k, v):
        h = self.heap
        h["valA"] = z3.Store(h["valA"], loc, z3.Store(h["valA"][loc], k, v))
        self.d_set_present(loc, k)

    def d_setL(self, loc, k, v):
        h = self.heap
        h["valL"] = z3.Store(h["valL"], loc, z3.Store(h["valL"][loc], k, v))
        self.d_set_present(loc, k)

    def l_count(self, loc, a):
        return self.heap["cnt"][loc][a]

    def l_set(self, loc, ms):
        self.heap["cnt"] = z3.Store(self.heap["cnt"], loc, ms)

    def fresh_loc(self, hint="new"):
        l = z3.FreshConst(Loc, hint)
        self.pc.append(z3.Not(self.heap["alloc"][l]))
        self.heap["alloc"] = z3.Store(self.heap["alloc"], l, z3.BoolVal(True))
        return l


_fresh = [0]


def fresh(sort, hint="v"):
    _fresh[0] += 1
    return z3.Const(f"{hint}!{_fresh[0]}", sort)


EMPTY_MS = z3.K(Atom, z3.IntVal(0))
EMPTY_PRESENT = z3.K(Atom, z3.BoolVal(False))


# ----------------------------------------------------------------------------------------------------------- outcomes
class Outcome:
    def __init__(self, kind, state, value=None, exc=None):
        self.kind, self.state, self.value, self.exc = kind, state, value, exc      # kind: normal return raise continue break


class Obligation:
    def __init__(self, name, hyps, goal, line=None):
        self.name, self.hyps, self.goal, self.line = name, hyps, goal, line


# ----------------------------------------------------------------------------------------------------------- interpreter
class Interp:
    def __init__(self, contract, fname, source_file, funcdef, axioms):
        self.c = contract
        self.fname = fname
        self.file = source_file
        self.fd = funcdef
        self.axioms = list(axioms)
        self.obligations = []
        # loops are numbered in source order (each AST loop node has ONE ordinal, however many paths reach it)
        self.loop_ids = {}
        def number(node):
            for ch in ast.iter_child_nodes(node):
                if isinstance(ch, (ast.For, ast.While)):
                    self.loop_ids[id(ch)] = len(self.loop_ids)
                number(ch)
        number(funcdef)
        self.dropped = set()

    # ---- obligations
    def oblige(self, name, st, goal, line=None):
        self.obligations.append(Obligation(name, list(st.pc), goal, line))

    # ---- expressions: returns list of (state, value) or raises; exceptions as Outcome('raise')
    def ev(self, node, st):
        """returns list of results: ('val', state, value) | ('raise', state, excname)"""
        m = getattr(self, "ev_" + type(node).__name__, None)
        if m is None:
            raise Refuse(f"expression {type(node).__name__} at line {getattr(node, 'lineno', '?')}")
        return m(node, st)

    def ev1(self, node, st, then):
        """evaluate node; for each value result call then(state, value) -> list of outcomes; propagate raises"""
        outs = []
        for r in self.ev(node, st):
            if r[0] == 'raise':
                outs.append(Outcome('raise', r[1], exc=r[2]))
            else:
                outs.extend(then(r[1], r[2]))
        return outs

    def ev_Constant(self, n, st):
        v = n.value
        if v is None:
            return [('val', st, VNone())]
        if isinstance(v, bool):
            return [('val', st, VBool(z3.BoolVal(v)))]
        if isinstance(v, int):
            return [('val', st, VInt(z3.IntVal(v)))]
        if isinstance(v, str):
            if v == "":
                return [('val', st, VWord(z3.K(I, z3.Const("atom_default", Atom)), z3.IntVal(0)))]
            return [('val', st, VOpaque(f"str:{v}"))]
        raise Refuse(f"constant {v!r}")

    def ev_JoinedStr(self, n, st):
        return [('val', st, VOpaque("fstring"))]

    def narrow(self, st, v):
        """an optional value whose None-ness is decided by the path condition becomes an atom / None"""
        if isinstance(v, VOpt):
            for c in st.pc:
                if z3.eq(c, z3.Not(v.isnone)):
                    return VAtom(v.val)
                if z3.eq(c, v.isnone):
                    return VNone()
        return v

    def ev_Name(self, n, st):
        if n.id in st.env:
            return [('val', st, self.narrow(st, st.env[n.id]))]
        g = self.c.globals_.get(n.id)
        if g is not None:
            return [('val', st, g)]
        raise Refuse(f"unknown name {n.id} at line {n.lineno}")

    def ev_Attribute(self, n, st):
        res = []
        for r in self.ev(n.value, st):
            if r[0] == 'raise':
                res.append(r); continue
            _, s, base = r
            if isinstance(base, VObj):
                name = n.attr
                name = self.c.properties.get((base.cls, name), name)
                if name in base.fields:
                    res.append(('val', s, base.fields[name]))
                    continue
                res.append(('val', s, VFunc(f"{base.cls}.{n.attr}", ('method', base, n.attr))))
                continue
            if isinstance(base, (VDict, VList, VWord, VMSet)):
                res.append(('val', s, VFunc(n.attr, ('method', base, n.attr))))
                continue
            if isinstance(base, VOpaque) or isinstance(base, VFunc):
                res.append(('val', s, VFunc(f"{getattr(base, 'what', getattr(base, 'name', ''))}.{n.attr}", ('module', base, n.attr))))
                continue
            raise Refuse(f"attribute {n.attr} of {type(base).__name__} at line {n.lineno}")
        return res

    def as_atom(self, v, line):
        if isinstance(v, VAtom):
            return v.t
        raise Refuse(f"expected a hashable scalar (vertex / label), got {type(v).__name__} at line {line}")

    def lookup(self, st, d, k, line):
        """d[k] for a dict reference: returns results list"""
        kind, _, vt = d.typ
        key = self.as_atom(k, line)
        pres = st.d_present(d.loc, key)
        res = []
        # present
        s1 = st.fork()
        s1.pc.append(pres)
        res.append(('val', s1, self.dict_value(s1, d, key)))
        # absent
        kinds = {'dict': [0], 'ddlist': [1], 'dddict': [2], 'dyn': [0, 1, 2]}[kind]
        for kd in kinds:
            s2 = st.fork()
            s2.pc.append(z3.Not(pres))
            if kind == 'dyn':
                s2.pc.append(s2.heap["kind"][d.loc] == kd)
            if kd == 0:
                res.append(('raise', s2, 'KeyError'))
                continue
            # defaultdict: auto-insert a fresh empty object (reading MUTATES the dict)
            l = s2.fresh_loc("dflt")
            if kd == 1:
                s2.l_set(l, EMPTY_MS)
            else:
                s2.heap["present"] = z3.Store(s2.heap["present"], l, EMPTY_PRESENT)
                s2.heap["kind"] = z3.Store(s2.heap["kind"], l, z3.IntVal(0))
            s2.d_setL(d.loc, key, l)
            res.append(('val', s2, self.dict_value(s2, d, key)))
        return res

    def dict_value(self, st, d, key):
        vt = d.typ[2]
        if vt == 'atom':
            return VAtom(st.d_getA(d.loc, key))
        if vt == 'list':
            return VList(st.d_getL(d.loc, key))
        if vt == 'mat':
            return VMat(self.c.G(key))
        if isinstance(vt, tuple) and vt[0] == 'dictref':
            return VDict(st.d_getL(d.loc, key), vt[1])
        raise Refuse(f"dict value type {vt}")

    def ev_Subscript(self, n, st):
        res = []
        for r in self.ev(n.value, st):
            if r[0] == 'raise':
                res.append(r); continue
            _, s, base = r
            if isinstance(n.slice, ast.Slice):
                res.extend(self.slice_of(s, base, n.slice, n.lineno))
                continue
            for r2 in self.ev(n.slice, s):
                if r2[0] == 'raise':
                    res.append(r2); continue
                _, s2, idx = r2
                if isinstance(base, VDict):
                    res.extend(self.lookup(s2, base, idx, n.lineno))
                elif isinstance(base, VWord):
                    if not isinstance(idx, VInt):
                        raise Refuse("word index")
                    i = idx.t
                    i = z3.If(i < 0, base.n + i, i)
                    self.oblige(f"index_in_range@{n.lineno}", s2, z3.And(i >= 0, i < base.n), n.lineno)
                    res.append(('val', s2, VAtom(base.arr[i])))
                elif isinstance(base, VTuple):
                    if not (isinstance(idx, VInt) and z3.is_int_value(idx.t)):
                        raise Refuse("tuple index")
                    res.append(('val', s2, base.items[idx.t.as_long()]))
                else:
                    raise Refuse(f"subscript of {type(base).__name__} at line {n.lineno}")
        return res

    def slice_of(self, st, base, sl, line):
        if not isinstance(base, VWord):
            raise Refuse("slice of a non-sequence")
        if sl.step is not None:
            raise Refuse("slice with a step")
        if sl.lower is None and isinstance(sl.upper, ast.UnaryOp) and isinstance(sl.upper.op, ast.USub) and isinstance(sl.upper.operand, ast.Constant) and sl.upper.operand.value == 1:
            # x[:-1] : same array, length max(n-1, 0)
            return [('val', st, VWord(base.arr, z3.If(base.n > 0, base.n - 1, z3.IntVal(0))))]
        raise Refuse(f"slice form at line {line}")

    def truth(self, v, line):
        if isinstance(v, VBool):
            return v.t
        if isinstance(v, VNone):
            return z3.BoolVal(False)
        raise Refuse(f"truth value of {type(v).__name__} at line {line}")

    def ev_BoolOp(self, n, st):
        # short-circuit evaluation
        def rec(vals, s):
            if len(vals) == 1:
                return self.ev(vals[0], s)
            out = []
            for r in self.ev(vals[0], s):
                if r[0] == 'raise':
                    out.append(r); continue
                _, s1, v = r
                t = self.truth(v, n.lineno)
                stop = z3.simplify(t if isinstance(n.op, ast.Or) else z3.Not(t))
                if not z3.is_false(stop):
                    sa = s1.fork(); sa.pc.append(stop)
                    out.append(('val', sa, VBool(z3.BoolVal(isinstance(n.op, ast.Or)))))
                if not z3.is_true(stop):
                    sb = s1.fork(); sb.pc.append(z3.Not(stop))
                    out.extend(rec(vals[1:], sb))
            return out
        return rec(n.values, st)

    def ev_UnaryOp(self, n, st):
        res = []
        for r in self.ev(n.operand, st):
            if r[0] == 'raise':
                res.append(r); continue
            _, s, v = r
            if isinstance(n.op, ast.Not):
                res.append(('val', s, VBool(z3.Not(self.truth(v, n.lineno)))))
            elif isinstance(n.op, ast.USub) and isinstance(v, VInt):
                res.append(('val', s, VInt(-v.t)))
            else:
                raise Refuse("unary operator")
        return res

    def ev_IfExp(self, n, st):
        res = []
        for r in self.ev(n.test, st):
            if r[0] == 'raise':
                res.append(r); continue
            _, s, v = r
            t = self.truth(v, n.lineno)
            sa = s.fork(); sa.pc.append(t)
            res.extend(self.ev(n.body, sa))
            sb = s.fork(); sb.pc.append(z3.Not(t))
            res.extend(self.ev(n.orelse, sb))
        return res

    def eq_values(self, a, b, line):
        if isinstance(a, VAtom) and isinstance(b, VAtom):
            return a.t == b.t
        if isinstance(a, VInt) and isinstance(b, VInt):
            return a.t == b.t
        if isinstance(a, VBool) and isinstance(b, VBool):
            return a.t == b.t
        if isinstance(a, VNone) and isinstance(b, VNone):
            return z3.BoolVal(True)
        if isinstance(a, VOpt) and isinstance(b, VNone):
            return a.isnone
        if isinstance(a, VNone) or isinstance(b, VNone):
            if isinstance(a, VOpt) or isinstance(b, VOpt):
                o = a if isinstance(a, VOpt) else b
                return o.isnone
            return z3.BoolVal(False)
        if isinstance(a, VWord) and isinstance(b, VWord):
            # only comparisons of a one-letter word against a letter-word are needed; general equality is refused
            raise Refuse(f"word equality at line {line}")
        raise Refuse(f"equality of {type(a).__name__} and {type(b).__name__} at line {line}")

    def ev_Compare(self, n, st):
        if len(n.ops) != 1:
            raise Refuse("chained comparison")
        op = n.ops[0]
        res = []
        for r in self.ev(n.left, st):
            if r[0] == 'raise':
                res.append(r); continue
            _, s, a = r
            for r2 in self.ev(n.comparators[0], s):
                if r2[0] == 'raise':
                    res.append(r2); continue
                _, s2, b = r2
                if isinstance(op, (ast.Is, ast.Eq)):
                    res.append(('val', s2, VBool(self.eq_values(a, b, n.lineno))))
                elif isinstance(op, (ast.IsNot, ast.NotEq)):
                    res.append(('val', s2, VBool(z3.Not(self.eq_values(a, b, n.lineno)))))
                elif isinstance(op, (ast.In, ast.NotIn)):
                    if isinstance(b, VDict):
                        t = s2.d_present(b.loc, self.as_atom(a, n.lineno))
                    elif isinstance(b, VList):
                        t = s2.l_count(b.loc, self.as_atom(a, n.lineno)) >= 1
                    elif isinstance(b, VMSet):
                        t = b.ms[self.as_atom(a, n.lineno)] >= 1
                    elif isinstance(b, VWord):
                        k = fresh(I, "k")
                        t = z3.Exists([k], z3.And(k >= 0, k < b.n, b.arr[k] == self.as_atom(a, n.lineno)))
                    else:
                        raise Refuse(f"`in` on {type(b).__name__} at line {n.lineno}")
                    res.append(('val', s2, VBool(t if isinstance(op, ast.In) else z3.Not(t))))
                elif isinstance(a, VInt) and isinstance(b, VInt):
                    f = {ast.Lt: lambda x, y: x < y, ast.LtE: lambda x, y: x <= y, ast.Gt: lambda x, y: x > y, ast.GtE: lambda x, y: x >= y}[type(op)]
                    res.append(('val', s2, VBool(f(a.t, b.t))))
                else:
                    raise Refuse(f"comparison at line {n.lineno}")
        return res

    def ev_BinOp(self, n, st):
        res = []
        for r in self.ev(n.left, st):
            if r[0] == 'raise':
                res.append(r); continue
            _, s, a = r
            for r2 in self.ev(n.right, s):
                if r2[0] == 'raise':
                    res.append(r2); continue
                _, s2, b = r2
                res.append(('val', s2, self.binop(n.op, a, b, n.lineno)))
        return res

    def binop(self, op, a, b, line):
        if isinstance(a, VInt) and isinstance(b, VInt):
            if isinstance(op, ast.Add): return VInt(a.t + b.t)
            if isinstance(op, ast.Sub): return VInt(a.t - b.t)
            if isinstance(op, ast.Mult): return VInt(a.t * b.t)
        if isinstance(op, ast.MatMult) and isinstance(a, VMat) and isinstance(b, VMat):
            return VMat(self.c.mul(a.t, b.t))
        if isinstance(op, ast.Add) and isinstance(a, VWord):
            if isinstance(b, VAtom):     # word + letter (a one-character string)
                return VWord(z3.Store(a.arr, a.n, b.t), a.n + 1)
            if isinstance(b, VWord) and z3.is_int_value(z3.simplify(b.n)) and z3.simplify(b.n).as_long() == 0:
                return a
        raise Refuse(f"binary operator {type(op).__name__} on {type(a).__name__}, {type(b).__name__} at line {line}")

    def ev_Tuple(self, n, st):
        results = [('val', st, [])]
        for e in n.elts:
            new = []
            for r in results:
                if r[0] == 'raise':
                    new.append(r); continue
                for r2 in self.ev(e, r[1]):
                    if r2[0] == 'raise':
                        new.append(r2)
                    else:
                        new.append(('val', r2[1], r[2] + [r2[2]]))
            results = new
        return [(r if r[0] == 'raise' else ('val', r[1], VTuple(r[2]))) for r in results]

    ev_List = ev_Tuple

    def ev_Dict(self, n, st):
        if n.keys:
            raise Refuse("non-empty dict literal")
        l = st.fresh_loc("dict")
        st.heap["present"] = z3.Store(st.heap["present"], l, EMPTY_PRESENT)
        st.heap["kind"] = z3.Store(st.heap["kind"], l, z3.IntVal(0))
        return [('val', st, VDict(l, None))]

    def ev_ListComp(self, n, st):
        return self.c.list_comprehension(self, n, st)

    def ev_Call(self, n, st):
        # x.append(y) on a LOCAL list of letters (a word value held in a variable): rebind the variable
        if (isinstance(n.func, ast.Attribute) and n.func.attr == 'append' and isinstance(n.func.value, ast.Name)
                and isinstance(st.env.get(n.func.value.id), VWord) and len(n.args) == 1):
            name = n.func.value.id
            out = []
            for r in self.ev(n.args[0], st):
                if r[0] == 'raise':
                    out.append(r); continue
                _, s, v = r
                cur = s.env[name]
                s.env[name] = VWord(z3.Store(cur.arr, cur.n, self.as_atom(v, n.lineno)), cur.n + 1)
                out.append(('val', s, VNone()))
            return out
        if isinstance(n.func, ast.Name) and n.func.id == 'defaultdict' and len(n.args) == 1 and isinstance(n.args[0], ast.Name) and n.args[0].id in ('list', 'dict'):
            l = st.fresh_loc("ddict")
            st.heap["present"] = z3.Store(st.heap["present"], l, EMPTY_PRESENT)
            st.heap["kind"] = z3.Store(st.heap["kind"], l, z3.IntVal(1 if n.args[0].id == 'list' else 2))
            return [('val', st, VDict(l, None))]
        if isinstance(n.func, ast.Name) and n.func.id == 'list' and len(n.args) == 1:
            # list(d): a snapshot of the keys of a dict (iteration over it is iteration over the keys at this moment)
            out = []
            for r in self.ev(n.args[0], st):
                if r[0] == 'raise':
                    out.append(r); continue
                _, s, v = r
                if isinstance(v, VDict):
                    out.append(('val', s, VTuple([VOpaque('dictview'), v, VOpaque('keys')])))
                elif isinstance(v, VList):
                    out.append(('val', s, VMSet(s.heap["cnt"][v.loc])))      # list(labels): a NEW list with the same elements
                else:
                    raise Refuse(f"list() of {type(v).__name__} at line {n.lineno}")
            return out
        if isinstance(n.func, ast.Name) and n.func.id == 'len' and len(n.args) == 1:
            out = []
            for r in self.ev(n.args[0], st):
                if r[0] == 'raise':
                    out.append(r); continue
                _, s, v = r
                if isinstance(v, VWord):
                    out.append(('val', s, VInt(v.n)))
                else:
                    raise Refuse(f"len of {type(v).__name__} at line {n.lineno}")
            return out
        res = []
        for r in self.ev(n.func, st):
            if r[0] == 'raise':
                res.append(r); continue
            _, s, f = r
            # evaluate arguments left to right
            argsets = [('val', s, [], {})]
            for a in n.args:
                new = []
                for rr in argsets:
                    if rr[0] == 'raise':
                        new.append(rr); continue
                    for r2 in self.ev(a, rr[1]):
                        new.append(r2 if r2[0] == 'raise' else ('val', r2[1], rr[2] + [r2[2]], rr[3]))
                argsets = new
            for kw in n.keywords:
                new = []
                for rr in argsets:
                    if rr[0] == 'raise':
                        new.append(rr); continue
                    for r2 in self.ev(kw.value, rr[1]):
                        new.append(r2 if r2[0] == 'raise' else ('val', r2[1], rr[2], {**rr[3], kw.arg: r2[2]}))
                argsets = new
            for rr in argsets:
                if rr[0] == 'raise':
                    res.append(rr); continue
                res.extend(self.call(f, rr[1], rr[2], rr[3], n.lineno))
        return res

    def call(self, f, st, args, kwargs, line):
        if not isinstance(f, VFunc):
            raise Refuse(f"call of {type(f).__name__} at line {line}")
        kind = f.fn[0]
        if kind == 'builtin':
            return f.fn[1](self, st, args, kwargs, line)
        if kind == 'method':
            _, base, name = f.fn
            if isinstance(base, VList):
                if name == 'append':
                    a = self.as_atom(args[0], line)
                    st.l_set(base.loc, z3.Store(st.heap["cnt"][base.loc], a, st.l_count(base.loc, a) + 1))
                    return [('val', st, VNone())]
            if isinstance(base, VWord):
                if name == 'join' and len(args) == 1 and isinstance(args[0], VWord):
                    return [('val', st, args[0])]      # labels are atomic symbols: joining keeps the sequence
                if name == 'append':
                    raise Refuse("append on a word value must be an assignment target")
                if name in ('lower', 'upper'):
                    raise Refuse("string case mapping")
            if isinstance(base, VDict):
                if name == 'pop':
                    k = self.as_atom(args[0], line)
                    pres = st.d_present(base.loc, k)
                    s1 = st.fork(); s1.pc.append(pres)
                    val = self.dict_value(s1, base, k)
                    s1.d_set_present(base.loc, k, False)
                    s2 = st.fork(); s2.pc.append(z3.Not(pres))
                    return [('val', s1, val), ('raise', s2, 'KeyError')]
                if name in ('keys', 'items', 'values'):
                    return [('val', st, VTuple([VOpaque('dictview'), base, VOpaque(name)]))]
            if isinstance(base, VObj):
                cc = self.c.callees.get(f"{base.cls}.{name}")
                if cc is None:
                    raise Refuse(f"call of uncontracted method {base.cls}.{name} at line {line}")
                return cc(self, st, base, args, kwargs, line)
            raise Refuse(f"method {name} on {type(base).__name__} at line {line}")
        if kind == 'module':
            name = f.name
            if name.startswith("str:") and name.endswith(".join") and len(args) == 1 and isinstance(args[0], VWord):
                return [('val', st, args[0])]      # separator characters are part of the dropped character structure
            cc = self.c.callees.get(name)
            if cc is None:
                raise Refuse(f"call of uncontracted function {name} at line {line}")
            return cc(self, st, None, args, kwargs, line)
        raise Refuse(f"call kind {kind}")

    # ---- statements
    def run_block(self, stmts, st):
        """returns list of Outcome"""
        outs = [Outcome('normal', st)]
        for s in stmts:
            new = []
            for o in outs:
                if o.kind != 'normal':
                    new.append(o)
                else:
                    new.extend(self.run_stmt(s, o.state))
            outs = new
        return outs

    def run_stmt(self, n, st):
        m = getattr(self, "st_" + type(n).__name__, None)
        if m is None:
            raise Refuse(f"statement {type(n).__name__} at line {n.lineno}")
        return m(n, st)

    def st_Pass(self, n, st):
        return [Outcome('normal', st)]

    def st_Continue(self, n, st):
        return [Outcome('continue', st)]

    def st_Break(self, n, st):
        return [Outcome('break', st)]

    def st_Expr(self, n, st):
        if isinstance(n.value, ast.Constant):      # docstring
            return [Outcome('normal', st)]
        return self.ev1(n.value, st, lambda s, v: [Outcome('normal', s)])

    def st_Return(self, n, st):
        if n.value is None:
            return [Outcome('return', st, VNone())]
        return self.ev1(n.value, st, lambda s, v: [Outcome('return', s, v)])

    def st_Raise(self, n, st):
        exc = n.exc
        name = None
        if isinstance(exc, ast.Call):
            fn = exc.func
            name = fn.id if isinstance(fn, ast.Name) else fn.attr
        elif isinstance(exc, ast.Name):
            name = exc.id
        if name is None:
            raise Refuse("raise form")
        return [Outcome('raise', st, exc=name)]

    def assign(self, target, st, val, line):
        """returns list of Outcome('normal'|'raise')"""
        if isinstance(target, ast.Name):
            if isinstance(val, VTuple) and len(val.items) == 0 and self.c.var_kinds.get(target.id) == 'word':
                val = VWord(z3.K(I, z3.Const("atom_default", Atom)), z3.IntVal(0))
            if isinstance(val, VDict) and val.typ is None and isinstance(self.c.var_kinds.get(target.id), tuple):
                typ = self.c.var_kinds[target.id]
                want = {'dict': 0, 'ddlist': 1, 'dddict': 2}[typ[0]]
                self.oblige(f"local_dict_has_declared_kind@{line}", st, st.heap["kind"][val.loc] == want, line)
                val = VDict(val.loc, typ)
            st.env[target.id] = val
            return [Outcome('normal', st)]
        if isinstance(target, (ast.Tuple, ast.List)):
            if not isinstance(val, VTuple) or len(val.items) != len(target.elts):
                raise Refuse(f"unpacking at line {line}")
            outs = [Outcome('normal', st)]
            for t, v in zip(target.elts, val.items):
                new = []
                for o in outs:
                    new.extend(self.assign(t, o.state, v, line) if o.kind == 'normal' else [o])
                outs = new
            return outs
        if isinstance(target, ast.Attribute):
            def then(s, base):
                if not isinstance(base, VObj):
                    raise Refuse("attribute assignment on a non-object")
                base.fields = dict(base.fields)
                base.fields[target.attr] = val
                # objects are shared by reference in env: rebind every alias
                for k, v in list(s.env.items()):
                    if isinstance(v, VObj) and v.cls == base.cls:
                        s.env[k] = base
                return [Outcome('normal', s)]
            return self.ev1(target.value, st, then)
        if isinstance(target, ast.Subscript):
            def then(s, base):
                def then2(s2, idx):
                    if not isinstance(base, VDict):
                        raise Refuse(f"subscript assignment on {type(base).__name__} at line {line}")
                    k = self.as_atom(idx, line)
                    vt = base.typ[2]
                    if vt == 'atom':
                        s2.d_setA(base.loc, k, self.as_atom(val, line))
                    elif vt == 'list':
                        s2.d_setL(base.loc, k, self.store_list(s2, val, line))
                    elif isinstance(vt, tuple) and vt[0] == 'dictref':
                        if not isinstance(val, VDict):
                            raise Refuse("dict-valued assignment of a non-dict")
                        want = {'dict': 0, 'ddlist': 1, 'dddict': 2}.get(vt[1][0])
                        if val.typ is None and want is not None:
                            # a freshly created dict object: its run-time kind must be the declared one
                            self.oblige(f"stored_dict_has_declared_kind@{line}", s2, s2.heap["kind"][val.loc] == want, line)
                        s2.d_setL(base.loc, k, val.loc)
                    else:
                        raise Refuse("subscript assignment value type")
                    return [Outcome('normal', s2)]
                return self.ev1(target.slice, s, then2)
            return self.ev1(target.value, st, then)
        raise Refuse(f"assignment target {type(target).__name__}")

    def store_list(self, st, val, line):
        """a list value being stored into a container: the location it lives at (fresh for literals / copies)"""
        if isinstance(val, VList):
            return val.loc
        if isinstance(val, VMSet):
            l = st.fresh_loc("list")
            st.l_set(l, val.ms)
            return l
        if isinstance(val, VTuple) and len(val.items) == 0:
            l = st.fresh_loc("list")
            st.l_set(l, EMPTY_MS)
            return l
        raise Refuse(f"list value {type(val).__name__} at line {line}")

    def st_Assign(self, n, st):
        if len(n.targets) != 1:
            raise Refuse("multiple assignment targets")
        return self.ev1(n.value, st, lambda s, v: self.assign(n.targets[0], s, v, n.lineno))

    def st_AugAssign(self, n, st):
        # target op= value   ==   tmp = target ; tmp = tmp op value ; target = tmp   (lists: in place)
        def then(s, cur):
            def then2(s2, v):
                if isinstance(cur, VList) and isinstance(n.op, ast.Add):
                    if isinstance(v, VMSet):
                        ms = v.ms
                    elif isinstance(v, VList):
                        ms = s2.heap["cnt"][v.loc]
                    else:
                        raise Refuse(f"list += {type(v).__name__} at line {n.lineno}")
                    a = fresh(Atom, "a")
                    new = fresh(z3.ArraySort(Atom, I), "ms")
                    s2.pc.append(z3.ForAll([a], new[a] == s2.heap["cnt"][cur.loc][a] + ms[a]))
                    s2.l_set(cur.loc, new)
                    return [Outcome('normal', s2)]
                return self.assign(n.target, s2, self.binop(n.op, cur, v, n.lineno), n.lineno)
            return self.ev1(n.value, s, then2)
        return self.ev1(n.target, st, then)

    def st_If(self, n, st):
        def then(s, v):
            t = z3.simplify(self.truth(v, n.lineno))
            outs = []
            if not z3.is_false(t):       # branches whose condition is the constant False are dead code on this path
                sa = s.fork(); sa.pc.append(t)
                outs += self.run_block(n.body, sa)
            if not z3.is_true(t):
                sb = s.fork(); sb.pc.append(z3.Not(t))
                outs += self.run_block(n.orelse, sb)
            return outs
        return self.ev1(n.test, st, then)

    def st_Try(self, n, st):
        if n.finalbody or n.orelse:
            raise Refuse("try with else/finally")
        outs = []
        for o in self.run_block(n.body, st):
            if o.kind != 'raise':
                outs.append(o); continue
            handled = False
            for hd in n.handlers:
                names = []
                if hd.type is None:
                    names = None
                elif isinstance(hd.type, ast.Name):
                    names = [hd.type.id]
                elif isinstance(hd.type, ast.Tuple):
                    names = [e.id for e in hd.type.elts]
                elif isinstance(hd.type, ast.Attribute):
                    names = [hd.type.attr]
                if names is None or o.exc in names:
                    outs.extend(self.run_block(hd.body, o.state))
                    handled = True
                    break
            if not handled:
                outs.append(o)
        return outs

    def st_For(self, n, st):
        if n.orelse:
            raise Refuse("for-else")
        ordinal = self.loop_ids[id(n)]
        return self.ev1(n.iter, st, lambda s, it: self.loop(n, s, it, ordinal))

    def loop(self, n, st, it, ordinal):
        if isinstance(it, VTuple) and all(isinstance(self.narrow(st, x), VAtom) for x in it.items):
            arr = z3.K(I, z3.Const("atom_default", Atom))
            for k, x in enumerate(it.items):
                arr = z3.Store(arr, k, self.narrow(st, x).t)
            it = VWord(arr, z3.IntVal(len(it.items)))
        spec = self.c.loops.get(ordinal)
        if spec is None:
            raise Refuse(f"loop #{ordinal} at line {n.lineno} has no invariant")
        return spec(self, n, st, it, ordinal)


# ----------------------------------------------------------------------------------------------------------- loops
def word_loop(invariant, modifies):
    """for x in <word>:  invariant(state, i) -> z3 Bool, where i is the number of completed iterations.
    modifies: names of the local variables assigned in the body (havocked at the loop head; heap is NOT modified)."""
    def run(ip, n, st, it, ordinal):
        if not isinstance(it, VWord):
            raise Refuse(f"loop #{ordinal}: expected a word, got {type(it).__name__}")
        line = n.lineno
        # 1. invariant holds initially (i = 0)
        ip.oblige(f"loop{ordinal}_invariant_initially@{line}", st, invariant(ip, st, z3.IntVal(0), it), line)
        # 2. arbitrary iteration
        s = st.fork()
        i = fresh(I, f"i{ordinal}")
        for name in modifies:
            old = st.env.get(name)
            s.env[name] = havoc_like(old, name)
        s.pc.append(z3.And(i >= 0, i < it.n))
        s.pc.append(invariant(ip, s, i, it))
        outs = []
        body_outs = []
        for o in ip.assign(n.target, s, VAtom(it.arr[i]), line):
            body_outs.extend(ip.run_block(n.body, o.state) if o.kind == 'normal' else [o])
        for o in body_outs:
            if o.kind in ('normal', 'continue'):
                ip.oblige(f"loop{ordinal}_invariant_preserved@{line}", o.state, invariant(ip, o.state, i + 1, it), line)
            elif o.kind == 'break':
                raise Refuse("break")
            else:
                outs.append(o)          # return / raise from inside the loop (state carries the invariant at i)
        # 3. after the loop
        e = st.fork()
        for name in modifies:
            e.env[name] = havoc_like(st.env.get(name), name)
        e.pc.append(invariant(ip, e, it.n, it))
        outs.append(Outcome('normal', e))
        return outs
    return run


def havoc_like(old, name):
    if isinstance(old, VAtom):
        return VAtom(fresh(Atom, name))
    if isinstance(old, VInt):
        return VInt(fresh(I, name))
    if isinstance(old, VBool):
        return VBool(fresh(B, name))
    if isinstance(old, VMat):
        return VMat(fresh(Mat, name))
    if isinstance(old, VWord):
        return VWord(fresh(z3.ArraySort(I, Atom), name), fresh(I, name + "_len"))
    if isinstance(old, VOpt):
        return VOpt(fresh(B, name + "_isnone"), fresh(Atom, name))
    if old is None or isinstance(old, (VOpaque, VNone)):
        return VOpaque("unassigned")
    if isinstance(old, VDict):
        return VDict(fresh(Loc, name), old.typ)
    if isinstance(old, VList):
        return VList(fresh(Loc, name))
    if isinstance(old, VMSet):
        return VMSet(fresh(z3.ArraySort(Atom, I), name))
    if isinstance(old, VTuple):
        return VOpaque("unassigned")
    raise Refuse(f"cannot havoc {name}: {type(old).__name__}")


# ----------------------------------------------------------------------------------------------------------- solving
def solve(hyps, goal, axioms, timeout=10.0):
    """valid?  returns (status, seconds, solver, model_text)"""
    s = z3.Solver()
    for a in axioms:
        s.add(a)
    for h in hyps:
        s.add(h)
    s.add(z3.Not(goal))
    text = s.to_smt2()
    t0 = time.time()
    fd, path = tempfile.mkstemp(suffix=".smt2")
    try:
        with os.fdopen(fd, "w") as f:
            f.write(text.replace("(check-sat)", "(check-sat)\n(get-model)"))
        for solver, cmd in (("z3", [Z3, f"-T:{int(timeout) + 1}", path]),
                            ("cvc5", [CVC5, f"--tlimit={int(timeout * 1000)}", "--full-saturate-quant", path])):
            try:
                pr = subprocess.run(cmd, capture_output=True, text=True, timeout=timeout + 3)
                out = pr.stdout.strip()
            except subprocess.TimeoutExpired:
                out = "unknown"
            first = out.split("\n", 1)[0].strip() if out else "unknown"
            if first == "unsat":
                return "proved", time.time() - t0, solver, ""
            if first == "sat":
                return "refuted", time.time() - t0, solver, out[:3000]
        return "unknown", time.time() - t0, "none", ""
    finally:
        try:
            os.unlink(path)
        except OSError:
            pass


def satisfiable(hyps, axioms, timeout=5.0):
    """'sat' | 'unsat' | 'unknown' for a set of hypotheses (vacuity guard)"""
    s = z3.Solver()
    for a in axioms:
        s.add(a)
    for h in hyps:
        s.add(h)
    fd, path = tempfile.mkstemp(suffix=".smt2")
    try:
        with os.fdopen(fd, "w") as f:
            f.write(s.to_smt2())
        try:
            pr = subprocess.run([Z3, f"-T:{int(timeout) + 1}", path], capture_output=True, text=True, timeout=timeout + 3)
            first = pr.stdout.strip().split("\n", 1)[0].strip()
        except subprocess.TimeoutExpired:
            first = "unknown"
        return first if first in ("sat", "unsat") else "unknown"
    finally:
        try:
            os.unlink(path)
        except OSError:
            pass


def load_function(relpath, qualname, repo=None):
    """re-read and parse the real source; returns (FunctionDef, source lines)"""
    repo = repo or os.environ.get("VF_REPO", "/repo")
    path = os.path.join(repo, relpath)
    src = open(path).read()
    tree = ast.parse(src)
    parts = qualname.split(".")
    node = tree
    for p in parts:
        found = None
        for ch in ast.iter_child_nodes(node):
            if isinstance(ch, (ast.FunctionDef, ast.ClassDef)) and ch.name == p:
                found = ch
                break
        if found is None:
            raise Refuse(f"{qualname} not found in {relpath}")
        node = found
    return node, path


# ----------------------------------------------------------------------------------------------------------- heap loops
class LoopGhost:
    pass


def havoc_heap(st, tag):
    for k, srt in HEAP_FIELDS.items():
        st.heap[k] = fresh(srt, f"{k}_{tag}")


def heap_loop(invariant, modifies, frame=None):
    """for x in <list of atoms | keys view of a dict>, with a body that may modify the heap.
    invariant(ip, state, ghost, entry_state) -> z3 Bool.   ghost.i (lists) = number of completed iterations;
    ghost.done / ghost.snap (dict views) = set of keys already visited / snapshot of the keys at loop entry."""
    def run(ip, n, st, it, ordinal):
        line = n.lineno
        entry = st.fork()
        is_view = isinstance(it, VTuple) and len(it.items) == 3 and isinstance(it.items[0], VOpaque) and it.items[0].what == 'dictview'
        if not (isinstance(it, (VWord, VRecords)) or is_view):
            raise Refuse(f"loop #{ordinal}: cannot iterate over {type(it).__name__}")
        g0 = LoopGhost()
        if is_view:
            d = it.items[1]
            what = it.items[2].what
            g0.snap = entry.heap["present"][d.loc]
            g0.done = z3.K(Atom, z3.BoolVal(False))
            g0.dict = d
        else:
            g0.i = z3.IntVal(0)
        ip.oblige(f"loop{ordinal}_invariant_initially@{line}", st, invariant(ip, st, g0, entry), line)
        # arbitrary iteration
        s = st.fork()
        havoc_heap(s, f"L{ordinal}")
        for name in modifies:
            s.env[name] = havoc_like(st.env.get(name), name)
        g = LoopGhost()
        outs = []
        if is_view:
            g.snap, g.dict = g0.snap, g0.dict
            g.done = fresh(z3.ArraySort(Atom, B), "done")
            k = fresh(Atom, "key")
            s.pc.append(z3.And(g.snap[k], z3.Not(g.done[k])))
            s.pc.append(invariant(ip, s, g, entry))
            if what == 'keys':
                elem = VAtom(k)
            elif what == 'items':
                elem = VTuple([VAtom(k), ip.dict_value(s, d, k)])
            else:
                raise Refuse("values view")
            g2 = LoopGhost(); g2.snap, g2.dict, g2.done = g.snap, g.dict, z3.Store(g.done, k, z3.BoolVal(True))
        else:
            g.i = fresh(I, f"i{ordinal}")
            s.pc.append(z3.And(g.i >= 0, g.i < it.n))
            s.pc.append(invariant(ip, s, g, entry))
            elem = it.row(g.i) if isinstance(it, VRecords) else VAtom(it.arr[g.i])
            g2 = LoopGhost(); g2.i = g.i + 1
        body_outs = []
        s.ghost[ordinal] = (g, entry)         # visible to the invariants of nested loops
        for o in ip.assign(n.target, s, elem, line):
            body_outs.extend(ip.run_block(n.body, o.state) if o.kind == 'normal' else [o])
        for o in body_outs:
            if o.kind in ('normal', 'continue'):
                ip.oblige(f"loop{ordinal}_invariant_preserved@{line}", o.state, invariant(ip, o.state, g2, entry), line)
            elif o.kind == 'break':
                raise Refuse("break")
            else:
                outs.append(o)
        # exit
        e = st.fork()
        havoc_heap(e, f"X{ordinal}")
        for name in modifies:
            e.env[name] = havoc_like(st.env.get(name), name)
        gf = LoopGhost()
        if is_view:
            gf.snap, gf.dict = g0.snap, g0.dict
            gf.done = fresh(z3.ArraySort(Atom, B), "done_final")
            kk = fresh(Atom, "kk")
            e.pc.append(z3.ForAll([kk], z3.Implies(gf.snap[kk], gf.done[kk])))
        else:
            gf.i = it.n
        e.pc.append(invariant(ip, e, gf, entry))
        outs.append(Outcome('normal', e))
        return outs
    return run
