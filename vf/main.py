"""Driver:  ./check Cxx [--tier quick|thorough] [--seed N] | --replay FILE | --relock | --list

exit 0  property held on everything explored (KNOWN-FINDING lines allowed)
exit 1  VIOLATION property=<id> replay=<path> [no-failing-input-found]
exit 3  checker error (missing obligations, engine self-check failure, crash) - no verdict
"""
import argparse
import importlib
import json
import multiprocessing as mp
import os
import subprocess
import sys
import time
import traceback
import signal

import numpy as np

ROOT = os.path.dirname(os.path.dirname(os.path.abspath(__file__)))
REPO = os.environ.get("VF_REPO", "/repo")


def _load(prop):
    from . import api
    importlib.import_module(f"contracts.{prop.lower()}")
    return api.REGISTRY.get(prop, [])


# ------------------------------------------------------------------------------------------------ jobs
def _job(args):
    prop, idx, obname, payload, tier, seed = args
    from . import api
    t0 = time.time()
    import signal
    from .alg import Undecided, BudgetExceeded

    def _alarm(signum, frame):
        signal.alarm(5)      # re-armed: a layer that swallows the exception and carries on is interrupted again
        raise BudgetExceeded("per-obligation time budget exceeded")
    budget = int(os.environ.get("VF_OB_BUDGET", "900" if tier == 'thorough' else "150"))
    try:
        signal.signal(signal.SIGALRM, _alarm)
        signal.alarm(budget)
        item = api.REGISTRY[prop][idx]
        out = RUNNERS[item.kind](item, obname, payload, tier, seed)
        signal.alarm(0)
    except (Undecided, BudgetExceeded) as e:
        signal.alarm(0)
        out = {"name": obname, "engine": getattr(api.REGISTRY[prop][idx], 'kind', '?'), "status": "undecided", "detail": str(e)}
    except Exception as e:   # a crash of the machinery is never a verdict
        signal.alarm(0)
        out = {"name": obname, "engine": "?", "status": "error",
               "detail": f"{type(e).__name__}: {e}\n{traceback.format_exc(limit=10)}"}
    out["wall_s"] = round(time.time() - t0, 3)
    return out


def _run_R(item, obname, inst, tier, seed):
    from . import rrun
    from .alg import Undecided, BudgetExceeded
    # bounded stand-in / replay harness first (seconds): the same contract on random concrete inputs, native float64;
    # its result is kept even when the deductive part below runs out of its time budget
    n = item.bounded_n[1 if tier == 'thorough' else 0]
    rng = np.random.default_rng(seed * 7919 + 13)
    evals = nontriv = rejected = 0
    fails = []
    samples = []
    for k in range(n * 6):
        if evals >= n:
            break
        ctx = rrun.Ctx('num', rng)
        ctx.tol = item.tol
        try:
            with np.errstate(all='ignore'):
                item.fn(ctx, **inst)
        except rrun.Reject:
            rejected += 1
            continue
        except Undecided:
            raise
        except Exception as e:
            fails.append({"clause": "exception", "detail": f"{type(e).__name__}: {e}",
                          "inputs": {k2: rrun._tolist(v) for k2, v in ctx.inputs.items()}})
            evals += 1
            continue
        evals += 1
        nontriv += 1 if ctx.evaluated else 0
        if len(samples) < 2:
            samples.append({k2: rrun._tolist(v) for k2, v in ctx.inputs.items()})
        for c, d in ctx.failures:
            fails.append({"clause": c, "detail": d, "inputs": {k2: rrun._tolist(v) for k2, v in ctx.inputs.items()}})
        if len(fails) >= 3:
            break
    bnd = {"evaluations": evals, "nontrivial": nontriv, "rejected": rejected, "failures": fails[:3], "samples": samples}
    try:
        res = rrun.prove(item.fn, inst, obname, seed=seed, max_paths=item.max_paths, timeout=item.timeout)
        out = res.to_json()
    except (Undecided, BudgetExceeded) as e:
        signal.alarm(0)
        out = {"name": obname, "status": "undecided", "detail": str(e)}
    out["engine"] = "R"
    out["functions"] = item.functions
    out["bounded"] = bnd
    return out


def _run_B(item, obname, payload, tier, seed):
    rep = BReport()
    rng = np.random.default_rng(seed * 104729 + 7)
    item.fn(tier, rng, rep)
    return {"name": obname, "engine": "B", "status": "bounded-held" if not rep.failures else "bounded-failed",
            "detail": "", "functions": item.functions,
            "bounded": {"evaluations": rep.evaluations, "nontrivial": len(rep.distinct), "failures": rep.failures[:3],
                        "samples": rep.samples[:3], "rule": rep.rule, "exhaustive": rep.exhaustive,
                        "bound": rep.bound}}


def _run_P(item, obname, payload, tier, seed):
    return item.run(obname, payload, tier, seed)


RUNNERS = {'R': _run_R, 'B': _run_B, 'P': _run_P}


class BReport:
    def __init__(self):
        self.evaluations = 0
        self.distinct = set()
        self.failures = []
        self.samples = []
        self.rule = ""
        self.bound = ""
        self.exhaustive = False

    def case(self, key=None, nontrivial=True, sample=None):
        self.evaluations += 1
        if nontrivial:
            self.distinct.add(key if key is not None else self.evaluations)
        if sample is not None and len(self.samples) < 3:
            self.samples.append(sample)

    def attempt(self, clause, inputs, fn):
        """run fn(); an exception raised by the code under test on a valid input is a failure of `clause`"""
        from .alg import Undecided
        try:
            return fn()
        except Undecided:       # the per-obligation time budget of the checker, not an exception of the code under test
            raise
        except Exception as e:
            self.fail(clause, f"raised {type(e).__name__}: {e}", inputs)
            return None

    def fail(self, clause, detail, inputs):
        if len(self.failures) < 5:
            self.failures.append({"clause": clause, "detail": detail, "inputs": inputs})


# ------------------------------------------------------------------------------------------------ helpers
def _git_desc():
    try:
        h = subprocess.run(["git", "-C", REPO, "rev-parse", "--short", "HEAD"], capture_output=True, text=True).stdout.strip()
        d = subprocess.run(["git", "-C", REPO, "status", "--porcelain"], capture_output=True, text=True).stdout.strip()
        return h + ("+dirty" if d else "")
    except Exception:
        return "?"


def _known():
    p = os.path.join(ROOT, "known_findings.json")
    if not os.path.exists(p):
        return []
    return json.load(open(p))


def _match_known(prop, obname, clause, known):
    for k in known:
        if k.get("status") != "known" or k.get("property") != prop:
            continue
        key = k.get("key", {})
        if key.get("obligation") and key["obligation"] != obname:
            continue
        if key.get("clause") and clause is not None and key["clause"] != clause:
            continue
        return k
    return None


_RUN = {"tier": "quick", "seed": 0}


def _write_replay(prop, obname, out, clause, detail, inputs, verdict):
    d = os.path.join(os.environ.get("VF_OUT", ROOT), "replays")
    os.makedirs(d, exist_ok=True)
    safe = obname.replace("/", "_")
    path = os.path.join(d, f"{safe}.json")
    json.dump({"property": prop, "obligation": obname, "clause": clause, "engine": out.get("engine"),
               "functions": out.get("functions"), "verdict": verdict, "detail": detail, "inputs": inputs,
               "tier": _RUN["tier"], "seed": _RUN["seed"],
               "verifier_output": {"status": out.get("status"), "detail": out.get("detail"),
                                   "clauses": out.get("clauses")},
               "tree": _git_desc()}, open(path, "w"), indent=1, default=str)
    return path


def replay(path):
    r = json.load(open(path))
    prop = r["property"]
    items = _load(prop)
    from . import rrun, api
    for idx, item in enumerate(items):
        if item.kind == 'R':
            for obname, inst in item.obligations('thorough'):
                if obname == r["obligation"]:
                    if not r.get("inputs"):
                        print("replay file carries no concrete input (no-failing-input-found); verifier output:")
                        print(json.dumps(r["verifier_output"], indent=1)[:3000])
                        return 1
                    seeds = {k: rrun._fromlist(v) for k, v in r["inputs"].items()}
                    ctx = rrun.run_numeric(item.fn, inst, seeds=seeds)
                    if ctx.failures:
                        print(f"REPRODUCED {obname}: " + "; ".join(f"{c}: {d}" for c, d in ctx.failures))
                        return 1
                    print(f"not reproduced on this tree: {obname} holds at the recorded input")
                    return 0
        elif item.kind == 'B' and r["obligation"] == f"{prop}.{item.name}.bounded":
            # bounded checks are deterministic given (tier, seed): re-run and look for the recorded clause
            out = _run_B(item, r["obligation"], None, r.get("tier", "quick"), int(r.get("seed", 0)))
            fails = (out.get("bounded") or {}).get("failures") or []
            hit = [f for f in fails if f.get("clause") == r.get("clause")] or fails
            if hit:
                print(f"REPRODUCED {r['obligation']}: {hit[0]['clause']}: {hit[0]['detail'][:300]}")
                return 1
            print(f"not reproduced on this tree: {r['obligation']} holds for tier={r.get('tier')} seed={r.get('seed')}")
            return 0
        elif item.kind == 'P' and r["obligation"] == f"{prop}.{item.name}":
            out = item.run(r["obligation"], None, r.get("tier", "quick"), int(r.get("seed", 0)))
            if out.get("status") == "proved":
                print(f"not reproduced on this tree: every verification condition of {r['obligation']} is discharged")
                return 0
            print(f"REPRODUCED {r['obligation']}: status {out.get('status')}: {out.get('detail', '')[:600]}")
            return 1
    print("obligation not found / not replayable:", r["obligation"])
    print(json.dumps(r.get("verifier_output"), indent=1)[:3000])
    return 1


# ------------------------------------------------------------------------------------------------ main
def main(argv=None):
    ap = argparse.ArgumentParser()
    ap.add_argument("prop", nargs="?")
    ap.add_argument("--tier", default=os.environ.get("VERIF_TIER", "quick"))
    ap.add_argument("--seed", type=int, default=int(os.environ.get("VERIF_SEED", "0") or 0))
    ap.add_argument("--replay")
    ap.add_argument("--relock", action="store_true")
    ap.add_argument("--list", action="store_true")
    ap.add_argument("--jobs", type=int, default=int(os.environ.get("VF_JOBS", "16")))
    ap.add_argument("--only", default=None, help="substring filter on obligation names (debugging; no evidence)")
    a = ap.parse_args(argv)
    if a.replay:
        return replay(a.replay)
    prop = a.prop
    tier = a.tier if a.tier in ("quick", "thorough") else "quick"
    _RUN.update(tier=tier, seed=a.seed)
    t0 = time.time()
    try:
        items = _load(prop)
    except Exception:
        traceback.print_exc()
        print(f"CHECKER-ERROR property={prop}: cannot load contracts")
        return 3
    jobs = []
    for idx, item in enumerate(items):
        if item.kind == 'B':
            jobs.append((prop, idx, f"{prop}.{item.name}.bounded", None, tier, a.seed))
        else:
            for obname, payload in item.obligations(tier):
                jobs.append((prop, idx, obname, payload, tier, a.seed))
    if a.only:
        jobs = [j for j in jobs if a.only in j[2]]
    if a.list:
        for j in jobs:
            print(j[2])
        return 0
    if not jobs:
        print(f"CHECKER-ERROR property={prop}: zero obligations generated")
        return 3

    results = []
    ctx = mp.get_context("fork")
    with ctx.Pool(processes=min(a.jobs, len(jobs)), maxtasksperchild=8) as pool:
        asyncs = [(j, pool.apply_async(_job, (j,))) for j in jobs]
        budget = 1500 if tier == 'thorough' else 600
        for j, ar in asyncs:
            try:
                results.append(ar.get(timeout=max(5.0, budget - (time.time() - t0))))
            except mp.TimeoutError:
                results.append({"name": j[2], "engine": "?", "status": "undecided", "detail": "job timed out"})
            except Exception as e:
                results.append({"name": j[2], "engine": "?", "status": "error", "detail": repr(e)})
        pool.terminate()

    return _collate(prop, tier, a, items, results, t0)


def _collate(prop, tier, a, items, results, t0):
    known = _known()
    lock_path = os.path.join(ROOT, "obligations", f"{prop}.lock.json")
    ledger = json.load(open(lock_path)) if os.path.exists(lock_path) else {}
    led = ledger.get(tier, {})
    violations = []
    known_lines = []
    errors = []
    notes = []
    discharged = 0
    n_deductive = 0
    by_backend = {}
    solver_s = 0.0
    bounded_evals = bounded_nontriv = 0
    samples = []
    undecided = []
    functions = set()
    stubs = set()
    for out in results:
        name = out["name"]
        functions.update(out.get("functions") or [])
        eng = out.get("engine")
        st = out.get("status")
        b = out.get("bounded") or {}
        bounded_evals += b.get("evaluations", 0)
        bounded_nontriv += b.get("nontrivial", 0)
        for s_ in (b.get("samples") or [])[:1]:
            if len(samples) < 4:
                samples.append({"obligation": name, "input": s_})
        stubs.update((out.get("stats") or {}).get("stubs", []))
        solver_s += (out.get("stats") or {}).get("smt_seconds", 0.0) + (out.get("stats") or {}).get("solver_seconds", 0.0)
        if eng in ('R', 'P'):
            n_deductive += 1
            if st == 'proved':
                discharged += 1
                for cl, v in (out.get("clauses") or {}).items():
                    be = v[1].split()[0] if isinstance(v[1], str) and v[1] else "nf"
                    by_backend[be] = by_backend.get(be, 0) + 1
        if st == 'error':
            errors.append(f"{name}: {out.get('detail', '')[:400]}")
            continue
        # --- concrete failures found by the bounded harness (always decisive: a native failing input)
        bfails = b.get("failures") or []
        if bfails:
            f = bfails[0]
            kf = _match_known(prop, name, f.get("clause"), known)
            if kf:
                known_lines.append(f"KNOWN-FINDING: property={prop} {kf['text']}")
                if eng in ('R', 'P') and st != 'proved':
                    n_deductive -= 1
            else:
                path = _write_replay(prop, name, out, f.get("clause"), f.get("detail"), f.get("inputs"), "failing-input")
                violations.append((name, path, False))
            continue
        if st == 'refuted':
            # the verifier's own candidate input: replayed natively inside prove() (res.inputs is the seed at
            # which the contract fails) -- confirm by re-evaluating here
            kf = _match_known(prop, name, None, known)
            if kf:
                known_lines.append(f"KNOWN-FINDING: property={prop} {kf['text']}")
                n_deductive -= 1          # a listed finding is reported separately, not as an open obligation
                continue
            confirmed = _confirm_native(prop, items, name, out)
            if confirmed:
                path = _write_replay(prop, name, out, confirmed[0], confirmed[1], out.get("inputs"), "failing-input")
                violations.append((name, path, False))
            elif led.get(name, {}).get("status") == 'proved':
                path = _write_replay(prop, name, out, None, out.get("detail"), None, "obligation-failed")
                violations.append((name, path, True))
            else:
                undecided.append(name)
            continue
        if st in ('undecided',):
            undecided.append(name)
            if led.get(name, {}).get("status") == 'proved':
                notes.append(f"obligation {name} was proved on the locked tree and is now undecided "
                             f"({out.get('detail', '')[:200]}); decided by the bounded stand-in only")
    missing = [n for n in led if n not in {o["name"] for o in results}] if not a.only else []
    if a.relock:
        os.makedirs(os.path.dirname(lock_path), exist_ok=True)
        ledger[tier] = {o["name"]: {"engine": o.get("engine"), "status": o.get("status")} for o in results}
        json.dump(ledger, open(lock_path, "w"), indent=1, sort_keys=True)
        print(f"relocked {len(results)} obligations for {prop}/{tier}")
    wall = time.time() - t0
    for line in sorted(set(known_lines)):
        print(line)
    for n_ in notes:
        print("NOTE:", n_)
    for u in undecided:
        d = next((o.get("detail", "") for o in results if o["name"] == u), "")
        print(f"UNDECIDED obligation={u} :: {d[:300]}")
    if not a.only:
        _write_evidence(prop, tier, a.seed, results, n_deductive, discharged, by_backend, solver_s, bounded_evals,
                        bounded_nontriv, samples, undecided, sorted(functions), sorted(stubs), len(violations),
                        wall, known_lines)
    if errors or missing:
        for e in errors:
            print("CHECKER-ERROR", e)
        if missing:
            print(f"CHECKER-ERROR property={prop}: {len(missing)} obligations of the ledger were not generated: {missing[:5]}")
        if not violations:
            return 3
    for name, path, nofail in violations:
        print(f"VIOLATION property={prop} replay={path}" + (" no-failing-input-found" if nofail else ""))
    print(f"{prop} [{tier}] obligations={n_deductive} discharged={discharged} undecided={len(undecided)} "
          f"bounded_evaluations={bounded_evals} violations={len(violations)} wall={wall:.1f}s")
    return 1 if violations else 0


def _confirm_native(prop, items, name, out):
    from . import rrun
    inputs = out.get("inputs")
    if not inputs:
        return None
    for item in items:
        if item.kind != 'R':
            continue
        for obname, inst in item.obligations('thorough'):
            if obname == name:
                seeds = {k: rrun._fromlist(v) for k, v in inputs.items()}
                try:
                    ctx = rrun.run_numeric(item.fn, inst, seeds=seeds)
                except rrun.Reject:
                    return None
                except Exception as e:
                    return ("exception", f"{type(e).__name__}: {e}")
                if ctx.failures:
                    return ctx.failures[0]
                return None
    return None


def _write_evidence(prop, tier, seed, results, n_ded, discharged, by_backend, solver_s, b_evals, b_nontriv, samples,
                    undecided, functions, stubs, nviol, wall, known_lines):
    meta_path = os.path.join(ROOT, "contracts", "meta.json")
    meta = json.load(open(meta_path)).get(prop, {}) if os.path.exists(meta_path) else {}
    all_proved = n_ded > 0 and discharged == n_ded
    level = meta.get("level", "proof")
    if level == "proof" and not all_proved:
        level = "other"
    ob_list = [{"name": o["name"], "engine": o.get("engine"), "status": o.get("status"),
                "wall_s": o.get("wall_s"), "stats": o.get("stats"),
                "clauses": {k: v[0] for k, v in (o.get("clauses") or {}).items()} if o.get("engine") == 'R' else o.get("clauses"),
                "bounded_evaluations": (o.get("bounded") or {}).get("evaluations")}
               for o in results]
    trusted = list(meta.get("trusted_base", [])) + [f"contract stub: {s}" for s in stubs]
    cov = {
        "obligations": n_ded, "discharged": discharged,
        "checker_cmd": f"./check {prop} --tier {tier}",
        "trusted_base": trusted,
        "discharged_by_backend": by_backend, "solver_seconds": round(solver_s, 3),
        "functions_under_contract": functions,
        "undecided_obligations": undecided,
        "obligation_list": ob_list,
        "evaluations": max(b_evals, 1), "distinct_nontrivial": max(b_nontriv, 0),
        "rule": meta.get("rule", "bounded stand-in: each Engine-R contract is also evaluated natively (float64) on "
                                 "seeded random inputs satisfying its precondition; a case is non-trivial when at "
                                 "least one ensures-clause was evaluated; bounded checks (engine B) describe their own "
                                 "enumeration"),
        "samples": samples or [{"note": "no concrete sample recorded"}],
        "explanation": meta.get("explanation", "") + (" Deductive obligations not all discharged in this run: level "
                                                      "reported as 'other'." if level == 'other' and meta.get("level", "proof") == "proof" else ""),
        "bounded": [{"name": o["name"], **{k: v for k, v in (o.get("bounded") or {}).items() if k != 'failures'}}
                    for o in results if o.get("engine") == 'B'],
        "known_findings_reported": sorted(set(known_lines)),
        "tree": _git_desc(),
    }
    ev = {"property_id": prop, "tier": tier, "seed": seed, "level": level, "coverage": cov,
          "assumptions": meta.get("assumptions", []), "wall_s": round(wall, 2), "violations": nviol}
    d = os.path.join(os.environ.get("VF_OUT", ROOT), "evidence")      # VF_OUT: scratch output directory for runs against a modified copy (tools/mutants.sh)
    os.makedirs(d, exist_ok=True)
    tmp = os.path.join(d, f".{prop}.json.tmp")
    json.dump(ev, open(tmp, "w"), indent=1, default=str)
    try:
        import jsonschema
        schema = json.load(open("/root/.vp/EVIDENCE.schema.json")) if os.path.exists("/root/.vp/EVIDENCE.schema.json") \
            else json.load(open(os.path.join(ROOT, "tools", "EVIDENCE.schema.json")))
        jsonschema.validate(ev, schema)
    except ImportError:
        pass
    os.replace(tmp, os.path.join(d, f"{prop}.json"))


if __name__ == "__main__":
    sys.exit(main())
