"""Engine R scalar: exact elements of  Q(x_1..x_m)[radicals, I, trig/exp generators]  with a float shadow.

The real functions of /repo are executed by CPython on NumPy ``object`` arrays whose elements are `Alg`
objects.  NumPy does all shape / broadcast / indexing work; only the scalar field is replaced.

An `Alg` is a quotient  num/den  of sparse polynomials over QQ (sympy PolyElement) in the generators of a
`World`; generators are allocated lazily (the ring grows, elements are upgraded on demand).  Generators with
a quadratic relation  g^2 = R  (square roots, the imaginary unit, sin over cos) are reduced eagerly after
every multiplication, so that an equality  a == b  is decided by the *normal form*: numerator of a-b reduced
modulo the relations is the zero polynomial.  That test is sound always and complete when the tower of
relations is a field; a non-zero normal form is therefore only a *candidate* refutation (the caller confirms
with the float shadow / a native replay).

Branching (comparisons, abs, float()) is decided by the float shadow value and the corresponding sign
condition is recorded in ``World.path`` (dynamic symbolic execution).  Division, sqrt, arccosh ... record
*domain obligations* in ``World.domain``.
"""
import math
import cmath
import traceback
from fractions import Fraction

import os
import numpy as np
from sympy.polys.rings import PolyRing
from sympy.polys.domains import QQ


class BudgetExceeded(BaseException):
    """raised by the driver's SIGALRM handler: the per-obligation time budget is used up.  A BaseException so that no
    `except Exception` (in /repo, in a contract, in the engine) can turn the checker's own timeout into a verdict"""


class Undecided(Exception):
    """The engine cannot decide (unsupported operation, degenerate seed, budget): never a violation."""


TINY = 1e-9


def _to_q(v):
    """python number -> QQ element (floats are converted exactly: machine constants are rationals)."""
    if isinstance(v, bool):
        return QQ(int(v))
    if isinstance(v, (int, np.integer)):
        return QQ(int(v))
    if isinstance(v, Fraction):
        return QQ(v.numerator, v.denominator)
    if isinstance(v, (float, np.floating)):
        f = float(v)
        if f != f or f in (float('inf'), float('-inf')):
            raise Undecided("non-finite constant")
        fr = Fraction(f)
        return QQ(fr.numerator, fr.denominator)
    raise TypeError(type(v))


class Cond:
    """atomic sign condition  poly(num*den) REL 0  on an Alg (REL in '<','<=','>','>=','==','!=')."""
    __slots__ = ("alg", "rel", "where")

    def __init__(self, alg, rel, where=None):
        # conditions are stated on the fully cancelled fraction: an uncancelled common factor g of numerator and
        # denominator would turn  N != 0  into the stronger (possibly unprovable)  g n != 0
        if isinstance(alg, Alg) and alg.dfac not in ((), None) and not alg.den.is_ground:
            try:
                alg = alg.canon()
            except Undecided:
                pass
        self.alg = alg
        self.rel = rel
        self.where = where

    def negated(self):
        neg = {'<': '>=', '<=': '>', '>': '<=', '>=': '<', '==': '!=', '!=': '=='}[self.rel]
        return Cond(self.alg, neg, self.where)

    def holds_shadow(self, tol=0.0):
        v = self.alg.val if isinstance(self.alg, Alg) else self.alg
        if isinstance(v, complex):
            if self.rel == '==':
                return abs(v) <= tol
            if self.rel == '!=':
                return abs(v) > tol
            v = v.real
        return {'<': v < -tol, '<=': v <= tol, '>': v > tol, '>=': v >= -tol,
                '==': abs(v) <= tol, '!=': abs(v) > tol}[self.rel]

    def __repr__(self):
        return f"Cond({self.alg!r} {self.rel} 0)"


def _caller_site():
    """file:line of the innermost frame inside /repo (for whitelisting concretisations / reports)."""
    for fr in reversed(traceback.extract_stack()[:-2]):
        if '/geometry_tools/' in fr.filename:
            return f"{fr.filename.split('/geometry_tools/')[-1]}:{fr.lineno}:{fr.name}"
    return "?"


class World:
    """One symbolic run: generators, relations, path conditions, domain obligations."""

    def __init__(self):
        self.names = []
        self.kind = []          # 'sym' | 'rad' | 'I' | 'cos' | 'sin' | 'exp' | 'fun'
        self.shadow = []        # float shadow of each generator
        self.relpoly = {}       # gen index -> PolyElement R with g^2 = R   (in some ring version)
        self.info = {}          # gen index -> extra info (radicand Alg, angle key, ...)
        self.ring = None
        self.path = []          # list[Cond]  (in execution order)
        self.domain = []        # list[(Cond, description)] obligations that must hold for ALL inputs
        self.assumptions = []   # list[Cond]: the precondition
        self.rad_cache = {}
        self.fun_cache = {}
        self.atoms = {}         # key -> monic polynomial used as an atomic factor of denominators
        self.den_cache = {}
        self.angle_base = {}    # sym gen index -> (cos gen, sin gen)
        self.exp_base = {}
        self.concretised = []   # (site, Alg)
        self.notes = []
        self.ngen_limit = 60
        self.events = []        # ordered: ('assume'|'path'|'domain', Cond, description)

    # ---------------------------------------------------------------- generators
    def _grow(self, name, kind, shadow):
        if len(self.names) >= self.ngen_limit:
            raise Undecided("generator budget exceeded")
        self.names.append(name)
        self.kind.append(kind)
        self.shadow.append(shadow)
        self.ring = PolyRing(self.names, QQ)
        return len(self.names) - 1

    def upgrade(self, p):
        r = self.ring
        if p.ring is r:
            return p
        pad = (0,) * (r.ngens - p.ring.ngens)
        return r.from_dict({m + pad: c for m, c in p.items()})

    def gen(self, i):
        return self.ring.gens[i]

    # ---------------------------------------------------------------- factored denominators
    def atom(self, p):
        """register the (monic) polynomial p as an atomic denominator factor; returns its key"""
        p = self.upgrade(p)
        lc = p.LC
        if lc != 1:
            p = p.quo_ground(lc)
        key = _poly_key(p)
        if key not in self.atoms:
            self.atoms[key] = p
        return key

    def split_atoms(self, p):
        """p = c * prod atom^e with c in QQ: trial division by the atoms already known, the cofactor becomes a new atom"""
        fac = {}
        if p.is_ground:
            return p.LC, fac
        c = p.LC
        p = p.quo_ground(c)
        for key in list(self.atoms):
            f = self.upgrade(self.atoms[key])
            while not p.is_ground and _may_divide(p, f):
                q = _exact_div(p, f)
                if q is None:
                    break
                p = q
                fac[key] = fac.get(key, 0) + 1
            if p.is_ground:
                break
        if not p.is_ground:
            k = self.atom(p)
            fac[k] = fac.get(k, 0) + 1
        return c, fac

    def den_poly(self, left):
        """reduce(prod atom^e) for a sorted tuple of (key, e); cached"""
        if not left:
            return self.ring.one
        hit = self.den_cache.get(left)
        if hit is not None:
            return self.upgrade(hit)
        out = self.ring.one
        for key, e in left:
            f = self.upgrade(self.atoms[key])
            for _ in range(e):
                out = out * f
        out = self.reduce(out)
        self.den_cache[left] = out
        return out

    def sym(self, name, shadow):
        i = self._grow(name, 'sym', float(shadow))
        return Alg(self, self.ring.gens[i], self.ring.one, float(shadow))

    def const(self, v):
        if isinstance(v, Alg):
            return v
        if isinstance(v, (complex, np.complexfloating)):
            v = complex(v)
            re = self.const(v.real)
            if v.imag == 0:
                return re
            return re + self.I() * self.const(v.imag)
        if self.ring is None:
            self._grow('_one', 'sym', 1.0)
        q = _to_q(v)
        return Alg(self, self.ring.ground_new(q), self.ring.one, float(v))

    def I(self):
        for i, k in enumerate(self.kind):
            if k == 'I':
                return Alg(self, self.ring.gens[i], self.ring.one, 1j)
        i = self._grow('I', 'I', 1j)
        self.relpoly[i] = -self.ring.one
        return Alg(self, self.ring.gens[i], self.ring.one, 1j)

    # ---------------------------------------------------------------- reduction modulo g^2 = R
    def reduce(self, p):
        if not self.relpoly or not p:
            return p
        ring = self.ring
        for gi in sorted(self.relpoly, reverse=True):
            if gi >= p.ring.ngens:
                continue
            mx = 0
            for m in p.keys():
                if m[gi] > mx:
                    mx = m[gi]
            if mx < 2:
                continue
            R = self.upgrade(self.relpoly[gi])
            acc = {}
            for m, c in p.items():
                e = m[gi]
                j = e >> 1
                m0 = m[:gi] + (e & 1,) + m[gi + 1:]
                d = acc.setdefault(j, {})
                d[m0] = d.get(m0, 0) + c
            out = ring.zero
            Rj = ring.one
            for j in range(max(acc) + 1):
                if j in acc:
                    out = out + ring.from_dict(acc[j]) * Rj
                Rj = Rj * R
            p = out
        return p

    # ---------------------------------------------------------------- recording
    def record_path(self, alg, rel, what=None):
        c = Cond(alg, rel, _caller_site())
        self.path.append(c)
        self.events.append(('path', c, what or c.where))

    def require(self, alg, rel, what):
        """domain obligation: must hold for every input satisfying the precondition (proved later by SMT)."""
        c = Cond(alg, rel, _caller_site())
        if not c.holds_shadow(1e-12 if rel in ('>=', '<=') else 0.0):
            raise DomainViolation(f"{what}: {rel} 0 fails at the seed (shadow {alg.val!r}) at {c.where}")
        self.domain.append((c, what))
        self.events.append(('domain', c, what))

    def assume(self, cond, what='precondition'):
        self.assumptions.append(cond)
        self.events.append(('assume', cond, what))


def eval_generators(w, symvals):
    """shadow vector of ALL generators at another input point (symvals: gen index -> value for 'sym' generators);
    dependent generators are recomputed in creation (= dependency) order.  Returns None if outside a domain."""
    sh = list(w.shadow)
    for i, k in enumerate(w.kind):
        if k == 'sym':
            if i in symvals:
                sh[i] = float(symvals[i])
    angle_of = {ci: gi for gi, (ci, si) in w.angle_base.items()}
    angle_of_s = {si: gi for gi, (ci, si) in w.angle_base.items()}
    exp_of = {ei: gi for gi, ei in w.exp_base.items()}
    saved = w.shadow
    try:
        w.shadow = sh
        for i, k in enumerate(w.kind):
            if k == 'rad':
                v = _eval_poly(w, w.relpoly[i])
                if isinstance(v, complex) or v != v or v < 0:
                    sh[i] = float('nan')      # not defined on this side; conditions that mention it evaluate to nan
                else:
                    sh[i] = math.sqrt(v)
            elif k == 'cos' and i in angle_of:
                sh[i] = math.cos(sh[angle_of[i]])
            elif k == 'sin' and i in angle_of_s:
                sh[i] = math.sin(sh[angle_of_s[i]])
            elif k == 'exp' and i in exp_of:
                sh[i] = math.exp(sh[exp_of[i]])
            elif k == 'fun':
                name, arg = w.info[i]
                if name == 'arctan2':
                    try:
                        yy = _eval_poly(w, arg[0].num) / _eval_poly(w, arg[0].den)
                        xx = _eval_poly(w, arg[1].num) / _eval_poly(w, arg[1].den)
                        sh[i] = math.atan2(yy, xx)
                    except Exception:
                        sh[i] = float('nan')
                    continue
                try:
                    a = _eval_poly(w, arg.num) / _eval_poly(w, arg.den)
                    sh[i] = {'arccosh': math.acosh, 'arccos': math.acos, 'arcsin': math.asin,
                             'arcsinh': math.asinh, 'arctan': math.atan}[name](a)
                except Exception:
                    sh[i] = float('nan')
            elif k in ('cos', 'sin'):
                sh[i] = float('nan')      # generic function symbols: not re-evaluated
        return sh
    finally:
        w.shadow = saved


def cond_value(w, c, sh):
    """numeric value of the Alg of a condition at generator values sh"""
    saved = w.shadow
    try:
        w.shadow = sh
        a = c.alg
        n = _eval_poly(w, a.num)
        d = _eval_poly(w, a.den)
        return n / d if d != 0 else float('nan')
    finally:
        w.shadow = saved


class DomainViolation(Exception):
    """A domain obligation (division by zero, sqrt of a negative number, ...) fails at the concrete seed."""


FACTORED = os.environ.get("VF_FACTORED_DEN", "1") != "0"
GCD_LIMIT = int(os.environ.get("VF_GCD_LIMIT", "400"))


_SUBST = [3, 7, 11, 13, 17, 19, 23, 29, 31, 37, 41, 43, 47, 53, 59, 61, 67, 71, 73, 79, 83, 89, 97, 101, 103, 107, 109, 113]


_P = (1 << 61) - 1


def _univ_image(p, k):
    """image of p in GF(P)[x_k] under x_i -> fixed integers (i != k), dense list (low degree first); None if a
    coefficient's denominator vanishes modulo P"""
    out = {}
    pw = {}
    for m, c in p.items():
        b = int(c.denominator) % _P
        if b == 0:
            return None
        v = int(c.numerator) % _P
        if b != 1:
            v = v * pow(b, _P - 2, _P) % _P
        for i, e in enumerate(m):
            if e and i != k:
                t = pw.get((i, e))
                if t is None:
                    t = pw[(i, e)] = pow(_SUBST[i % len(_SUBST)] + 131 * (i // len(_SUBST)), e, _P)
                v = v * t % _P
        d = m[k]
        out[d] = (out.get(d, 0) + v) % _P
    if not out:
        return []
    lst = [0] * (max(out) + 1)
    for d, v in out.items():
        lst[d] = v
    while lst and lst[-1] == 0:
        lst.pop()
    return lst


def _may_divide(num, f):
    """cheap necessary condition for f | num (same ring): degree bounds, then divisibility of univariate images modulo a
    prime under an integer substitution (if f | num then the image of f divides the image of num, unless it degenerates)"""
    if not num:
        return True
    df = f.degrees()
    dn = num.degrees()
    k = -1
    for i, (a, b) in enumerate(zip(df, dn)):
        if a > b:
            return False
        if a and (k < 0 or a > df[k]):
            k = i
    if k < 0:
        return True
    fi = _univ_image(f, k)
    if fi is None or len(fi) != df[k] + 1:
        return True           # degenerate image: no information
    ni = _univ_image(num, k)
    if ni is None:
        return True
    inv = pow(fi[-1], _P - 2, _P)
    while len(ni) >= len(fi):
        c = ni[-1] * inv % _P
        if c:
            off = len(ni) - len(fi)
            for j, a in enumerate(fi):
                ni[off + j] = (ni[off + j] - c * a) % _P
        ni.pop()
    return not any(ni)


def _exact_div(num, f):
    """quotient q with num == q * f (same ring, lex order), or None when f does not divide num.
    Sparse division with a heap of candidate leading monomials (sympy's PolyElement.div rescans all terms per step)."""
    import heapq
    ring = num.ring
    if not num:
        return ring.zero
    fitems = list(f.items())
    lm = max(m for m, _ in fitems)
    lc = f[lm]
    rest = [(m, c) for m, c in fitems if m != lm]
    nv = len(lm)
    p = dict(num.items())
    heap = [tuple(-e for e in m) for m in p]
    heapq.heapify(heap)
    q = {}
    while heap:
        neg = heapq.heappop(heap)
        m = tuple(-e for e in neg)
        c = p.get(m)
        if not c:
            p.pop(m, None)
            continue
        qm = []
        for a, b in zip(m, lm):
            if a < b:
                return None
            qm.append(a - b)
        qm = tuple(qm)
        qc = c / lc
        q[qm] = qc
        del p[m]
        for rm, rc in rest:
            t = tuple(a + b for a, b in zip(qm, rm))
            old_ = p.get(t)
            if old_ is None:
                p[t] = -qc * rc
                heapq.heappush(heap, tuple(-e for e in t))
            else:
                v = old_ - qc * rc
                if v:
                    p[t] = v
                else:
                    del p[t]          # stale heap entry is skipped when popped
    return ring.from_dict(q)


def _is_number(x):
    return isinstance(x, (int, float, complex, Fraction, np.integer, np.floating, np.complexfloating, bool, np.bool_))


class Alg:
    __slots__ = ("w", "num", "den", "val", "_nz", "dfac")

    def __init__(self, w, num, den, val, normalise=False, dfac=None):
        self.w = w
        self.num = num
        self.den = den
        self.val = val
        self._nz = None
        # factored denominator: tuple of (key, exponent) into w.atoms with  den == reduce(prod atom^exp)  ;
        # None = not tracked (den is treated as one atom when needed); () = ground denominator
        self.dfac = dfac

    # NumPy: Alg OP ndarray  must defer to ndarray.__rOP__ ; returning NotImplemented below does that.
    # (we do NOT set __array_priority__ / __array_ufunc__; deleting the class attribute keeps ndarray in charge)

    # ------------------------------------------------------------ helpers
    @staticmethod
    def _mk(w, num, den, val, fac=None):
        """normalise: upgrade, reduce modulo relations, cancel common factors, sign-normalise the denominator.
        With `fac` (a dict atom-key -> exponent describing the denominator) the cancellation is by trial division by the
        known atoms (cheap) instead of a multivariate gcd; the fraction may then stay unreduced, which is harmless:
        equality is decided by `numerator reduces to zero`, never by comparing representations."""
        num = w.reduce(w.upgrade(num))
        if fac is not None and FACTORED:
            if not num:
                return Alg(w, w.ring.zero, w.ring.one, val, dfac=())
            left = []
            for key, e in sorted(fac.items()):
                f = w.upgrade(w.atoms[key])
                while e > 0 and _may_divide(num, f):
                    q = _exact_div(num, f)
                    if q is None:
                        break
                    num = q
                    e -= 1
                if e:
                    left.append((key, e))
            left = tuple(left)
            den = w.den_poly(left)
            if left and len(num) + len(den) <= GCD_LIMIT:
                # small operands: a full multivariate gcd is cheap and keeps the fraction canonical (trial division misses
                # common factors that only appear after reduction modulo the radical relations)
                try:
                    n2, d2 = num.cancel(den)
                except Exception as e:  # pragma: no cover
                    raise Undecided(f"gcd failed: {e}")
                if len(d2) < len(den) or d2.degrees() != den.degrees():
                    if d2.is_ground:
                        return Alg(w, n2.quo_ground(d2.LC), w.ring.one, val, dfac=())
                    c, fac = w.split_atoms(d2)
                    left = tuple(sorted(fac.items()))
                    return Alg(w, n2.quo_ground(c), w.den_poly(left), val, dfac=left)
            return Alg(w, num, den, val, dfac=left)
        den = w.reduce(w.upgrade(den))
        if not num:
            return Alg(w, w.ring.zero, w.ring.one, val, dfac=())
        if den.is_ground:
            c = den.LC if den else None
            if not den:
                raise Undecided("symbolic denominator reduced to zero")
            if c != 1:
                num = num.quo_ground(c) if hasattr(num, 'quo_ground') else num * (1 / c)
            return Alg(w, num, w.ring.one, val, dfac=())
        try:
            num, den = num.cancel(den)
        except Exception as e:  # pragma: no cover
            raise Undecided(f"gcd failed: {e}")
        # cancel() clears denominators; make den's leading coefficient 1 to keep a canonical form
        lc = den.LC
        if lc != 1:
            num = num.quo_ground(lc)
            den = den.quo_ground(lc)
        if den.is_ground:
            return Alg(w, num, w.ring.one, val, dfac=())
        return Alg(w, num, den, val)

    def _fac(self):
        """the denominator as a dict atom-key -> exponent (registering it as a new atom when it was not tracked)"""
        if self.dfac is None:
            if self.den.is_ground:
                self.dfac = ()
            else:
                self.dfac = ((self.w.atom(self.den), 1),)
        return dict(self.dfac)

    def canon(self):
        """fully cancelled representative (multivariate gcd): used where a canonical form is needed as a cache key"""
        if self.den.is_ground:
            return self
        return Alg._mk(self.w, self.num, self.den, self.val)

    def _coerce(self, other):
        if isinstance(other, Alg):
            return other
        if _is_number(other):
            return self.w.const(other)
        return None

    def is_zero_nf(self):
        """True iff the normal form is the zero polynomial (sound proof of ==0)."""
        return not self.num

    def is_const(self):
        return self.num.is_ground and self.den.is_ground

    def const_value(self):
        return Fraction(int(self.num.LC.numerator), int(self.num.LC.denominator)) if self.num else Fraction(0)

    # ------------------------------------------------------------ arithmetic
    def __add__(self, o):
        if isinstance(o, np.ndarray):
            return NotImplemented
        o = self._coerce(o)
        if o is None:
            return NotImplemented
        w = self.w
        if FACTORED:
            fa, fb = self._fac(), o._fac()
            if fa == fb:
                return Alg._mk(w, w.upgrade(self.num) + w.upgrade(o.num), None, self.val + o.val, fac=fa)
            lcm = dict(fa)
            for k, e in fb.items():
                if lcm.get(k, 0) < e:
                    lcm[k] = e
            ma = w.den_poly(tuple(sorted((k, e - fa.get(k, 0)) for k, e in lcm.items() if e - fa.get(k, 0))))
            mb = w.den_poly(tuple(sorted((k, e - fb.get(k, 0)) for k, e in lcm.items() if e - fb.get(k, 0))))
            return Alg._mk(w, w.upgrade(self.num) * ma + w.upgrade(o.num) * mb, None, self.val + o.val, fac=lcm)
        a_n, a_d, b_n, b_d = w.upgrade(self.num), w.upgrade(self.den), w.upgrade(o.num), w.upgrade(o.den)
        if a_d == b_d:
            return Alg._mk(w, a_n + b_n, a_d, self.val + o.val)
        return Alg._mk(w, a_n * b_d + b_n * a_d, a_d * b_d, self.val + o.val)

    __radd__ = __add__

    def __neg__(self):
        return Alg(self.w, -self.num, self.den, -self.val, dfac=self.dfac)

    def __pos__(self):
        return self

    def __sub__(self, o):
        if isinstance(o, np.ndarray):
            return NotImplemented
        o = self._coerce(o)
        if o is None:
            return NotImplemented
        return self + (-o)

    def __rsub__(self, o):
        o = self._coerce(o)
        if o is None:
            return NotImplemented
        return o + (-self)

    def __mul__(self, o):
        if isinstance(o, np.ndarray):
            return NotImplemented
        o = self._coerce(o)
        if o is None:
            return NotImplemented
        w = self.w
        if FACTORED:
            fac = self._fac()
            for k, e in o._fac().items():
                fac[k] = fac.get(k, 0) + e
            return Alg._mk(w, w.upgrade(self.num) * w.upgrade(o.num), None, self.val * o.val, fac=fac)
        return Alg._mk(w, w.upgrade(self.num) * w.upgrade(o.num), w.upgrade(self.den) * w.upgrade(o.den),
                       self.val * o.val)

    __rmul__ = __mul__

    def _inv(self, what="division"):
        w = self.w
        if self.is_zero_nf():
            raise DomainViolation(f"{what} by an expression that is identically zero at {_caller_site()}")
        if not self.is_const():
            w.require(self._modsq_if_complex(), '!=', f"{what}: divisor non-zero")
        elif abs(self.val) == 0:
            raise DomainViolation(f"{what} by zero at {_caller_site()}")
        if FACTORED:
            self._fac()
            c, fac = w.split_atoms(w.upgrade(self.num))
            return Alg._mk(w, w.upgrade(self.den) * (1 / c), None, 1 / self.val, fac=fac)
        return Alg._mk(w, self.den, self.num, 1 / self.val)

    def __truediv__(self, o):
        if isinstance(o, np.ndarray):
            return NotImplemented
        o = self._coerce(o)
        if o is None:
            return NotImplemented
        return self * o._inv()

    def __rtruediv__(self, o):
        o = self._coerce(o)
        if o is None:
            return NotImplemented
        return o * self._inv()

    def __pow__(self, e):
        if isinstance(e, Alg):
            if e.is_const() and e.const_value().denominator == 1:
                e = int(e.const_value())
            else:
                raise Undecided("symbolic exponent")
        if isinstance(e, (float, np.floating)) and float(e) == int(e):
            e = int(e)
        if isinstance(e, (float, np.floating)) and float(e) == 0.5:
            return self.sqrt()
        if not isinstance(e, (int, np.integer)):
            raise Undecided(f"power with exponent {e!r}")
        e = int(e)
        if e < 0:
            return (self._inv("negative power")) ** (-e)
        out = self.w.const(1)
        base = self
        while e:
            if e & 1:
                out = out * base
            e >>= 1
            if e:
                base = base * base
        return out

    def __rpow__(self, base):
        raise Undecided("constant ** symbolic")

    # ------------------------------------------------------------ comparisons (decided by the shadow)
    def _sign_decide(self, rel, o=0):
        d = self - o if not (_is_number(o) and o == 0) else self
        if not isinstance(d, Alg):
            d = self.w.const(d)
        if d.is_zero_nf():
            return rel in ('<=', '>=', '==')
        if d.is_const():
            v = d.const_value()
            return {'<': v < 0, '<=': v <= 0, '>': v > 0, '>=': v >= 0, '==': v == 0, '!=': v != 0}[rel]
        v = d.val
        if isinstance(v, complex):
            if rel not in ('==', '!='):
                if abs(v.imag) > 1e-12 * max(1.0, abs(v)):
                    raise Undecided("ordering comparison of a complex value")
                v = v.real
        scale = max(1.0, abs(self.val), abs(o.val) if isinstance(o, Alg) else abs(o))
        if abs(v) <= TINY * scale:
            raise Undecided(f"degenerate seed: comparison of a value with |shadow|={abs(v):.2e} that is not "
                            f"identically zero at {_caller_site()}")
        # record exactly the semantic branch condition (the tested relation or its negation), so that the
        # union of explored paths can cover the whole precondition
        if rel in ('==', '!='):
            self.w.record_path(d._modsq_if_complex(), '!=')
            return rel == '!='
        truth = {'<': v < 0, '<=': v <= 0, '>': v > 0, '>=': v >= 0}[rel]
        neg = {'<': '>=', '<=': '>', '>': '<=', '>=': '<'}[rel]
        self.w.record_path(d, rel if truth else neg)
        return truth

    def __lt__(self, o):
        if isinstance(o, np.ndarray):
            return NotImplemented
        return self._sign_decide('<', o)

    def __le__(self, o):
        if isinstance(o, np.ndarray):
            return NotImplemented
        return self._sign_decide('<=', o)

    def __gt__(self, o):
        if isinstance(o, np.ndarray):
            return NotImplemented
        return self._sign_decide('>', o)

    def __ge__(self, o):
        if isinstance(o, np.ndarray):
            return NotImplemented
        return self._sign_decide('>=', o)

    def __eq__(self, o):
        if isinstance(o, np.ndarray):
            return NotImplemented
        if o is None or isinstance(o, str):
            return False
        if not (isinstance(o, Alg) or _is_number(o)):
            return NotImplemented
        return self._sign_decide('==', o)

    def __ne__(self, o):
        if isinstance(o, np.ndarray):
            return NotImplemented
        if o is None or isinstance(o, str):
            return True
        if not (isinstance(o, Alg) or _is_number(o)):
            return NotImplemented
        return self._sign_decide('!=', o)

    def __hash__(self):
        return id(self)

    def __bool__(self):
        return self._sign_decide('!=', 0)

    def __abs__(self):
        v = self.val
        if isinstance(v, complex) or any(k == 'I' for k in self.w.kind) and self._has_I():
            re, im = self.re_im()
            return (re * re + im * im).sqrt()
        if self.is_zero_nf():
            return self
        if self.is_const():
            return self if self.const_value() >= 0 else -self
        if abs(v) <= TINY * max(1.0, abs(v)):
            raise Undecided(f"degenerate seed in abs() at {_caller_site()}")
        # |x| = x on x >= 0 and -x on x <= 0: record the closed condition
        if v > 0:
            self.w.record_path(self, '>=')
            return self
        self.w.record_path(self, '<=')
        return -self

    # ------------------------------------------------------------ concretisation
    def __float__(self):
        site = _caller_site()
        self.w.concretised.append((site, self))
        v = self.val
        if isinstance(v, complex):
            if abs(v.imag) > 1e-12:
                raise Undecided("float() of a complex value")
            v = v.real
        # record the sign class; mutual order of values concretised in one run is recorded by the runner
        if self.is_zero_nf():
            return 0.0
        if not self.is_const():
            if abs(v) <= TINY * max(1.0, abs(v)):
                raise Undecided(f"degenerate seed in float() at {site}")
            self.w.record_path(self, '<' if v < 0 else '>')
        return float(v)

    def __complex__(self):
        raise Undecided(f"complex() concretisation at {_caller_site()}")

    def __int__(self):
        if self.is_const() and self.const_value().denominator == 1:
            return int(self.const_value())
        raise Undecided(f"int() concretisation at {_caller_site()}")

    __index__ = None

    # ------------------------------------------------------------ complex structure
    def _has_I(self):
        w = self.w
        for i, k in enumerate(w.kind):
            if k == 'I':
                for p in (self.num, self.den):
                    if i < p.ring.ngens and any(m[i] for m in p.keys()):
                        return True
        return False

    def _modsq_if_complex(self):
        """a real Alg that vanishes exactly when self does (|z|^2 for complex values)"""
        if not self._has_I():
            return self
        re, im = self.re_im()
        return re * re + im * im

    def conjugate(self):
        w = self.w
        idx = [i for i, k in enumerate(w.kind) if k == 'I']
        if not idx or not self._has_I():
            return self
        i = idx[0]

        def conj(p):
            p = w.upgrade(p)
            return w.ring.from_dict({m: (-c if m[i] & 1 else c) for m, c in p.items()})
        v = self.val.conjugate() if isinstance(self.val, complex) else self.val
        return Alg._mk(w, conj(self.num), conj(self.den), v)

    conj = conjugate

    def re_im(self):
        c = self.conjugate()
        half = self.w.const(Fraction(1, 2))
        re = (self + c) * half
        if c is self:
            return self, self.w.const(0)
        im = (self - c) * half * (-self.w.I())
        # re, im are real: drop float noise in the shadow
        re.val = re.val.real if isinstance(re.val, complex) else re.val
        im.val = im.val.real if isinstance(im.val, complex) else im.val
        return re, im

    @property
    def real(self):
        return self.re_im()[0]

    @property
    def imag(self):
        return self.re_im()[1]

    # ------------------------------------------------------------ elementary functions (NumPy object loops
    # call the method of the same name)
    def sqrt(self):
        w = self.w
        if self.is_zero_nf():
            return self
        if self._has_I() or isinstance(self.val, complex) and abs(self.val.imag) > 0:
            raise Undecided("sqrt of a complex value")
        val = self.val.real if isinstance(self.val, complex) else self.val
        if self.is_const():
            q = self.const_value()
            if q < 0:
                raise DomainViolation(f"sqrt of the negative constant {q}")
            rn, rd = math.isqrt(q.numerator), math.isqrt(q.denominator)
            if rn * rn == q.numerator and rd * rd == q.denominator:
                return w.const(Fraction(rn, rd))
        else:
            w.require(self, '>=', "sqrt: radicand non-negative")
        # sqrt(N/D) = sqrt(N*D)/|D| ; pull square factors out of N*D
        N, D = w.upgrade(self.num), w.upgrade(self.den)
        outside = w.const(1)
        if not D.is_ground and FACTORED:
            # sqrt(N / prod f^e) = sqrt(N * prod_{e odd} f) / prod |f|^ceil(e/2)
            rad = N
            for key, e in sorted(self._fac().items()):
                f = w.upgrade(w.atoms[key])
                fa = Alg(w, f, w.ring.one, _eval_poly(w, f), dfac=())
                outside = outside / abs(fa) ** ((e + 1) // 2)
                if e & 1:
                    rad = rad * f
            rad = w.reduce(rad)
        elif not D.is_ground:
            Dalg = Alg(w, D, w.ring.one, _eval_poly(w, D))
            outside = outside / abs(Dalg)
            rad = w.reduce(N * D)
        else:
            rad = N
        coeff, factors = rad.sqf_list()
        # split the square-free parts into irreducible factors (canonical radicals: sqrt(f*g) = sqrt|f| sqrt|g|,
        # which keeps the tower of relations a field far more often); guarded by size
        fl = []
        for f, e in factors:
            if e & 1 and len(f) <= 400 and not f.is_ground:
                try:
                    c2, irr = f.factor_list()
                    coeff = coeff * c2 ** e
                    fl.extend((g, e * m) for g, m in irr)
                    continue
                except Exception:
                    pass
            fl.append((f, e))
        inner_factors = []
        sign = 1
        for f, e in fl:
            falg = Alg(w, f, w.ring.one, _eval_poly(w, f))
            if e >= 2:
                outside = outside * abs(falg) ** (e // 2)
            if e & 1:
                inner_factors.append((f, falg))
        if len(inner_factors) > 1:
            # one radical per irreducible factor; each factor's sign is a (closed) path condition
            for f, falg in inner_factors:
                fv = falg.val.real if isinstance(falg.val, complex) else falg.val
                if abs(fv) <= TINY:
                    raise Undecided(f"degenerate seed in sqrt factor at {_caller_site()}")
                if fv > 0:
                    w.record_path(falg, '>=', 'sqrt-factor')
                    outside = outside * _single_radical(w, f, fv)
                else:
                    w.record_path(falg, '<=', 'sqrt-factor')
                    sign = -sign
                    outside = outside * _single_radical(w, -f, -fv)
            c = Fraction(int(coeff.numerator), int(coeff.denominator)) * sign
            if c < 0:
                raise DomainViolation(f"sqrt of a negative radicand at {_caller_site()}")
            out = outside * w.const(c).sqrt()
            out.val = math.sqrt(val) if val >= 0 else 0.0
            return out
        inner = w.ring.ground_new(coeff)
        for f, falg in inner_factors:
            inner = inner * f
        inner = w.reduce(inner)
        # rational constant content of inner: pull perfect squares
        if inner.is_ground:
            q = Fraction(int(inner.LC.numerator), int(inner.LC.denominator)) if inner else Fraction(0)
            rn, rd = math.isqrt(abs(q.numerator)), math.isqrt(q.denominator)
            if q >= 0 and rn * rn == q.numerator and rd * rd == q.denominator:
                out = outside * w.const(Fraction(rn, rd))
                out.val = math.sqrt(val) if val >= 0 else float('nan')
                return out
        # normalise the radicand to leading coefficient +-1 when the positive constant pulled out is a rational square:
        # sqrt(c^2 * p) = c sqrt(p), so that proportional radicands share one generator
        if not inner.is_ground:
            a = abs(Fraction(int(inner.LC.numerator), int(inner.LC.denominator)))
            rn, rd = math.isqrt(a.numerator), math.isqrt(a.denominator)
            if a != 1 and rn * rn == a.numerator and rd * rd == a.denominator:
                inner = inner.quo_ground(w.ring.domain(a.numerator) / w.ring.domain(a.denominator))
                outside = outside * w.const(Fraction(rn, rd))
        key = _poly_key(inner)
        gi = w.rad_cache.get(key)
        if gi is None:
            ival = _eval_poly(w, inner)
            if ival < -1e-12:
                raise DomainViolation(f"sqrt of a negative radicand (shadow {ival})")
            gi = w._grow(f"r{len(w.rad_cache)}", 'rad', math.sqrt(max(ival, 0.0)))
            w.rad_cache[key] = gi
            w.relpoly[gi] = w.upgrade(inner)
            w.info[gi] = Alg(w, w.upgrade(inner), w.ring.one, ival)
        out = outside * Alg(w, w.ring.gens[gi], w.ring.one, w.shadow[gi])
        out.val = math.sqrt(val) if val >= 0 else 0.0
        return out

    # trig on "angle-like" arguments: integer combinations of base angle symbols
    def _angle_parts(self):
        """self = sum_i m_i * theta_i with integer m_i and theta_i plain symbols -> [(gen index, m_i)] or None"""
        w = self.w
        if not self.den.is_ground:
            return None
        d = self.den.LC
        parts = []
        for m, c in self.num.items():
            if sum(m) != 1:
                return None
            gi = m.index(1)
            if w.kind[gi] not in ('sym', 'fun'):
                return None
            q = c / d
            if q.denominator != 1:
                return None
            parts.append((gi, int(q.numerator)))
        return parts

    def _cs(self):
        """(cos self, sin self) as Alg"""
        w = self.w
        if self.is_zero_nf():
            return w.const(1), w.const(0)
        parts = self._angle_parts()
        if parts is not None and len(parts) == 1 and parts[0][1] == 1 and w.kind[parts[0][0]] == 'fun' \
                and w.info[parts[0][0]][0] == 'arctan2':
            y, x = w.info[parts[0][0]][1]
            r = (x * x + y * y).sqrt()
            return x / r, y / r
        if parts is None:
            cs_ = self.canon()
            key = ('angle', _poly_key(cs_.num), _poly_key(cs_.den))
            if key not in w.fun_cache:
                c = math.cos(self.val)
                s = math.sin(self.val)
                ci = w._grow(f"c{len(w.fun_cache)}", 'cos', c)
                C = Alg(w, w.ring.gens[ci], w.ring.one, c)
                si = w._grow(f"s{len(w.fun_cache)}", 'sin', s)
                w.relpoly[si] = w.ring.one - w.ring.gens[ci] ** 2
                S = Alg(w, w.ring.gens[si], w.ring.one, s)
                w.fun_cache[key] = (C, S)
            return w.fun_cache[key]
        C, S = w.const(1), w.const(0)
        for gi, mlt in parts:
            if w.kind[gi] == 'fun' and w.info[gi][0] == 'arctan2':
                y, x = w.info[gi][1]
                r = (x * x + y * y).sqrt()
                c1, s1 = x / r, y / r
                if mlt < 0:
                    s1, mlt = -s1, -mlt
                for _ in range(mlt):
                    C, S = C * c1 - S * s1, S * c1 + C * s1
                continue
            if gi not in w.angle_base:
                th = w.shadow[gi]
                ci = w._grow(f"cos_{w.names[gi]}", 'cos', math.cos(th))
                si = w._grow(f"sin_{w.names[gi]}", 'sin', math.sin(th))
                w.relpoly[si] = w.ring.one - w.ring.gens[ci] ** 2
                w.angle_base[gi] = (ci, si)
            ci, si = w.angle_base[gi]
            c1 = Alg(w, w.ring.gens[ci], w.ring.one, w.shadow[ci])
            s1 = Alg(w, w.ring.gens[si], w.ring.one, w.shadow[si])
            if mlt < 0:
                s1 = -s1
                mlt = -mlt
            for _ in range(mlt):
                C, S = C * c1 - S * s1, S * c1 + C * s1
        return C, S

    def cos(self):
        return self._cs()[0]

    def sin(self):
        return self._cs()[1]

    def tan(self):
        c, s = self._cs()
        return s / c

    def exp(self):
        w = self.w
        if self.is_zero_nf():
            return w.const(1)
        parts = self._angle_parts()
        if parts is None:
            raise Undecided("exp of a non-linear argument")
        out = w.const(1)
        for gi, mlt in parts:
            if w.kind[gi] == 'fun' and w.info[gi][0] == 'arccosh':
                # assumed contract: exp(arccosh c) = c + sqrt(c^2 - 1)   (c >= 1 is arccosh's own domain obligation)
                c = w.info[gi][1]
                base = c + (c * c - 1).sqrt()
                out = out * base ** mlt
                continue
            if gi not in w.exp_base:
                ei = w._grow(f"exp_{w.names[gi]}", 'exp', math.exp(w.shadow[gi]))
                w.exp_base[gi] = ei
            ei = w.exp_base[gi]
            out = out * Alg(w, w.ring.gens[ei], w.ring.one, w.shadow[ei]) ** mlt
        return out

    def _fun(self, name, f, domain=None):
        w = self.w
        cs_ = self.canon()
        key = (name, _poly_key(cs_.num), _poly_key(cs_.den))
        if key not in w.fun_cache:
            if domain is not None:
                domain(self)
            v = f(self.val.real if isinstance(self.val, complex) else self.val)
            gi = w._grow(f"{name}{len(w.fun_cache)}", 'fun', v)
            w.info[gi] = (name, self)
            w.fun_cache[key] = Alg(w, w.ring.gens[gi], w.ring.one, v)
        return w.fun_cache[key]

    def arccosh(self):
        w = self.w
        one = self - 1
        if isinstance(one, Alg) and one.is_zero_nf():
            return w.const(0)
        return self._fun('arccosh', math.acosh, lambda a: w.require(a - 1, '>=', "arccosh: argument >= 1"))

    def arccos(self):
        w = self.w
        return self._fun('arccos', math.acos,
                         lambda a: (w.require(1 - a, '>=', "arccos: argument <= 1"),
                                    w.require(a + 1, '>=', "arccos: argument >= -1")))

    def arcsin(self):
        w = self.w
        return self._fun('arcsin', math.asin,
                         lambda a: (w.require(1 - a, '>=', "arcsin: argument <= 1"),
                                    w.require(a + 1, '>=', "arcsin: argument >= -1")))

    def arcsinh(self):
        return self._fun('arcsinh', math.asinh)

    def arctan(self):
        return self._fun('arctan', math.atan)

    def arctan2(self, x):
        """theta = arctan2(y=self, x): function symbol with  cos(theta) = x/sqrt(x^2+y^2), sin(theta) = y/sqrt(x^2+y^2)"""
        w = self.w
        y = self
        x = y._coerce(x)
        yc_, xc_ = y.canon(), x.canon()
        key = ('arctan2', _poly_key(yc_.num), _poly_key(yc_.den), _poly_key(xc_.num), _poly_key(xc_.den))
        if key not in w.fun_cache:
            r2 = x * x + y * y
            if not r2.is_const():
                w.require(r2, '>', "arctan2: argument is not the origin")
            yv = y.val.real if isinstance(y.val, complex) else y.val
            xv = x.val.real if isinstance(x.val, complex) else x.val
            v = math.atan2(yv, xv)
            gi = w._grow(f"atan2_{len(w.fun_cache)}", 'fun', v)
            w.info[gi] = ('arctan2', (y, x))
            w.fun_cache[key] = Alg(w, w.ring.gens[gi], w.ring.one, v)
        return w.fun_cache[key]

    def rarctan2(self, y):
        return self._coerce(y).arctan2(self)

    def sinh(self):
        e = self.exp()
        return (e - 1 / e) / 2

    def cosh(self):
        e = self.exp()
        return (e + 1 / e) / 2

    # ------------------------------------------------------------ NumPy scalar API emulation (0-d decay)
    T = property(lambda self: self)
    shape = ()
    ndim = 0
    size = 1
    dtype = np.dtype('O')

    def item(self):
        return self

    def copy(self):
        return self

    def astype(self, t, **kw):
        if np.dtype(t) == np.dtype('O'):
            return self
        if np.dtype(t).kind == 'f':
            return np.float64(float(self))
        raise Undecided(f"astype({t}) of a symbolic scalar")

    def _as0d(self):
        a = np.empty((), dtype=object)
        a[()] = self
        return a

    def __getitem__(self, key):
        return self._as0d()[key]

    def squeeze(self, *a, **k):
        return self

    def swapaxes(self, *a):
        return self

    def reshape(self, *shape):
        return self._as0d().reshape(*shape)

    def sum(self, *a, **k):
        return self

    def any(self, *a, **k):
        return bool(self)

    def all(self, *a, **k):
        return bool(self)

    def __repr__(self):
        s = str(self.num)
        if not self.den.is_ground or self.den.LC != 1:
            s = f"({s})/({self.den})"
        if len(s) > 120:
            s = s[:117] + "..."
        return f"<{s} ~ {self.val:.6g}>" if not isinstance(self.val, complex) else f"<{s} ~ {self.val:.4g}>"


def _single_radical(w, inner, ival):
    """generator for sqrt(inner), inner a polynomial that is >= 0 on the current path"""
    inner = w.reduce(w.upgrade(inner))
    # normalise the content so that proportional radicands share a generator: sqrt(c*p) = sqrt(c) sqrt(p)
    lc = inner.LC
    mult = w.const(1)
    if lc != 1 and lc > 0:
        inner = inner.quo_ground(lc)
        ival = ival / (float(lc.numerator) / float(lc.denominator))
        mult = w.const(Fraction(int(lc.numerator), int(lc.denominator))).sqrt()
    key = _poly_key(inner)
    gi = w.rad_cache.get(key)
    if gi is None:
        gi = w._grow(f"r{len(w.rad_cache)}", 'rad', math.sqrt(max(ival, 0.0)))
        w.rad_cache[key] = gi
        w.relpoly[gi] = w.upgrade(inner)
        w.info[gi] = Alg(w, w.upgrade(inner), w.ring.one, ival)
    return mult * Alg(w, w.ring.gens[gi], w.ring.one, w.shadow[gi])


def _poly_key(p):
    """ring-version independent key of a polynomial (monomials with trailing zero exponents stripped)"""
    out = []
    for m, c in p.items():
        k = len(m)
        while k and m[k - 1] == 0:
            k -= 1
        out.append((m[:k], c))
    out.sort()
    return tuple(out)


def _eval_poly(w, p):
    """float value of a polynomial at the shadow point"""
    tot = 0.0
    sh = w.shadow
    for m, c in p.items():
        t = float(c.numerator) / float(c.denominator)
        for i, e in enumerate(m):
            if e:
                t = t * sh[i] ** e
        tot = tot + t
    if isinstance(tot, complex) and abs(tot.imag) < 1e-13 * max(1.0, abs(tot)):
        tot = tot.real
    return tot


# -------------------------------------------------------------------------------------------------------
# array helpers
def sym_array(w, name, shape, values):
    values = np.asarray(values, dtype=float).reshape(shape)
    out = np.empty(shape, dtype=object)
    for idx in np.ndindex(*shape):
        out[idx] = w.sym(name + "".join(f"_{i}" for i in idx), values[idx])
    return out


def lift(w, arr):
    """numeric array -> object array of exact constants"""
    arr = np.asarray(arr)
    out = np.empty(arr.shape, dtype=object)
    for idx in np.ndindex(*arr.shape):
        out[idx] = w.const(arr[idx].item() if hasattr(arr[idx], 'item') else arr[idx])
    return out


def shadow(x):
    """float / complex shadow of an Alg, an object array, or a plain numeric value"""
    if isinstance(x, Alg):
        return x.val
    a = np.asarray(x)
    if a.dtype != object:
        return a
    flat = [e.val if isinstance(e, Alg) else e for e in a.ravel()]
    cplx = any(isinstance(v, complex) for v in flat)
    return np.array(flat, dtype=complex if cplx else float).reshape(a.shape)
