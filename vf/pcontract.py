"""Registration and running of Engine P contracts (see vf/pyvc.py)."""
import time
import traceback

import z3

from . import api, pyvc
from .pyvc import Refuse


class PContract:
    kind = 'P'

    def __init__(self, prop, name, relpath, qualname, spec, note=""):
        self.prop, self.name, self.relpath, self.qualname, self.spec, self.note = prop, name, relpath, qualname, spec, note
        self.functions = [f"{relpath}:{qualname}"]

    def obligations(self, tier):
        yield f"{self.prop}.{self.name}", None

    def run(self, obname, payload, tier, seed):
        t0 = time.time()
        out = {"name": obname, "engine": "P", "functions": self.functions, "clauses": {}, "stats": {}}
        try:
            spec = self.spec()
            fd, path = pyvc.load_function(self.relpath, self.qualname)
            ip = pyvc.Interp(spec, self.qualname, path, fd, spec.axioms)
            st = pyvc.State("0")
            ctx = spec.setup(ip, st, fd)
            for h in spec.requires(ip, st, ctx):
                st.pc.append(h)
            st0 = st.fork()
            # vacuity guard: a contradictory precondition would make every obligation provable
            vac = pyvc.satisfiable(st.pc, spec.axioms)
            if vac == "unsat":
                out.update(status="error", detail="precondition (with the axioms) is unsatisfiable: vacuous contract")
                return out
            out["stats"]["precondition_satisfiable"] = vac
            outcomes = ip.run_block(fd.body, st)
            obs = list(ip.obligations)
            for k, o in enumerate(outcomes):
                if o.kind == 'normal':          # fell off the end: return None
                    o = pyvc.Outcome('return', o.state, pyvc.VNone())
                for nm, goal in spec.post(ip, o, st0, ctx):
                    obs.append(pyvc.Obligation(f"{nm}[path{k}:{o.kind}{':' + o.exc if o.exc else ''}]", list(o.state.pc), goal))
            # lemmas (proved by induction: base and step are separate obligations)
            for nm, hyps, goal in spec.lemma_obligations():
                obs.append(pyvc.Obligation(f"lemma:{nm}", hyps, goal))
        except Refuse as e:
            out.update(status="undecided", detail=f"translator refused: {e}")
            return out
        except Exception as e:
            out.update(status="undecided", detail=f"translator error {type(e).__name__}: {e}\n{traceback.format_exc(limit=6)}")
            return out
        if not obs:
            out.update(status="error", detail="zero obligations generated")
            return out
        n_proved = 0
        secs = 0.0
        worst = None
        for ob in obs:
            if worst is not None:        # fail fast: one undischarged obligation already decides the status
                out["clauses"].setdefault(ob.name, ["skipped", "an earlier obligation was not discharged"])
                continue
            axioms = spec.axioms if not ob.name.startswith("lemma:") else spec.lemma_axioms(ob.name[6:])
            # a conjunction is discharged conjunct by conjunct (much easier for the quantifier instantiation)
            parts = _conjuncts(ob.goal)
            stt, solver, model = "proved", "z3", ""
            for gpart in parts:
                st1, dt, sv1, md1 = pyvc.solve(ob.hyps, gpart, axioms, timeout=spec.timeout)
                secs += dt
                if st1 != "proved":
                    stt, solver, model = st1, sv1, md1
                    break
            key = ob.name
            i = 2
            while key in out["clauses"]:
                key = f"{ob.name}#{i}"; i += 1
            out["clauses"][key] = [stt, solver if stt == "proved" else (model[:600] if model else solver)]
            if stt == "proved":
                n_proved += 1
            elif stt == "refuted" and worst != "refuted":
                worst = "refuted"
                out["detail"] = f"obligation {ob.name} fails: counter-model\n{model[:1500]}"
            elif worst is None:
                worst = "unknown"
                out["detail"] = f"obligation {ob.name} undecided by z3 and cvc5"
        # reachability: at least one normal return path must not be contradictory
        reach = [pyvc.satisfiable(o.state.pc, spec.axioms, timeout=3.0) for o in outcomes if o.kind in ('normal', 'return')]
        if reach and all(r == "unsat" for r in reach):
            out.update(status="error", detail="no return path is reachable under the precondition (vacuous)")
            return out
        out["stats"].update({"vcs": len(obs), "vcs_proved": n_proved, "solver_seconds": round(secs, 3), "wall_s": round(time.time() - t0, 3),
                        "source": f"{self.relpath}:{fd.lineno}", "dropped_by_translation": sorted(spec.dropped),
                        "return_paths_reachable": reach})
        if n_proved == len(obs):
            out["status"] = "proved"
            out.setdefault("detail", "")
        elif worst == "refuted":
            out["status"] = "refuted"
        else:
            out["status"] = "undecided"
        return out


def _conjuncts(g, depth=2):
    if depth > 0 and z3.is_and(g):
        out = []
        for ch in g.children():
            out.extend(_conjuncts(ch, depth - 1))
        return out
    return [g]


def pcontract(prop, name, relpath, qualname, note=""):
    def deco(cls):
        api.REGISTRY.setdefault(prop, []).append(PContract(prop, name, relpath, qualname, cls, note))
        return cls
    return deco


class Spec:
    """base class of an Engine P contract"""
    timeout = 10.0
    dropped = ("order inside label lists", "character structure of labels", "dict iteration order", "machine matrix arithmetic (abstract group)")

    def __init__(self):
        self.axioms = []
        self.loops = {}
        self.callees = {}
        self.globals_ = {}
        self.properties = {}
        self.var_kinds = {}
        self._lemmas = []

    def requires(self, ip, st, ctx):
        return []

    def lemma_obligations(self):
        return [(nm, hyps, goal) for nm, hyps, goal, _ in self._lemmas]

    def lemma_axioms(self, name):
        for nm, _, _, ax in self._lemmas:
            if nm == name:
                return ax
        return []

    def list_comprehension(self, ip, n, st):
        raise Refuse(f"list comprehension at line {n.lineno}")

    def G(self, key):
        raise Refuse("no generator map")

    def mul(self, a, b):
        raise Refuse("no matrix product")


class LeanLemmas:
    """spec-level glue lemmas checked by Lean 4 + Mathlib (thorough tier only: loading Mathlib takes ~1-2 min)"""
    kind = 'P'

    def __init__(self, prop, name, path, theorems, note=""):
        self.prop, self.name, self.path, self.theorems, self.note = prop, name, path, theorems, note
        self.functions = [f"lean:{path}:{t}" for t in theorems]

    def obligations(self, tier):
        if tier == 'thorough':
            yield f"{self.prop}.{self.name}", None

    def run(self, obname, payload, tier, seed):
        import os, shutil, subprocess
        t0 = time.time()
        out = {"name": obname, "engine": "P", "functions": self.functions, "clauses": {}, "stats": {"backend": "lean4+mathlib (spec-level lemma, no code involved)"}}
        root = os.path.dirname(os.path.dirname(os.path.abspath(__file__)))
        if not shutil.which("lean"):
            out.update(status="undecided", detail="lean not on PATH")
            return out
        try:
            pr = subprocess.run(["lean", os.path.join(root, self.path)], capture_output=True, text=True, timeout=800, cwd=root)
        except subprocess.TimeoutExpired:
            out.update(status="undecided", detail="lean timed out")
            return out
        txt = pr.stdout + pr.stderr
        src = open(os.path.join(root, self.path)).read()
        bad = pr.returncode != 0 or "error" in txt.lower() or "sorry" in src
        for t in self.theorems:
            ok = (not bad) and (f"theorem {t}" in src)
            out["clauses"][f"lemma:{t}"] = ["proved" if ok else "undecided", "lean"]
        out["status"] = "proved" if all(v[0] == "proved" for v in out["clauses"].values()) else "undecided"
        out["detail"] = "" if out["status"] == "proved" else txt[-1500:]
        out["stats"]["wall_s"] = round(time.time() - t0, 1)
        return out


def lean_lemmas(prop, name, path, theorems, note=""):
    api.REGISTRY.setdefault(prop, []).append(LeanLemmas(prop, name, path, theorems, note))
