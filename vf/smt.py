"""SMT back end for sign / order / domain / path-coverage obligations of Engine R.

Every query is written as SMT-LIB 2 text and handed to an external solver process (z3 from the z3-solver
wheel, then /usr/bin/cvc5 on `unknown`) under a hard wall-clock limit, so a hanging solver cannot hang a check.
Real arithmetic: generators of the `World` become real variables constrained by their defining relations.
"""
import os
import re
import subprocess
import tempfile
import time
from fractions import Fraction

from .alg import Alg, Cond, Undecided

HERE = os.path.dirname(os.path.abspath(__file__))
Z3 = os.path.join(os.path.dirname(HERE), ".venv", "bin", "z3")
if not os.path.exists(Z3):
    Z3 = "/usr/local/bin/z3-new" if os.path.exists("/usr/local/bin/z3-new") else "/usr/bin/z3"
CVC5 = "/usr/bin/cvc5"

STATS = {"queries": 0, "seconds": 0.0, "by_solver": {}}


def _q(c):
    n, d = int(c.numerator), int(c.denominator)
    s = str(abs(n)) + ".0"
    if d != 1:
        s = f"(/ {s} {d}.0)"
    return f"(- {s})" if n < 0 else s


def poly_smt(w, p, used):
    p = w.upgrade(p)
    terms = []
    for m, c in p.items():
        fs = []
        for i, e in enumerate(m):
            if e:
                used.add(i)
                fs.extend([f"g{i}"] * e)
        cs = _q(c)
        if not fs:
            terms.append(cs)
        elif cs == "1.0":
            terms.append(fs[0] if len(fs) == 1 else "(* " + " ".join(fs) + ")")
        else:
            terms.append("(* " + cs + " " + " ".join(fs) + ")")
    if not terms:
        return "0.0"
    if len(terms) == 1:
        return terms[0]
    return "(+ " + " ".join(terms) + ")"


def cond_smt(w, c, used):
    a = c.alg
    rel = c.rel
    if not isinstance(a, Alg):
        a = w.const(a)
    if rel in ('==', '!='):
        body = f"(= {poly_smt(w, a.num, used)} 0.0)"
        return body if rel == '==' else f"(not {body})"
    if a.den.is_ground:
        e = poly_smt(w, a.num, used)
    else:
        # sign(N/D) = sign(N*D); D != 0 is a previously discharged domain obligation
        e = poly_smt(w, w.reduce(w.upgrade(a.num) * w.upgrade(a.den)), used)
    op = {'<': '<', '<=': '<=', '>': '>', '>=': '>='}[rel]
    return f"({op} {e} 0.0)"


def defs_smt(w, used):
    """defining constraints of all generators in `used` (transitively)"""
    out = []
    done = set()
    todo = sorted(used)
    while todo:
        i = todo.pop()
        if i in done:
            continue
        done.add(i)
        k = w.kind[i]
        if k == 'I':
            raise Undecided("sign condition on a complex quantity")
        sub = set()
        if k == 'rad':
            out.append(f"(>= g{i} 0.0)")
            out.append(f"(= (* g{i} g{i}) {poly_smt(w, w.relpoly[i], sub)})")
        elif k == 'sin':
            out.append(f"(= (* g{i} g{i}) {poly_smt(w, w.relpoly[i], sub)})")
        elif k == 'cos':
            out.append(f"(<= (- 1.0) g{i} 1.0)")
        elif k == 'exp':
            out.append(f"(> g{i} 0.0)")
            for base, ei in w.exp_base.items():      # assumed contract: exp is increasing with exp(0) = 1
                if ei == i:
                    out.append(f"(= (> g{i} 1.0) (> g{base} 0.0))")
                    out.append(f"(= (< g{i} 1.0) (< g{base} 0.0))")
                    sub.add(base)
        elif k == 'fun':
            name, arg = w.info[i]
            if name in ('arccosh', 'arccos'):
                out.append(f"(>= g{i} 0.0)")
            if name == 'arctan2':
                out.append(f"(<= (- 3.141592653589794) g{i} 3.141592653589794)")
        for j in sub:
            if j not in done:
                todo.append(j)
    return out, done


def run_solver(text, timeout=10.0, want_model=False):
    """returns (status, model_text, solver) with status in unsat / sat / unknown"""
    STATS["queries"] += 1
    t0 = time.time()
    fd, path = tempfile.mkstemp(suffix=".smt2", dir=os.environ.get("VF_SCRATCH", None))
    try:
        with os.fdopen(fd, "w") as f:
            f.write(text)
        res = ("unknown", "", "none")
        for solver, cmd in (("z3", [Z3, f"-T:{int(timeout) + 1}", path]),
                            ("cvc5", [CVC5, "--nl-cov", f"--tlimit={int(timeout * 1000)}", path])):
            if solver == "cvc5" and not os.path.exists(CVC5):
                continue
            try:
                pr = subprocess.run(cmd, capture_output=True, text=True, timeout=timeout + 3)
                out = pr.stdout.strip()
            except subprocess.TimeoutExpired:
                out = "unknown"
            first = out.split("\n", 1)[0].strip() if out else "unknown"
            if first in ("sat", "unsat"):
                res = (first, out, solver)
                break
            res = ("unknown", out, solver)
        STATS["by_solver"][res[2]] = STATS["by_solver"].get(res[2], 0) + 1
        return res
    finally:
        STATS["seconds"] += time.time() - t0
        try:
            os.unlink(path)
        except OSError:
            pass


def check_implied(w, hyps, goal, timeout=10.0, free=False):
    """Is  /\\hyps  =>  goal  valid (over the reals, generators constrained by their definitions)?
    returns ('proved'|'refuted'|'unknown', model dict or None, solver)"""
    used = set()
    hs = [cond_smt(w, h, used) for h in hyps]
    g = cond_smt(w, goal, used)
    if free:     # generators are arbitrary reals: no defining relations
        defs, allg = [], set(used)
    else:
        defs, allg = defs_smt(w, used)
    lines = ["(set-logic QF_NRA)"]
    for i in sorted(allg):
        lines.append(f"(declare-const g{i} Real)")
    for d in defs:
        lines.append(f"(assert {d})")
    for h in hs:
        lines.append(f"(assert {h})")
    lines.append(f"(assert (not {g}))")
    lines.append("(check-sat)")
    lines.append("(get-model)")
    st, out, solver = run_solver("\n".join(lines) + "\n", timeout)
    if st == "unsat":
        return "proved", None, solver
    if st == "sat":
        return "refuted", parse_model(out), solver
    return "unknown", None, solver


def check_sat(w, conds, timeout=10.0):
    """satisfiability of a conjunction; returns (status, model)"""
    used = set()
    cs = [cond_smt(w, c, used) for c in conds]
    defs, allg = defs_smt(w, used)
    lines = ["(set-logic QF_NRA)"]
    for i in sorted(allg):
        lines.append(f"(declare-const g{i} Real)")
    for d in defs:
        lines.append(f"(assert {d})")
    for c in cs:
        lines.append(f"(assert {c})")
    lines.append("(check-sat)")
    lines.append("(get-model)")
    st, out, solver = run_solver("\n".join(lines) + "\n", timeout)
    return st, (parse_model(out) if st == "sat" else None), solver


_num = r"\(?\s*(-?)\s*\(?\s*(/?)\s*"


def parse_model(text):
    """very small parser for (define-fun gN () Real VALUE) with rational / decimal / root-obj values"""
    model = {}
    for m in re.finditer(r"\(define-fun\s+g(\d+)\s+\(\)\s+Real\s+(.*?)\)\s*(?=\(define-fun|\)\s*$|$)", text, re.S):
        idx = int(m.group(1))
        val = _parse_val(m.group(2).strip())
        if val is not None:
            model[idx] = val
    return model


def _parse_val(s):
    s = s.strip()
    try:
        toks = re.findall(r"\(|\)|[^\s()]+", s)
        pos = [0]

        def ev():
            t = toks[pos[0]]
            pos[0] += 1
            if t == "(":
                op = toks[pos[0]]
                pos[0] += 1
                args = []
                while toks[pos[0]] != ")":
                    args.append(ev())
                pos[0] += 1
                if op == "-":
                    return -args[0] if len(args) == 1 else args[0] - args[1]
                if op == "/":
                    return args[0] / args[1]
                if op == "+":
                    return sum(args)
                if op == "*":
                    r = 1.0
                    for a in args:
                        r *= a
                    return r
                if op == "root-obj":
                    return None
                return None
            t = t.rstrip("?")
            return float(Fraction(t)) if "/" in t or "." not in t else float(t)
        v = ev()
        return v
    except Exception:
        return None
