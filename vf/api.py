"""Registry of contracts.  A contract module (contracts/cXX.py) registers

  @rcontract(name, instances=..., functions=[...], bounded_n=..)       Engine R contract (see vf/rrun.py)
  @bounded(name, ...)                                                   a labelled bounded stand-in (rtc only)
  pcontracts are registered by vf.pyvc (Engine P)

Every registered item yields *obligations* named  Cxx.<name>.<instance>  .
"""
import itertools

REGISTRY = {}      # prop -> list of items

# properties whose thorough-only instances all discharge within seconds: the quick tier runs them too
QUICK_RUNS_ALL_INSTANCES = {"C03", "C08", "C16"}


class RContract:
    kind = 'R'

    def __init__(self, prop, name, fn, instances, thorough_instances, functions, bounded_n, tol, max_paths,
                 timeout, known=None, note=""):
        self.prop, self.name, self.fn = prop, name, fn
        self.instances = instances
        self.thorough_instances = thorough_instances
        self.functions = functions
        self.bounded_n = bounded_n
        self.tol = tol
        self.max_paths = max_paths
        self.timeout = timeout
        self.note = note

    def obligations(self, tier):
        insts = list(self.instances)
        if tier == 'thorough' or self.prop in QUICK_RUNS_ALL_INSTANCES:
            insts += [i for i in self.thorough_instances if i not in insts]
        for inst in insts:
            yield f"{self.prop}.{self.name}.{inst_name(inst)}", inst


class Bounded:
    kind = 'B'

    def __init__(self, prop, name, fn, functions, note=""):
        self.prop, self.name, self.fn, self.functions, self.note = prop, name, fn, functions, note


def inst_name(inst):
    if not inst:
        return "_"
    parts = []
    for k, v in inst.items():
        if isinstance(v, (tuple, list)):
            v = "x".join(str(x) for x in v) if len(v) else "unit"
        parts.append(f"{k}{v}")
    return "-".join(parts)


def rcontract(prop, name, instances=({},), thorough=(), functions=(), bounded_n=(60, 600), tol=1e-8,
              max_paths=8, timeout=10.0, note=""):
    def deco(fn):
        REGISTRY.setdefault(prop, []).append(
            RContract(prop, name, fn, list(instances), list(thorough), list(functions), bounded_n, tol,
                      max_paths, timeout, note=note))
        return fn
    return deco


def bounded(prop, name, functions=(), note=""):
    """fn(tier, rng, report) -> calls report.case(nontrivial: bool, sample) per evaluation and
    report.fail(what, replay_input) on a violation."""
    def deco(fn):
        REGISTRY.setdefault(prop, []).append(Bounded(prop, name, fn, list(functions), note))
        return fn
    return deco


def dims(lo, hi):
    return [dict(n=n) for n in range(lo, hi + 1)]


def product(**axes):
    keys = list(axes)
    return [dict(zip(keys, vals)) for vals in itertools.product(*[axes[k] for k in keys])]
