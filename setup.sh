#!/bin/bash
# Build (idempotently) the overlay interpreter used by every check: python 3.12 + the repo's own
# site-packages (numpy 2.5.3, scipy, matplotlib) + sympy / z3-solver / cvc5 / jsonschema from the
# offline wheelhouse.  Nothing is fetched from the network.
set -e
cd "$(dirname "$0")"
V=.venv
if [ -x $V/bin/python ] && $V/bin/python -c "import sympy, z3, jsonschema, numpy" 2>/dev/null; then
  exit 0
fi
rm -rf $V
/venv/bin/python -m venv $V
PIP_NO_INDEX=1 $V/bin/python -m pip install -q --no-index --find-links /opt/veriftools/wheels \
    sympy z3-solver cvc5 jsonschema >/dev/null
SP=$($V/bin/python -c "import sysconfig; print(sysconfig.get_paths()['purelib'])")
echo "import site; site.addsitedir('/venv/lib/python3.12/site-packages')" > "$SP/zz_repo_site.pth"
$V/bin/python -c "import sympy, z3, jsonschema, numpy, scipy; print('overlay venv ok', numpy.__version__, sympy.__version__, z3.get_version_string())"
