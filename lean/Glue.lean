/-
Spec-level glue lemmas (no code of /repo is involved): they lift facts proved on the code by Engine R to all
words of compositions / inverses and to all dimensions.  Checked with `lean lean/Glue.lean` (Lean 4 + Mathlib).
-/
import Mathlib.LinearAlgebra.Matrix.NonsingularInverse
import Mathlib.Data.Matrix.Basic

open Matrix

variable {n : Type*} [Fintype n] [DecidableEq n] {R : Type*} [CommRing R]

/-- matrices preserving a form `J` (row convention `M J Mᵀ = J`) are closed under products -/
theorem form_mul (J A B : Matrix n n R) (hA : A * J * Aᵀ = J) (hB : B * J * Bᵀ = J) :
    (A * B) * J * (A * B)ᵀ = J := by
  have h : (A * B) * J * (A * B)ᵀ = A * (B * J * Bᵀ) * Aᵀ := by
    simp only [Matrix.transpose_mul, Matrix.mul_assoc]
  rw [h, hB, hA]

/-- ... and under inverses -/
theorem form_inv (J A : Matrix n n R) (hdet : IsUnit A.det) (hA : A * J * Aᵀ = J) :
    A⁻¹ * J * (A⁻¹)ᵀ = J := by
  have hdetT : IsUnit (Aᵀ).det := by rw [Matrix.det_transpose]; exact hdet
  have h1 : A⁻¹ * (A * J * Aᵀ) * (Aᵀ)⁻¹ = J := by
    calc A⁻¹ * (A * J * Aᵀ) * (Aᵀ)⁻¹ = (A⁻¹ * A) * J * (Aᵀ * (Aᵀ)⁻¹) := by
          simp only [Matrix.mul_assoc]
      _ = J := by
          rw [Matrix.nonsing_inv_mul A hdet, Matrix.mul_nonsing_inv Aᵀ hdetT, Matrix.one_mul, Matrix.mul_one]
  rw [hA] at h1
  rw [Matrix.transpose_nonsing_inv]
  exact h1

/-- the form of the images equals the form of the originals: `(x A) J (y A)ᵀ = x J yᵀ` (rows `x y : 1 × n`) -/
theorem form_apply {m : Type*} [Fintype m] (J A : Matrix n n R) (x y : Matrix m n R) (hA : A * J * Aᵀ = J) :
    (x * A) * J * (y * A)ᵀ = x * J * yᵀ := by
  have h : (x * A) * J * (y * A)ᵀ = x * (A * J * Aᵀ) * yᵀ := by
    simp only [Matrix.transpose_mul, Matrix.mul_assoc]
  rw [h, hA]

/-- evaluation of words is a monoid homomorphism: the image of a concatenation is the product of the images -/
theorem word_hom {M : Type*} [Monoid M] {α : Type*} (g : α → M) (u v : List α) :
    ((u ++ v).map g).prod = (u.map g).prod * (v.map g).prod := by
  simp [List.map_append, List.prod_append]

/-- conjugating a map that preserves a form `B` by a change of basis `W` (with inverse `Wi`) gives a map preserving
the transported form `Wᵀ B W`: this is how `hyperbolic_rep` obtains O(d,1) matrices from the geometric
representation (which preserves the cosine form) and `diagonalize_form` (which gives `Wᵀ B W = diag(±1)`). -/
theorem conj_form (B W Wi s : Matrix n n R) (h1 : W * Wi = 1) (hs : sᵀ * B * s = B) :
    (Wi * s * W)ᵀ * (Wᵀ * B * W) * (Wi * s * W) = Wᵀ * B * W := by
  have hT : Wiᵀ * Wᵀ = 1 := by
    rw [← Matrix.transpose_mul, h1, Matrix.transpose_one]
  calc (Wi * s * W)ᵀ * (Wᵀ * B * W) * (Wi * s * W)
      = Wᵀ * sᵀ * (Wiᵀ * Wᵀ) * B * (W * Wi) * s * W := by
        simp only [Matrix.transpose_mul, Matrix.mul_assoc]
    _ = Wᵀ * (sᵀ * B * s) * W := by
        rw [hT, h1]; simp only [Matrix.mul_one, Matrix.mul_assoc]
    _ = Wᵀ * B * W := by rw [hs]
