"""C06 - automaton-driven enumeration returns exactly the accepted words and their images (DESIGN.md section 3, C06)."""
import copy
import itertools
import numpy as np
from vf.api import bounded
from geometry_tools.automata import fsa
from geometry_tools.representation import Representation
from geometry_tools import projective as pr
from contracts.fsa_model import Model, all_deterministic_automata
from contracts.c10 import build_by_route, ROUTES

P = "C06"
R = "geometry_tools/representation.py:"
F_ALL = [R + "Representation.automaton_accepted", R + "Representation._automaton_accepted", R + "Representation.freely_reduced_elements",
         R + "Representation.free_words_of_length", R + "Representation.free_words_less_than", R + "Representation._word_value",
         "geometry_tools/automata/fsa.py:free_automaton", "geometry_tools/automata/fsa.py:FSA.enumerate_words"]

# integer unimodular matrices: all products are exact in float64, and the two generators freely generate a free group
GA = np.array([[1., 2.], [0., 1.]])
GB = np.array([[1., 0.], [2., 1.]])


def make_rep(labels, cls=Representation):
    rep = cls()
    mats = {"a": GA, "b": GB, "c": np.array([[2., 1.], [1., 1.]]), "d": np.array([[1., 1.], [1., 2.]]),
            "e": np.array([[3., 1.], [2., 1.]]), "f": np.array([[1., 3.], [0., 1.]]), "x": np.array([[1., 0.], [3., 1.]]), "z": np.array([[2., 3.], [1., 2.]])}
    for l in sorted({ch.lower() for lab in labels for ch in lab}):
        if cls is Representation:
            rep[l] = mats[l].copy()
        else:
            rep[l] = pr.Transformation(mats[l].copy(), column_vectors=True)
    return rep, mats


def image(mats, word):
    M = np.eye(2)
    for ch in word:
        M = M @ (mats[ch] if ch.islower() else np.linalg.inv(mats[ch.lower()]))
    return M


def expected_words(M, starts, L, maxlen, start_state, end_state):
    """multiset (list) of accepted words: one per accepting path"""
    lens = range(0, L + 1) if maxlen else [L]
    out = []
    if end_state is None:
        s = starts[0] if start_state is None else start_state
        for n in lens:
            out += ["".join(w) for w, _ in M.paths(s, n)]
    else:
        for s in starts:
            for n in lens:
                out += ["".join(w) for w, e in M.paths(s, n) if e == end_state]
    return out


def check_enumeration(rep_, d, starts, L, inp, memo_reuse=True, route="graph_dict"):
    M = Model.from_graph_dict(d)
    labels = sorted({l for nb in d.values() for l in nb})
    if not labels:
        labels = ["a"]
    rep, mats = make_rep(labels)
    A = build_by_route(d, list(starts), route)
    for maxlen in (True, False):
        for with_words in (True, False):
            states = [(None, None)] + [(s, None) for s in sorted(M.V, key=repr)] + [(None, s) for s in sorted(M.V, key=repr)]
            for start_state, end_state in states:
                memo = {}
                for length in range(0, L + 1):
                    opts = {"maxlen": maxlen, "with_words": with_words, "start_state": start_state, "end_state": end_state}
                    case = {**inp, "length": length, **{k: (repr(v) if k.endswith("state") else v) for k, v in opts.items()}}
                    want = expected_words(M, starts, length, maxlen, start_state, end_state)
                    for use_memo in ((False, True) if memo_reuse else (False,)):
                        kw = dict(opts)
                        if use_memo:
                            kw["precomputed"] = memo          # the same dictionary is reused across lengths (same options)
                        res = rep.automaton_accepted(A, length, **kw)
                        if with_words:
                            mats_out, words = res
                            if sorted(words) != sorted(want):
                                rep_.fail("returned_words_are_exactly_the_accepted_words", f"got {sorted(words)} expected {sorted(want)} (memo={use_memo})", case); return False
                            if len(mats_out) != len(words):
                                rep_.fail("one_matrix_per_word", f"{len(mats_out)} matrices for {len(words)} words", case); return False
                            for Mx, w in zip(mats_out, words):
                                if not np.array_equal(np.asarray(Mx), image(mats, w)):
                                    rep_.fail("matrix_is_image_of_its_word", f"word {w!r} (memo={use_memo})", case); return False
                        else:
                            mats_out = res
                            got = sorted(tuple(np.asarray(Mx).ravel()) for Mx in mats_out)
                            exp = sorted(tuple(image(mats, w).ravel()) for w in want)
                            if got != exp:
                                rep_.fail("returned_matrices_are_the_images_of_the_accepted_words", f"{len(got)} matrices vs {len(exp)} expected (memo={use_memo})", case); return False
                    # agreement with the automaton's own enumeration
                    if end_state is None:
                        s = starts[0] if start_state is None else start_state
                        own = list(A.enumerate_words(length, start_vertex=s)) if maxlen else list(A.enumerate_fixed_length_paths(length, start_vertex=s))
                        if sorted(own) != sorted(want):
                            rep_.fail("agrees_with_enumerate_words", f"{sorted(own)} vs {sorted(want)}", case); return False
    return True


@bounded(P, "small_automata", functions=F_ALL, note="all deterministic automata with <= 2 states over {a,b}, 3 states sampled/exhaustive, lengths 0..4, every option combination, memo reuse")
def small_automata(tier, rng, rep):
    labels = ["a", "b"]
    cases = [d for n in (1, 2) for d in all_deterministic_automata(n, labels)]
    three = list(all_deterministic_automata(3, labels))
    three = [three[i] for i in rng.choice(len(three), size=(600 if tier == 'thorough' else 60), replace=False)]
    cases += three
    rep.rule = ("every graph_dict on <= 2 states over {a,b} and sampled 3-state ones (parallel edges and self-loops included); lengths 0..4 (3 for three states); all of maxlen x with_words x "
                "{default, every start_state, every end_state}; the memo dictionary reused across lengths; exact integer matrices; non-trivial = >= 2 edges")
    rep.bound = f"{len(cases)} automata"
    for ci, d in enumerate(cases):
        n = len(d)
        # the automaton's default start state is not always the state named 0 (a falsy name)
        st_ = [0] if n == 1 or ci % 3 else [n - 1]
        route = ROUTES[ci % len(ROUTES)] if n >= 2 else "graph_dict"
        inp = {"graph_dict": {str(k): v for k, v in d.items()}, "start": st_, "construction_route": route}
        rep.attempt("enumeration_runs", inp, lambda: check_enumeration(rep, d, st_, 4 if n < 3 else 3, inp, route=route))
        rep.case(key=(repr(d),), nontrivial=sum(len(v) for v in d.values()) >= 2, sample=inp if rep.evaluations == 40 else None)
        if len(rep.failures) >= 3:
            return


@bounded(P, "multi_letter_and_incremental", functions=F_ALL, note="automata with multi-letter labels built by automaton_multiple / add_edges, edge_words on and off, projective representations")
def multi_letter_and_incremental(tier, rng, rep):
    rep.rule = ("even / triple automata of 2-state automata (labels are words, built incrementally with add_edges) with edge_words=True; single-letter automata with edge_words=False; "
                "start and end states; non-trivial = automaton with >= 2 edges")
    rep.bound = "all 2-state automata over {a,b} x k in {2,3}"
    for d in all_deterministic_automata(2, ["a", "b"]):
        F0 = fsa.FSA(copy.deepcopy(d), [0])
        M0 = Model.from_graph_dict(d)
        rp, mats = make_rep(["a", "b"])
        for k in (2, 3):
            Fk = F0.automaton_multiple(k)
            Mk = Model.from_graph_dict({v: dict(nb) for v, nb in Fk.graph_dict.items()})
            inp = {"graph_dict": {str(kk): v for kk, v in d.items()}, "multiple": k}

            def body():
                for length in range(0, 3):
                    for maxlen in (True, False):
                        for (ss, es) in [(None, None)] + [(s, None) for s in sorted(Mk.V)] + [(None, s) for s in sorted(Mk.V)]:
                            lens = range(0, length + 1) if maxlen else [length]
                            if es is None:
                                s = 0 if ss is None else ss
                                want = ["".join(w) for n in lens for w, _ in Mk.paths(s, n)]
                            else:
                                want = ["".join(w) for n in lens for w, e in Mk.paths(0, n) if e == es]
                            ms, ws = rp.automaton_accepted(Fk, length, maxlen=maxlen, with_words=True, start_state=ss, end_state=es, edge_words=True)
                            case = {**inp, "length": length, "maxlen": maxlen, "start_state": repr(ss), "end_state": repr(es)}
                            if sorted(ws) != sorted(want):
                                rep.fail("returned_words_are_exactly_the_accepted_words", f"{sorted(ws)} vs {sorted(want)}", case); return
                            for Mx, w in zip(ms, ws):
                                if not np.array_equal(Mx, image(mats, w)):
                                    rep.fail("matrix_is_image_of_its_word", f"{w!r}", case); return
                            # and these are exactly the words of F0 of length k*n accepted from the same state
                            if es is None and ss is None:
                                base = ["".join(w) for n in lens for w, _ in M0.paths(0, k * n)]
                                if sorted(base) != sorted(want):
                                    rep.fail("multiple_language", "", case); return
            rep.attempt("enumeration_runs", inp, body)
            rep.case(key=(repr(d), k), nontrivial=sum(len(v) for v in d.values()) >= 2)
        # edge_words=False on the single-letter automaton
        inp = {"graph_dict": {str(kk): v for kk, v in d.items()}, "edge_words": False}

        def body2():
            for length in range(0, 4):
                ms, ws = rp.automaton_accepted(F0, length, with_words=True, edge_words=False)
                want = ["".join(w) for n in range(length + 1) for w, _ in M0.paths(0, n)]
                if sorted(ws) != sorted(want):
                    rep.fail("returned_words_are_exactly_the_accepted_words", "edge_words=False", {**inp, "length": length}); return
                for Mx, w in zip(ms, ws):
                    if not np.array_equal(Mx, image(mats, w)):
                        rep.fail("matrix_is_image_of_its_word", f"edge_words=False {w!r}", {**inp, "length": length}); return
        rep.attempt("enumeration_runs", inp, body2)
        rep.case(key=(repr(d), "ew"))
        if len(rep.failures) >= 3:
            return


@bounded(P, "labels_of_unequal_length", functions=F_ALL, note="automata whose labels are words of different lengths, so that distinct accepting paths may spell the same word: each word once per accepting path, with its end state")
def labels_of_unequal_length(tier, rng, rep):
    N = 200 if tier == 'thorough' else 40
    rep.rule = ("fixed: 0-a->1-ba->3, 0-ab->2-a->4 (two paths spell 'aba'); random automata on 3..5 states, labels drawn from {a, b, ab, ba, aa, bb, aba} (distinct per state); "
                "lengths 0..3; every option combination of check_enumeration; end states compared as multisets of (word, state); non-trivial = two paths with one spelling")
    rep.bound = f"1 + {N} automata"
    pool = ["a", "b", "ab", "ba", "aa", "bb", "aba"]
    cases = [{0: {"a": 1, "ab": 2}, 1: {"ba": 3}, 2: {"a": 4}, 3: {}, 4: {}}]
    for _ in range(N):
        nv = int(rng.integers(3, 6))
        d = {}
        for v in range(nv):
            labs = rng.choice(pool, size=int(rng.integers(0, 4)), replace=False)
            d[v] = {str(l): int(rng.integers(0, nv)) for l in labs}
        cases.append(d)
    for t, d in enumerate(cases):
        inp = {"graph_dict": {str(k): v for k, v in d.items()}}
        M = Model.from_graph_dict(d)
        def body():
            if not check_enumeration(rep, d, [0], 3, inp, memo_reuse=(t % 4 == 0)):
                return
            A = fsa.FSA(copy.deepcopy(d), [0])
            for s in sorted(M.V):
                for n in range(0, 4):
                    want = sorted(("".join(w), e) for w, e in M.paths(s, n))
                    got = sorted(A.enumerate_fixed_length_paths(n, start_vertex=s, with_states=True))
                    if got != want:
                        rep.fail("own_enumeration_lists_each_path_with_its_end_state", f"from {s}, {n} edges: {got} vs {want}", {**inp, "start": s, "length": n}); return
                    wantw = sorted("".join(w) for m in range(n + 1) for w, e in M.paths(s, m))
                    goty = sorted(A.enumerate_words(n, start_vertex=s))
                    if goty != wantw:
                        rep.fail("agrees_with_enumerate_words", f"from {s}, up to {n} edges: {goty} vs {wantw}", {**inp, "start": s, "length": n}); return
        rep.attempt("enumeration_runs", inp, body)
        words = ["".join(w) for w, e in M.paths(0, 2)] + ["".join(w) for w, e in M.paths(0, 3)]
        rep.case(key=repr(d), nontrivial=len(set(words)) < len(words), sample=inp if t == 0 else None)
        if len(rep.failures) >= 3:
            return


@bounded(P, "builtin_random_and_free", functions=F_ALL, note="built-in automata, random automata up to 8 states / 4 labels, freely reduced enumeration")
def builtin_random_and_free(tier, rng, rep):
    rep.rule = ("built-in automata over <= 4 generator letters (length <= 3); random automata 4..8 states over 2..4 labels (length <= 3); freely_reduced_elements and free_words_* for 1..2 generators "
                "(each freely reduced word exactly once); projective representation wrapper; non-trivial = >= 4 states")
    N = 40 if tier == 'thorough' else 10
    rep.bound = f"{N} random automata + built-ins + free groups"
    for t in range(N):
        n = int(rng.integers(4, 9)); labels = ["a", "b", "c", "d"][:int(rng.integers(2, 5))]
        d = {i: {} for i in range(n)}
        for i in range(n):
            for l in labels:
                if rng.random() < 0.5:
                    d[i][l] = int(rng.integers(0, n))
        inp = {"graph_dict": {str(k): v for k, v in d.items()}, "start": [0]}
        rep.attempt("enumeration_runs", inp, lambda: check_enumeration(rep, d, [0], 3, inp))
        rep.case(key=("rand", t), nontrivial=True, sample=inp if t == 0 else None)
        if len(rep.failures) >= 3:
            return
    for name in sorted(fsa.list_builtins()):
        F = fsa.load_builtin(name)
        d = {v: dict(nb) for v, nb in F.graph_dict.items()}
        labels = sorted({l for nb in d.values() for l in nb})
        if not set(x.lower() for x in labels) <= set("abcd") or len(d) > 40:
            continue
        Mm = Model.from_graph_dict(d)
        rp, mats = make_rep(labels)
        inp = {"builtin": name}

        def body():
            for length in range(0, 4):
                ms, ws = rp.automaton_accepted(F, length, with_words=True)
                want = ["".join(w) for n in range(length + 1) for w, _ in Mm.paths(F.start_vertices[0], n)]
                if sorted(ws) != sorted(want):
                    rep.fail("returned_words_are_exactly_the_accepted_words", name, {**inp, "length": length}); return
                for Mx, w in zip(ms, ws):
                    if not np.allclose(Mx, image(mats, w), rtol=0, atol=1e-9):
                        rep.fail("matrix_is_image_of_its_word", f"{name} {w!r}", {**inp, "length": length}); return
        rep.attempt("enumeration_runs", inp, body)
        rep.case(key=("builtin", name))
    # free groups
    for gens in (["a"], ["a", "b"], ["a", "b", "c", "d", "e"], ["e"], ["x", "e", "z"], ["f", "e"]):
        for cls in (Representation, pr.ProjectiveRepresentation):
            rp, mats = make_rep(gens, cls)
            allg = gens + [g.upper() for g in gens]

            def reduced(n):
                out = [""]
                for _ in range(n):
                    out = [w + g for w in out for g in allg if not w or g != w[-1].swapcase()]
                return out
            inp = {"free_group_generators": gens, "class": cls.__name__}

            def body():
                for length in range(0, 5 if len(gens) <= 2 else 4 if len(gens) <= 3 else 3):
                    if length == 2:
                        # history: an automaton some other caller obtained from free_automaton earlier and edited in place
                        # (FSA is mutable) is that caller's own object; later enumerations do not depend on it
                        for form in (list(gens), tuple(gens), "".join(gens)):
                            other = fsa.free_automaton(form)
                            other.delete_vertex(gens[0])
                            inp["history"] = "free_automaton(gens) obtained and delete_vertex(%r) applied to it before the enumeration of lengths >= 2" % gens[0]
                    for maxlen in (True, False):
                        res = rp.freely_reduced_elements(length, maxlen=maxlen, with_words=True)
                        ms, ws = res
                        want = [w for n in (range(length + 1) if maxlen else [length]) for w in reduced(n)]
                        if sorted(ws) != sorted(want):
                            rep.fail("freely_reduced_words_exactly_once", f"length {length} maxlen {maxlen}: {len(ws)} words vs {len(want)}", {**inp, "length": length}); return
                        arr = ms.proj_data if hasattr(ms, "proj_data") else ms
                        for Mx, w in zip(arr, ws):
                            want_m = image(mats, w) if cls is Representation else image(mats, w).T
                            if not np.allclose(Mx, want_m, rtol=0, atol=1e-9):
                                rep.fail("matrix_is_image_of_its_word", f"free group {w!r} ({cls.__name__})", {**inp, "length": length}); return
                    if sorted(rp.free_words_of_length(length)) != sorted(reduced(length)):
                        rep.fail("free_words_of_length", f"{length}", {**inp, "length": length}); return
                    if sorted(rp.free_words_less_than(length)) != sorted(w for n in range(length) for w in reduced(n)):
                        rep.fail("free_words_less_than", f"{length}", {**inp, "length": length}); return
            rep.attempt("free_enumeration_runs", inp, body)
            rep.case(key=("free", tuple(gens), cls.__name__))


@bounded(P, "exact_integer_representations", functions=F_ALL + ["geometry_tools/utils/core.py:identity"],
         note="integer-typed representations: the image of a long positive word is an exact integer matrix (entries beyond 2^53 are not representable in float64)")
def exact_integer_representations(tier, rng, rep):
    rep.rule = ("int64 generators a=[[2,1],[1,1]], b=[[1,1],[0,1]]; automata over positive letters (one with a dead-end state); words of exactly 38..44 letters (entries up to 2^62); "
                "every returned matrix compared entry by entry with the product computed in Python integers")
    rep.bound = "4 automata x 4 lengths x 2 option sets"
    ga, gb = np.array([[2, 1], [1, 1]], dtype=np.int64), np.array([[1, 1], [0, 1]], dtype=np.int64)
    exact = {"a": np.array([[2, 1], [1, 1]], dtype=object), "b": np.array([[1, 1], [0, 1]], dtype=object)}
    autos = {"a_loop": {0: {"a": 0}}, "ab_alternate": {0: {"a": 1}, 1: {"b": 0}}, "aab_cycle": {0: {"a": 1}, 1: {"a": 2}, 2: {"b": 0}},
             "a_loop_then_dead_end": {0: {"a": 0, "b": 1}, 1: {}}}
    for nm, d in autos.items():
        for L in (38, 40, 42, 44):
            for with_words in (True, False):
                inp = {"automaton": nm, "length": L, "with_words": with_words, "dtype": "int64"}

                def body():
                    r = Representation()
                    r["a"], r["b"] = ga.copy(), gb.copy()
                    F = fsa.FSA(copy.deepcopy(d), [0])
                    res = r.automaton_accepted(F, L, maxlen=False, with_words=with_words)
                    ms, ws = res if with_words else (res, ["".join(w) for w in F.enumerate_fixed_length_paths(L)])
                    if len(ms) != len(d[0]) or len(ws) != len(ms):
                        rep.fail("returned_words_are_exactly_the_accepted_words", f"{len(ms)} matrices, {len(ws)} words", inp); return
                    for got, w in zip(ms, ws):
                        want = np.array([[1, 0], [0, 1]], dtype=object)
                        for ch in w:
                            want = want.dot(exact[ch])
                        got = np.asarray(got)
                        if not all(int(got[i, j]) == int(want[i, j]) for i in range(2) for j in range(2)):
                            rep.fail("matrix_is_image_of_its_word", f"{w[:3]}..{w[-3:]}: got {got.tolist()} (dtype {got.dtype}) expected {want.tolist()}", inp); return
                rep.attempt("integer_enumeration_runs", inp, body)
                rep.case(key=(nm, L, with_words), nontrivial=True, sample=inp if (nm, L) == ("a_loop", 40) else None)


@bounded(P, "reassigned_generators", functions=F_ALL + ["geometry_tools/representation.py:Representation._set_generator", "geometry_tools/representation.py:Representation._word_value"],
         note="history on one Representation object: enumerate, re-assign a generator (its inverse letter follows), enumerate again - with single-letter and multi-letter labels read as words; "
              "the matrices returned after the re-assignment are the images under the NEW generators (oracle: letter-by-letter products of my own copies of the matrices)")
def reassigned_generators(tier, rng, rep):
    N = 40 if tier == 'thorough' else 10
    rep.rule = ("free automaton on a, b and its even / triple versions (labels such as 'bA', 'AA'), random 3-state automata with labels from {a, b, A, B, aB, Ab, AA, bA}; enumerate to length 2..3, "
                "assign rep['a'] (or rep['b']) a new matrix, enumerate again, then assign the inverse letter directly and enumerate once more; also rep[word] and elements before / after")
    rep.bound = f"{N} rounds x 4 automata"
    pool = ["a", "b", "A", "B", "aB", "Ab", "AA", "bA", "BB"]

    def rmat():
        while True:
            M = rng.integers(-2, 3, size=(2, 2)).astype(float)
            if abs(abs(np.linalg.det(M)) - 1) < 1e-9:
                return M
    for t in range(N):
        autos = {"free": free_automaton_ab(), "free_even": free_automaton_ab().even_automaton(), "free_triple": free_automaton_ab().automaton_multiple(3)}
        d = {}
        for v in range(3):
            labs = rng.choice(pool, size=int(rng.integers(1, 4)), replace=False)
            d[v] = {str(l): int(rng.integers(0, 3)) for l in labs}
        autos["random_word_labels"] = fsa.FSA(copy.deepcopy(d), [0])
        for aname, A in autos.items():
            mats = {"a": rmat(), "b": rmat()}
            R = Representation()
            R["a"], R["b"] = mats["a"].copy(), mats["b"].copy()
            L = 2 if aname != "free" else 3
            inp = {"automaton": aname, "graph_dict": {repr(k): {l: repr(w) for l, w in nb.items()} for k, nb in A.graph_dict.items()} if aname == "random_word_labels" else aname}

            def compare(stage):
                ms, ws = R.automaton_accepted(A, L, with_words=True, edge_words=True)
                for Mx, w in zip(ms, ws):
                    want = image(mats, w)
                    if not np.all(np.abs(np.asarray(Mx, dtype=float) - want) <= 1e-9 * (1 + np.max(np.abs(want)))):
                        rep.fail("matrix_is_image_of_its_word", f"{stage}: word {w!r}: returned {np.asarray(Mx).tolist()}, image under the current generators {want.tolist()}", {**inp, "stage": stage, "word": w}); return False
                for w in ("bA", "AA", "AB", "aB", "ab"):
                    if not np.all(np.abs(np.asarray(R[w], dtype=float) - image(mats, w)) <= 1e-9 * (1 + np.max(np.abs(image(mats, w))))):
                        rep.fail("matrix_is_image_of_its_word", f"{stage}: rep[{w!r}] is not the image under the current generators", {**inp, "stage": stage, "word": w}); return False
                return True

            def body():
                if not compare("before any re-assignment"):
                    return
                g = "a" if t % 2 == 0 else "b"
                mats[g] = rmat()
                R[g] = mats[g].copy()
                if not compare(f"after rep[{g!r}] = M"):
                    return
                g2 = "b" if g == "a" else "a"
                newinv = rmat()
                mats[g2] = np.linalg.inv(newinv)
                R[g2.upper()] = newinv.copy()
                compare(f"after rep[{g2.upper()!r}] = M")
            rep.attempt("enumeration_runs", inp, body)
            rep.case(key=(t, aname), nontrivial=True, sample=inp if (t, aname) == (0, "free_even") else None)
            if len(rep.failures) >= 3:
                return


def free_automaton_ab():
    return fsa.free_automaton(["a", "b"])


@bounded(P, "relabelled_automata", functions=F_ALL + ["geometry_tools/automata/fsa.py:FSA.rename_generators"],
         note="automata relabelled before the enumeration - in place (the default) and not - by maps that permute the alphabet (a <-> b, a <-> A, cyclic shifts) or rename to fresh letters: "
              "the returned words are exactly the words of the relabelled model, each accepted by the automaton itself, and agree with its own enumeration")
def relabelled_automata(tier, rng, rep):
    N = 150 if tier == 'thorough' else 40
    rep.rule = f"free automaton on a, b and {N} random automata on 2..4 states over {{a, b, A}}; relabellings: swap a/b, swap a/A, cycle a->b->A->a, fresh letters; in place and as a copy; check_enumeration (all options) to length 3"
    rep.bound = f"(1 + {N}) automata x 4 maps x 2 modes"
    maps = {"swap_ab": {"a": "b", "b": "a", "A": "A", "B": "B"}, "swap_aA": {"a": "A", "A": "a", "b": "b", "B": "B"}, "cycle": {"a": "b", "b": "A", "A": "a", "B": "B"},
            "fresh": {"a": "x", "b": "z", "A": "c", "B": "d"}}
    cases = [{v: dict(nb) for v, nb in fsa.free_automaton(["a", "b"]).graph_dict.items()}]
    for _ in range(N):
        nv = int(rng.integers(2, 5))
        d = {}
        for v in range(nv):
            d[v] = {l: int(rng.integers(0, nv)) for l in ["a", "b", "A"] if rng.random() < 0.75}
        cases.append(d)
    for t, d in enumerate(cases):
        start = [next(iter(d))]
        for mname, mp in maps.items():
            for inplace in (True, False):
                inp = {"graph_dict": {repr(k): {l: repr(w) for l, w in nb.items()} for k, nb in d.items()}, "relabelling": mname, "inplace": inplace}
                dm = {v: {mp[l]: w for l, w in nb.items()} for v, nb in d.items()}
                M = Model.from_graph_dict(dm)

                def body():
                    F = fsa.FSA(copy.deepcopy(d), list(start))
                    G = F.rename_generators(mp, inplace=inplace)
                    G = F if inplace or G is None else G
                    labels = sorted({l for nb in dm.values() for l in nb}) or ["a"]
                    R, mats = make_rep(labels)
                    for L in range(0, 4):
                        ms, ws = R.automaton_accepted(G, L, with_words=True)
                        want = sorted("".join(w) for n in range(L + 1) for w, _ in M.paths(start[0], n))
                        if sorted(ws) != want:
                            rep.fail("returned_words_are_exactly_the_accepted_words", f"after {mname} ({'in place' if inplace else 'copy'}), length {L}: {sorted(ws)} vs {want}", {**inp, "length": L}); return
                        own = sorted(G.enumerate_words(L, start_vertex=start[0]))
                        if own != want:
                            rep.fail("agrees_with_enumerate_words", f"after {mname} ({'in place' if inplace else 'copy'}), length {L}: the automaton's own enumeration {own} vs {want}", {**inp, "length": L}); return
                        for w in ws:
                            if not G.accepts(w, start_vertex=start[0]):
                                rep.fail("returned_words_are_exactly_the_accepted_words", f"after {mname}: returned word {w!r} is rejected by the automaton itself", {**inp, "word": w}); return
                        for Mx, w in zip(ms, ws):
                            if not np.array_equal(np.asarray(Mx), image(mats, w)):
                                rep.fail("matrix_is_image_of_its_word", f"after {mname}: {w!r}", {**inp, "word": w}); return
                rep.attempt("enumeration_runs", inp, body)
                rep.case(key=(t, mname, inplace), nontrivial=mname != "fresh", sample=inp if (t, mname, inplace) == (0, "swap_aA", True) else None)
                if len(rep.failures) >= 3:
                    return


@bounded(P, "automata_sharing_a_source_dictionary", functions=F_ALL + ["geometry_tools/automata/fsa.py:FSA._from_graph_dict", "geometry_tools/automata/fsa.py:FSA.__init__"],
         note="history: the automaton A is built from a dictionary that the caller then edits (inner dictionaries included) to describe the next automaton, and a second automaton B is built from "
              "A.graph_dict and edited in place; A's accepted words, its own enumeration and the returned matrices remain those of the automaton A was built as")
def automata_sharing_a_source_dictionary(tier, rng, rep):
    N = 120 if tier == 'thorough' else 30
    rep.rule = "random automata on 2..4 states over {a, b, A}; edits: caller adds / removes / redirects entries of the inner dictionaries; B = FSA(A.graph_dict) then add_edges / delete_vertex / recurrent(inplace=True) on B; lengths 0..3"
    rep.bound = f"{N} automata x 2 histories"
    for t in range(N):
        nv = int(rng.integers(2, 5))
        d = {v: {l: int(rng.integers(0, nv)) for l in ["a", "b", "A"] if rng.random() < 0.7} for v in range(nv)}
        d0 = copy.deepcopy(d)
        M = Model.from_graph_dict(d0)
        for hist in ("caller_edits_its_dictionary", "second_automaton_from_graph_dict"):
            inp = {"graph_dict": {str(k): v for k, v in d0.items()}, "history": hist}

            def body():
                src = copy.deepcopy(d0)
                A = fsa.FSA(src, [0])
                if hist == "caller_edits_its_dictionary":
                    for v in list(src):
                        for l in ["a", "b", "A"]:
                            r = rng.random()
                            if r < 0.3:
                                src[v][l] = int(rng.integers(0, nv))
                            elif r < 0.5:
                                src[v].pop(l, None)
                    src[nv] = {"a": 0}
                else:
                    B = fsa.FSA(A.graph_dict, list(A.start_vertices))
                    free = [(v, l) for v in range(nv) for l in ["a", "b", "A"] if l not in d0[v]]
                    for (v, l) in free[:2]:
                        B.add_edges([(v, int(rng.integers(0, nv)), l)])
                    if nv > 2:
                        B.delete_vertex(nv - 1)
                    B.recurrent(inplace=True)
                R, mats = make_rep(["a", "b", "A"])
                for L in range(0, 4):
                    want = sorted("".join(w) for n in range(L + 1) for w, _ in M.paths(0, n))
                    ms, ws = R.automaton_accepted(A, L, with_words=True)
                    own = sorted(A.enumerate_words(L, start_vertex=0))
                    if sorted(ws) != want:
                        rep.fail("returned_words_are_exactly_the_accepted_words", f"after {hist}, length {L}: {sorted(ws)} vs {want}", {**inp, "length": L}); return
                    if own != want:
                        rep.fail("agrees_with_enumerate_words", f"after {hist}, length {L}: the automaton's own enumeration {own} is not that of the automaton it was built as ({want})", {**inp, "length": L}); return
                    for w in want:
                        if not A.accepts(w):
                            rep.fail("returned_words_are_exactly_the_accepted_words", f"after {hist}: {w!r} is no longer accepted", {**inp, "word": w}); return
                    for Mx, w in zip(ms, ws):
                        if not np.array_equal(np.asarray(Mx), image(mats, w)):
                            rep.fail("matrix_is_image_of_its_word", f"{w!r}", {**inp, "word": w}); return
            rep.attempt("enumeration_runs", inp, body)
            rep.case(key=(t, hist), nontrivial=True, sample=inp if (t, hist) == (0, "caller_edits_its_dictionary") else None)
            if len(rep.failures) >= 3:
                return


@bounded(P, "pruned_and_edited_automata", functions=F_ALL + ["geometry_tools/automata/fsa.py:FSA.delete_vertex", "geometry_tools/automata/fsa.py:FSA.recurrent", "geometry_tools/automata/fsa.py:FSA.add_edges"],
         note="automata edited before the enumeration: a vertex with several parallel incoming edges deleted, dead ends pruned (in place and as a copy), edges added afterwards; the returned "
              "words are those of the edited model, the automaton's own enumeration and acceptance agree with them")
def pruned_and_edited_automata(tier, rng, rep):
    N = 200 if tier == 'thorough' else 50
    rep.rule = f"{N} random automata on 3..5 states over {{a, b, A}} with few distinct targets per state (parallel edges are common); edits: delete_vertex of a non-start state, recurrent(inplace=True), recurrent() copy, add_edges after pruning; lengths 0..3"
    rep.bound = f"{N} automata x 3 edits"
    labels = ["a", "b", "A"]
    for t in range(N):
        nv = int(rng.integers(3, 6))
        d = {}
        for v in range(nv):
            tg = [int(rng.integers(0, nv)), int(rng.integers(0, nv))]
            d[v] = {l: tg[int(rng.integers(0, 2))] for l in labels if rng.random() < 0.8}
        for edit in ("delete_vertex", "recurrent_inplace", "recurrent_copy"):
            inp = {"graph_dict": {str(k): v for k, v in d.items()}, "edit": edit}

            def body():
                F = fsa.FSA(copy.deepcopy(d), [0])
                M = Model.from_graph_dict(d)
                if edit == "delete_vertex":
                    # the non-start state with the most parallel incoming edges
                    cand = sorted(range(1, nv), key=lambda v: -max([sum(1 for (s, l, w) in M.E if s == u and w == v) for u in range(nv)] + [0]))
                    v = cand[0]
                    F.delete_vertex(v); M.delete_vertex(v)
                    G = F
                else:
                    keep = M.recurrent_vertices()
                    for v in list(M.V - keep):
                        M.delete_vertex(v)
                    if edit == "recurrent_inplace":
                        F.recurrent(inplace=True); G = F
                    else:
                        G = F.recurrent()
                if 0 not in M.V:
                    return
                R, mats = make_rep(labels)
                for L in range(0, 4):
                    want = sorted("".join(w) for n in range(L + 1) for w, _ in M.paths(0, n))
                    ms, ws = R.automaton_accepted(G, L, with_words=True)
                    if sorted(ws) != want:
                        rep.fail("returned_words_are_exactly_the_accepted_words", f"after {edit}, length {L}: {sorted(ws)} vs {want}", {**inp, "length": L}); return
                    try:
                        own = sorted(G.enumerate_words(L, start_vertex=0))
                    except Exception as e:
                        rep.fail("agrees_with_enumerate_words", f"after {edit}, length {L}: the automaton's own enumeration raises {type(e).__name__}: {e}", {**inp, "length": L}); return
                    if own != want:
                        rep.fail("agrees_with_enumerate_words", f"after {edit}, length {L}: the automaton's own enumeration {own} vs {want}", {**inp, "length": L}); return
                    for w in itertools.product(labels, repeat=min(L, 2)):
                        if G.accepts("".join(w)) != (M.follow(0, w) is not None):
                            rep.fail("returned_words_are_exactly_the_accepted_words", f"after {edit}: accepts({''.join(w)!r}) disagrees with the returned words", {**inp, "word": "".join(w)}); return
            rep.attempt("enumeration_runs", inp, body)
            rep.case(key=(t, edit), nontrivial=True, sample=inp if (t, edit) == (0, "delete_vertex") else None)
            if len(rep.failures) >= 3:
                return


@bounded(P, "freely_reduced_enumeration_along_a_history", functions=["geometry_tools/representation.py:Representation.freely_reduced_elements", "geometry_tools/representation.py:Representation._set_generator",
                                                                     "geometry_tools/automata/fsa.py:free_automaton"],
         note="freely reduced enumeration on ONE representation object along a history: enumerate, add a generator with a new name, enumerate again, re-assign a generator, enumerate again: "
              "each time every freely reduced word in the CURRENT generators is returned exactly once, with its image under the current matrices")
def freely_reduced_enumeration_along_a_history(tier, rng, rep):
    N = 20 if tier == 'thorough' else 6
    rep.rule = "start with generator a (or a, b); add b, then c; re-assign a; lengths 0..3, maxlen on / off, with and without the word list"
    rep.bound = f"{N} histories"

    def reduced_words(gens, L, maxlen):
        letters = [g for g in gens] + [g.upper() for g in gens]
        out = []
        for n in (range(L + 1) if maxlen else [L]):
            for w in itertools.product(letters, repeat=n):
                if all(w[i] != w[i + 1].swapcase() for i in range(n - 1)):
                    out.append("".join(w))
        return out

    def rmat():
        while True:
            M = rng.integers(-2, 3, size=(2, 2)).astype(float)
            if abs(abs(np.linalg.det(M)) - 1) < 1e-9:
                return M
    for t in range(N):
        mats = {}
        R = Representation()
        hist = []
        inp = {"round": t}

        def check(stage):
            gens = sorted(mats)
            for L in (0, 1, 2, 3):
                for maxlen in (True, False):
                    want = sorted(reduced_words(gens, L, maxlen))
                    ms, ws = R.freely_reduced_elements(L, maxlen=maxlen, with_words=True)
                    if sorted(ws) != want:
                        missing = [w for w in want if w not in ws][:4]
                        rep.fail("each_freely_reduced_word_exactly_once", f"{stage}: generators {gens}, length {L}, maxlen={maxlen}: {len(ws)} words returned, {len(want)} expected (missing e.g. {missing})", {**inp, "history": list(hist), "length": L}); return False
                    for Mx, w in zip(ms, ws):
                        if not np.allclose(np.asarray(Mx, dtype=float), image(mats, w)):
                            rep.fail("matrix_is_image_of_its_word", f"{stage}: {w!r}", {**inp, "history": list(hist), "word": w}); return False
                    only = R.freely_reduced_elements(L, maxlen=maxlen)
                    if len(only) != len(want):
                        rep.fail("each_freely_reduced_word_exactly_once", f"{stage}: without the word list {len(only)} matrices for {len(want)} words", {**inp, "history": list(hist)}); return False
            return True

        def body():
            first = ["a"] if t % 2 == 0 else ["a", "b"]
            for g in first:
                mats[g] = rmat(); R[g] = mats[g].copy()
            hist.append("set " + ",".join(first))
            if not check("after the first generators"):
                return
            for g in [x for x in "bc" if x not in mats]:
                mats[g] = rmat(); R[g] = mats[g].copy(); hist.append("add " + g)
                if not check(f"after adding the generator {g!r}"):
                    return
            mats["a"] = rmat(); R["a"] = mats["a"].copy(); hist.append("re-assign a")
            check("after re-assigning a")
        rep.attempt("enumeration_runs", inp, body)
        rep.case(key=(t,), nontrivial=True, sample={"history": "set a; add b; add c; re-assign a"} if t == 0 else None)
        if len(rep.failures) >= 3:
            return
