"""C07 - Coxeter automata accept exactly the geodesic / shortlex normal forms (DESIGN.md section 3, C07).

The deciding claim (accepted <=> reduced, for EVERY Coxeter matrix) is the Brink-Howlett theorem; no contract within reach
of the installed back ends decides it, so the level is 'exploration' (bounded).  The oracle is an independent solution of the
word problem: Tits' theorem (two reduced words represent the same element iff they are related by braid moves; a word is
non-reduced iff braid moves bring two equal letters together)."""
import itertools
import os
import time
import numpy as np
from vf.api import bounded
from geometry_tools import coxeter
from geometry_tools.automata import fsa, coxeter_automaton
from contracts.fsa_model import coherence_error, views

P = "C07"
CA = "geometry_tools/automata/coxeter_automaton.py:"
F_ALL = [CA + "find_small_roots", CA + "find_root_from_vector", CA + "find_word_to_negative", CA + "apply_gen_to_root", CA + "apply_gen_to_node",
         CA + "generate_automaton", CA + "generate_automaton_coxeter_matrix", "geometry_tools/coxeter.py:CoxeterGroup.automaton",
         "geometry_tools/automata/fsa.py:FSA.rename_generators", "geometry_tools/automata/fsa.py:FSA.automaton_multiple", "geometry_tools/automata/fsa.py:FSA.even_automaton"]


def braid_class(word, M):
    seen = {word}
    stack = [word]
    while stack:
        w = stack.pop()
        for i in range(len(w) - 1):
            s, t = w[i], w[i + 1]
            if s == t:
                continue
            m = M[s][t]
            if m >= 2 and i + m <= len(w) and all(w[i + k] == (s if k % 2 == 0 else t) for k in range(m)):
                new = w[:i] + tuple((t if k % 2 == 0 else s) for k in range(m)) + w[i + m:]
                if new not in seen:
                    seen.add(new)
                    stack.append(new)
    return seen


class Oracle:
    def __init__(self, M):
        self.M = M
        self.rank = len(M)
        self.cache = {(): (True, ())}

    def info(self, w):
        """(is_reduced, canonical representative = shortlex-least word of the element) for a word w (tuple of ints)"""
        if w in self.cache:
            return self.cache[w]
        pre_red, _ = self.info(w[:-1])
        if not pre_red:
            res = (False, None)
        else:
            cls = braid_class(w, self.M)
            if any(x[i] == x[i + 1] for x in cls for i in range(len(x) - 1)):
                res = (False, None)
            else:
                res = (True, min(cls))
        self.cache[w] = res
        return res


def matrices(rank, labels_set, rng=None, limit=None):
    """Coxeter matrices of the given rank with off-diagonal labels from labels_set, up to relabelling (canonical form under permutations)"""
    pairs = list(itertools.combinations(range(rank), 2))
    seen = set()
    out = []
    for labels in itertools.product(labels_set, repeat=len(pairs)):
        M = [[1] * rank for _ in range(rank)]
        for (i, j), l in zip(pairs, labels):
            M[i][j] = M[j][i] = l
        canon = min(tuple(tuple(M[p[i]][p[j]] for j in range(rank)) for i in range(rank)) for p in itertools.permutations(range(rank)))
        if canon in seen:
            continue
        seen.add(canon)
        out.append(M)
    if limit and len(out) > limit:
        idx = sorted(rng.choice(len(out), size=limit, replace=False))
        out = [out[i] for i in idx]
    return out


def check_group(rep, M, L, inp):
    rank = len(M)
    orc = Oracle([[x if x > 0 else 0 for x in row] for row in M])      # 0 = no braid relation
    G = coxeter.CoxeterGroup(matrix=M)
    names = G.ordered_gens
    geo = G.automaton(shortlex=False)
    slx = G.automaton(shortlex=True)
    for nm, A in (("geodesic", geo), ("shortlex", slx)):
        err = coherence_error(A)
        if err:
            rep.fail("automaton_views", f"{nm}: {err}", inp); return False
    # the same automata with integer generator labels 0..rank-1 (the raw output of the generator module, and the automaton of a
    # group given by a diagram whose nodes are numbered from 0): words are tuples of integers
    raw_geo = coxeter_automaton.generate_automaton_coxeter_matrix(M, False)
    raw_slx = coxeter_automaton.generate_automaton_coxeter_matrix(M, True)
    for n in range(0, min(L, 4) + 1):
        for w in itertools.product(range(rank), repeat=n):
            red, canon = orc.info(w)
            if raw_geo.accepts(w) != red:
                rep.fail("geodesic_accepts_iff_reduced", f"integer-labelled automaton, word {w}: reduced={red}", {**inp, "word": list(w), "labels": "integers"}); return False
            if raw_slx.accepts(w) != (red and canon == w):
                rep.fail("shortlex_accepts_exactly_the_least_reduced_word", f"integer-labelled automaton, word {w}", {**inp, "word": list(w), "labels": "integers"}); return False
    if rank >= 2:
        dia = [(i, j, M[i][j]) for i in range(rank) for j in range(i + 1, rank)]
        Gd = coxeter.CoxeterGroup(diagram=dia)
        dgeo = Gd.automaton(shortlex=False)
        pos = {g: k for k, g in enumerate(Gd.ordered_gens)}
        if sorted(pos) == list(range(rank)):
            for n in range(0, min(L, 4) + 1):
                for w in itertools.product(range(rank), repeat=n):
                    red, _ = orc.info(w)
                    if dgeo.accepts(w) != red:
                        rep.fail("geodesic_accepts_iff_reduced", f"group given by a diagram on the nodes 0..{rank - 1}, word {w}: reduced={red}", {**inp, "word": list(w), "labels": "diagram nodes"}); return False
        # the same diagram handed over as one-shot iterables (an iterator, a generator expression) and as a tuple
        for pk_name, pk in (("iterator", lambda: iter(list(dia))), ("generator_expression", lambda: (e for e in dia)), ("tuple", lambda: tuple(dia))):
            Gp = coxeter.CoxeterGroup(diagram=pk())
            if sorted(Gp.ordered_gens) != list(range(rank)):
                continue
            gp = Gp.automaton(shortlex=False)
            for n in range(0, min(L, 4) + 1):
                for w in itertools.product(range(rank), repeat=n):
                    red, _ = orc.info(w)
                    if gp.accepts(w) != red:
                        rep.fail("geodesic_accepts_iff_reduced", f"diagram given as {pk_name}, word {w}: reduced={red}", {**inp, "word": list(w), "diagram_packaging": pk_name}); return False
        # diagrams whose integer node nnames overlap 0..rank-1 without matching the positions (the automaton is generated over 0..rank-1 and then renamed)
        for nnames in ([[1, 0, 2], [1, 2, 3], [2, 0, 1], [2, 1, 0]] if rank == 3 else []) + ([[1, 0], [1, 2]] if rank == 2 else []):
            dia2 = [(nnames[i], nnames[j], M[i][j]) for i in range(rank) for j in range(i + 1, rank)]
            G2 = coxeter.CoxeterGroup(diagram=dia2)
            if sorted(G2.ordered_gens) != sorted(nnames):
                continue
            where = {g: nnames.index(g) for g in nnames}            # node name -> row of M
            g_geo, g_slx = G2.automaton(shortlex=False), G2.automaton(shortlex=True)
            for n in range(0, min(L, 4) + 1):
                n_elems = len({orc.info(w)[1] for w in itertools.product(range(rank), repeat=n) if orc.info(w)[0]})
                n_slx = 0
                for w in itertools.product(nnames, repeat=n):
                    red, _ = orc.info(tuple(where[g] for g in w))
                    if g_geo.accepts(w) != red:
                        rep.fail("geodesic_accepts_iff_reduced", f"diagram with nodes named {nnames}, word {w}: reduced={red}", {**inp, "word": list(w), "node_nnames": nnames}); return False
                    acc = g_slx.accepts(w)
                    if acc and not red:
                        rep.fail("shortlex_accepts_exactly_the_least_reduced_word", f"diagram with nodes named {nnames}: non-reduced word {w} accepted", {**inp, "word": list(w), "node_nnames": nnames}); return False
                    n_slx += bool(acc)
                if n_slx != n_elems:
                    rep.fail("growth_series", f"diagram with nodes named {nnames}, length {n}: {n_slx} accepted shortlex words, {n_elems} elements", {**inp, "length": n, "node_nnames": nnames}); return False
    even_geo = G.automaton(shortlex=False, even_length=True)
    even_slx = G.automaton(shortlex=True, even_length=True)
    can = G.canonical_representation()
    counts = {}
    images = {}
    for n in range(0, L + 1):
        for w in itertools.product(range(rank), repeat=n):
            red, canon = orc.info(w)
            word = "".join(names[i] for i in w)
            if geo.accepts(word) != red:
                rep.fail("geodesic_accepts_iff_reduced", f"word {word!r}: reduced={red}", {**inp, "word": word}); return False
            is_nf = red and canon == w
            if slx.accepts(word) != is_nf:
                rep.fail("shortlex_accepts_exactly_the_least_reduced_word", f"word {word!r}: reduced={red}, shortlex-least of its element: {canon}", {**inp, "word": word}); return False
            if n % 2 == 0:
                blocks = tuple(word[i:i + 2] for i in range(0, n, 2))
                if even_geo.accepts(blocks) != red or even_slx.accepts(blocks) != is_nf:
                    rep.fail("even_variant_accepts_exactly_even_accepted_words", f"word {word!r}", {**inp, "word": word}); return False
            if is_nf:
                counts[n] = counts.get(n, 0) + 1
                if n <= min(L, 5):
                    images[w] = np.asarray(can[word], dtype=float)
                    if not np.all(np.isfinite(images[w])):
                        rep.fail("distinct_normal_forms_have_distinct_images", f"the canonical image of the normal form {word!r} has non-finite entries (distinctness would hold vacuously)", {**inp, "word": word}); return False
    # growth series: accepted shortlex words of length n = number of group elements of length n
    for n in range(0, L + 1):
        elems = {orc.info(w)[1] for w in itertools.product(range(rank), repeat=n) if orc.info(w)[0]}
        own = sum(1 for _ in slx.enumerate_fixed_length_paths(n))
        if own != len(elems) or counts.get(n, 0) != len(elems):
            rep.fail("growth_series", f"length {n}: {own} accepted shortlex words, {len(elems)} elements", {**inp, "length": n}); return False
    # faithfulness: distinct normal forms have distinct images
    keys = list(images)
    for a in range(len(keys)):
        for b in range(a + 1, len(keys)):
            if np.max(np.abs(images[keys[a]] - images[keys[b]])) < 1e-7:
                rep.fail("distinct_normal_forms_have_distinct_images", f"{keys[a]} and {keys[b]}", {**inp, "words": [list(keys[a]), list(keys[b])]}); return False
    return True


@bounded(P, "rank2_and_rank3", functions=F_ALL, note="all Coxeter matrices of rank 2..3 with labels in {2..7, infinity} up to relabelling, all words up to length L")
def rank2_and_rank3(tier, rng, rep):
    L2, L3 = (10, 8) if tier == 'thorough' else (9, 6)
    labs = [2, 3, 4, 5, 6, 7, 0]
    mats2 = matrices(2, labs)
    mats3 = matrices(3, labs, rng, None if tier == 'thorough' else 30)
    rep.rule = (f"rank 2: all 7 labels, words to length {L2}; rank 3: {'all' if tier == 'thorough' else '30 sampled of the'} 84 label triples up to relabelling, all words to length {L3}; "
                "infinite label written 0 (and -1 for a second copy); spherical, affine and hyperbolic types alike; non-trivial = rank 3 or label >= 6")
    rep.exhaustive = tier == 'thorough'
    rep.bound = f"{len(mats2)} + {len(mats3)} matrices"
    for M in mats2 + mats3:
        L = L2 if len(M) == 2 else L3
        inp = {"coxeter_matrix": M}
        rep.attempt("coxeter_automaton_runs", inp, lambda: check_group(rep, M, L, inp))
        lab = [M[i][j] for i in range(len(M)) for j in range(i + 1, len(M))]
        rep.case(key=repr(M), nontrivial=(len(M) == 3 or max(lab) >= 6), sample=inp if lab == [3, 3, 4] else None)
        if len(rep.failures) >= 3:
            return
    # infinite label written as -1
    for M in ([[1, -1], [-1, 1]], [[1, 3, -1], [3, 1, 2], [-1, 2, 1]]):
        inp = {"coxeter_matrix": M}
        rep.attempt("coxeter_automaton_runs", inp, lambda: check_group(rep, M, 6, inp))
        rep.case(key=repr(M))


@bounded(P, "rank4_and_rank5", functions=F_ALL, note="selected and random Coxeter matrices of rank 4 and 5")
def rank4_and_rank5(tier, rng, rep):
    N4, N5 = (25, 6) if tier == 'thorough' else (6, 2)
    L4, L5 = (6, 5) if tier == 'thorough' else (5, 4)
    rep.rule = f"rank 4: A4, B4, D4, F4, the right-angled square and {N4} random matrices with labels in {{2,3,4,5,0}}; rank 5: {N5} random; words to length {L4} / {L5}; repeated calls in one process (history)"
    named = {"A4": [3, 2, 2, 3, 2, 3], "B4": [3, 2, 2, 3, 2, 4], "D4": [3, 2, 2, 3, 3, 2], "F4": [3, 2, 2, 4, 2, 3], "square": [0, 2, 0, 0, 2, 0]}
    cases = []
    for nm, lab in named.items():
        cases.append((nm, lab, 4))
    for t in range(N4):
        cases.append((f"rand4_{t}", [int(x) for x in rng.choice([2, 2, 3, 3, 4, 5, 0], size=6)], 4))
    for t in range(N5):
        cases.append((f"rand5_{t}", [int(x) for x in rng.choice([2, 2, 2, 3, 3, 4, 0], size=10)], 5))
    rep.bound = f"{len(cases)} matrices"
    t_start = time.time()
    t_max = 0.6 * float(os.environ.get("VF_OB_BUDGET", "900" if tier == 'thorough' else "150"))
    for done, (nm, lab, rank) in enumerate(cases):
        if time.time() - t_start > t_max:       # some random rank-5 groups have very large small-root automata
            rep.bound = f"{done} of {len(cases)} matrices (stopped at 60% of the per-obligation time budget)"
            break
        pairs = list(itertools.combinations(range(rank), 2))
        M = [[1] * rank for _ in range(rank)]
        for (i, j), l in zip(pairs, lab):
            M[i][j] = M[j][i] = l
        inp = {"name": nm, "coxeter_matrix": M}
        rep.attempt("coxeter_automaton_runs", inp, lambda: check_group(rep, M, L4 if rank == 4 else L5, inp))
        rep.case(key=nm, nontrivial=True, sample=inp if nm == "A4" else None)
        if len(rep.failures) >= 3:
            return


# ---------------------------------------------------------------------------------------------- long words, full growth series
class RootOracle:
    """Independent solution of the word problem for words of any length: the geometric representation on the root space
    (Bourbaki, Lie IV-VI, ch. V par. 4): w s_i is longer than w iff w(alpha_i) is a positive root.  Written from the Coxeter
    matrix with plain NumPy; nothing of the library is used."""
    def __init__(self, M):
        self.rank = len(M)
        self.B = np.array([[1.0 if i == j else (-1.0 if M[i][j] <= 0 else -np.cos(np.pi / M[i][j])) for j in range(self.rank)] for i in range(self.rank)])
        self.S = []
        for i in range(self.rank):
            R = np.identity(self.rank)
            R[i, :] -= 2 * self.B[i, :]            # s_i(v) = v - 2 B(v, e_i) e_i  in coordinates on the simple roots
            self.S.append(R)

    @staticmethod
    def positive(v):
        return v[np.argmax(np.abs(v))] > 0

    def matrix(self, w):
        g = np.identity(self.rank)
        for s in w:
            g = g @ self.S[s]
        return g

    def reduced(self, w):
        g = np.identity(self.rank)
        for s in w:
            if not self.positive(g[:, s]):
                return False
            g = g @ self.S[s]
        return True

    def shortlex_form(self, w):
        """shortlex-least reduced word of the element of the REDUCED word w: len(w) times the least generator s with l(s g) < l(g),
        i.e. with g^-1(alpha_s) negative; g^-1 is kept as a product of reflections (no matrix inversion)"""
        ginv = np.identity(self.rank)
        for s in w:
            ginv = self.S[s] @ ginv
        out = []
        for _ in range(len(w)):
            for s in range(self.rank):
                if not self.positive(ginv[:, s]):
                    out.append(s)
                    ginv = ginv @ self.S[s]
                    break
            else:
                raise RuntimeError("no descent found")
        return tuple(out)


def _path_counts(A, L):
    """number of accepted words of each length 0..L from the start state (dynamic programming on the outgoing view)"""
    cur = {A.start_vertices[0]: 1}
    out = [1]
    for _ in range(L):
        nxt = {}
        for v, c in cur.items():
            for w_, labs in A._out_dict[v].items():
                nxt[w_] = nxt.get(w_, 0) + c * len(labs)
        cur = nxt
        out.append(sum(cur.values()))
    return out


FINITE = {"A3": ([[1, 3, 2], [3, 1, 3], [2, 3, 1]], (2, 3, 4)), "B3": ([[1, 3, 2], [3, 1, 4], [2, 4, 1]], (2, 4, 6)), "H3": ([[1, 5, 2], [5, 1, 3], [2, 3, 1]], (2, 6, 10)),
          "I2_7": ([[1, 7], [7, 1]], (2, 7)), "A1xA1xA1": ([[1, 2, 2], [2, 1, 2], [2, 2, 1]], (2, 2, 2)),
          "A4": ([[1, 3, 2, 2], [3, 1, 3, 2], [2, 3, 1, 3], [2, 2, 3, 1]], (2, 3, 4, 5)), "B4": ([[1, 3, 2, 2], [3, 1, 3, 2], [2, 3, 1, 4], [2, 2, 4, 1]], (2, 4, 6, 8)),
          "D4": ([[1, 3, 2, 2], [3, 1, 3, 3], [2, 3, 1, 2], [2, 3, 2, 1]], (2, 4, 4, 6)), "F4": ([[1, 3, 2, 2], [3, 1, 4, 2], [2, 4, 1, 3], [2, 2, 3, 1]], (2, 6, 8, 12)),
          "H4": ([[1, 3, 2, 2], [3, 1, 3, 2], [2, 3, 1, 5], [2, 2, 5, 1]], (2, 12, 20, 30)), "H4_reversed": ([[1, 5, 2, 2], [5, 1, 3, 2], [2, 3, 1, 3], [2, 2, 3, 1]], (2, 12, 20, 30)),
          "A5": ([[1, 3, 2, 2, 2], [3, 1, 3, 2, 2], [2, 3, 1, 3, 2], [2, 2, 3, 1, 3], [2, 2, 2, 3, 1]], (2, 3, 4, 5, 6))}
INFINITE = {"237": [[1, 3, 2], [3, 1, 7], [2, 7, 1]], "affine_A2": [[1, 3, 3], [3, 1, 3], [3, 3, 1]], "ideal": [[1, 0, 0], [0, 1, 0], [0, 0, 1]],
            "compact_tetrahedral_353": [[1, 3, 2, 2], [3, 1, 5, 2], [2, 5, 1, 3], [2, 2, 3, 1]], "affine_A4": [[1, 3, 2, 2, 3], [3, 1, 3, 2, 2], [2, 3, 1, 3, 2], [2, 2, 3, 1, 3], [3, 2, 2, 3, 1]]}


@bounded(P, "long_words_and_full_growth_series", functions=F_ALL,
         note="finite Coxeter groups up to H4 (60 small roots): the whole growth series of the shortlex automaton equals the Poincare polynomial prod (1 + q + ... + q^(d_i - 1)) over the degrees; "
              "long words (up to the longest element, resp. length 20) against the root-positivity oracle; infinite groups with long words")
def long_words_and_full_growth_series(tier, rng, rep):
    NW = 400 if tier == 'thorough' else 80
    rep.rule = (f"finite: {', '.join(FINITE)}; infinite: {', '.join(INFINITE)}; per group {NW} random walks: reduced words grown by the oracle (accepted by the geodesic automaton; accepted by the shortlex "
                "automaton iff equal to the oracle's normal form), each extended once by a letter that makes it non-reduced (rejected), and random accepted paths of both automata (reduced / normal forms)")
    rep.bound = f"{len(FINITE) + len(INFINITE)} groups x {NW} walks"
    groups = [(nm, M, deg) for nm, (M, deg) in FINITE.items()] + [(nm, M, None) for nm, M in INFINITE.items()]
    t_start = time.time()
    t_max = 0.6 * float(os.environ.get("VF_OB_BUDGET", "900" if tier == 'thorough' else "150"))
    for gi, (nm, M, deg) in enumerate(groups):
        if time.time() - t_start > t_max:
            rep.bound = f"{gi} of {len(groups)} groups (stopped at 60% of the per-obligation time budget)"
            break
        inp = {"name": nm, "coxeter_matrix": M}
        rank = len(M)

        def body():
            orc = RootOracle(M)
            geo = coxeter_automaton.generate_automaton_coxeter_matrix(M, False)
            slx = coxeter_automaton.generate_automaton_coxeter_matrix(M, True)
            if deg is not None:
                poly = np.array([1], dtype=object)
                for d_ in deg:
                    poly = np.convolve(poly, np.ones(d_, dtype=object))
                want = [int(x) for x in poly] + [0, 0]
                got = _path_counts(slx, len(want) - 1)
                if got != want:
                    bad = next(i for i in range(len(want)) if got[i] != want[i])
                    rep.fail("growth_series", f"{nm}: {got[bad]} accepted shortlex words of length {bad}, the group has {want[bad]} elements of that length (total {sum(got)} vs order {sum(want)})", {**inp, "length": bad}); return
                gotg = _path_counts(geo, len(want) - 1)
                if gotg[len(want) - 2:] != [0, 0] or gotg[len(want) - 3] < 1:
                    rep.fail("geodesic_accepts_iff_reduced", f"{nm}: the geodesic automaton accepts {gotg[-2]} words longer than the longest element", inp); return
            Lmax = (sum(deg) - rank) if deg is not None else 20      # float64 root coordinates grow exponentially in infinite groups
            for _ in range(NW):
                # a reduced word grown letter by letter with the oracle
                w, g = [], np.identity(rank)
                target = int(rng.integers(max(1, Lmax // 2), Lmax + 1))
                while len(w) < target:
                    cand = [s for s in range(rank) if orc.positive(g[:, s])]
                    if not cand:
                        break
                    s = int(rng.choice(cand)); w.append(s); g = g @ orc.S[s]
                w = tuple(w)
                if not geo.accepts(w):
                    rep.fail("geodesic_accepts_iff_reduced", f"{nm}: reduced word of length {len(w)} rejected", {**inp, "word": list(w)}); return
                nf = orc.shortlex_form(w)
                if slx.accepts(w) != (nf == w) or not slx.accepts(nf):
                    rep.fail("shortlex_accepts_exactly_the_least_reduced_word", f"{nm}: word {w}, normal form {nf}", {**inp, "word": list(w)}); return
                desc = [s for s in range(rank) if not orc.positive(g[:, s])]
                if desc:
                    bad = w + (int(rng.choice(desc)),)
                    if geo.accepts(bad) or slx.accepts(bad):
                        rep.fail("geodesic_accepts_iff_reduced", f"{nm}: non-reduced word of length {len(bad)} accepted", {**inp, "word": list(bad)}); return
                # a random accepted path of each automaton
                for kind, A in (("geodesic", geo), ("shortlex", slx)):
                    v, p = A.start_vertices[0], []
                    for _k in range(target):
                        out = [(l, w_) for w_, labs in A._out_dict[v].items() for l in labs]
                        if not out:
                            break
                        l, v = out[int(rng.integers(0, len(out)))]
                        p.append(l)
                    p = tuple(p)
                    if not orc.reduced(p):
                        rep.fail("geodesic_accepts_iff_reduced", f"{nm}: the {kind} automaton accepts the non-reduced word {p}", {**inp, "word": list(p), "automaton": kind}); return
                    if kind == "shortlex" and orc.shortlex_form(p) != p:
                        rep.fail("shortlex_accepts_exactly_the_least_reduced_word", f"{nm}: accepted {p}, the least word of that element is {orc.shortlex_form(p)}", {**inp, "word": list(p)}); return
        rep.attempt("coxeter_automaton_runs", inp, body)
        rep.case(key=nm, nontrivial=True, sample=inp if nm == "H3" else None)
        if len(rep.failures) >= 3:
            return
