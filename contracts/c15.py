"""C15 - reflections, their walls and isometry fixed points correspond to each other (DESIGN.md section 3, C15)."""
import numpy as np
from vf.api import rcontract, bounded
from vf.rrun import _det_obj
from geometry_tools import hyperbolic as h, utils, coxeter
from geometry_tools.base import GeometryError
from contracts import spec
from contracts.c02 import spacelike, SPACELIKE_STRATA

P = "C15"
H = "geometry_tools/hyperbolic.py:"
U = "geometry_tools/utils/core.py:"


def det(m, ctx):
    return _det_obj(np.asarray(m, dtype=object)) if ctx.mode == 'sym' else np.linalg.det(np.asarray(m, dtype=float))


def _check_hyperplane_unit(ctx, tag, data, v, n):
    """data = (n+1, n+1) rows: [normal, ideal basis...]"""
    ctx.ensure_eq(tag + 'row0_is_the_normal', data[:1], v[None, :], proj=True, tol=1e-6)
    for j in range(1, n + 1):
        ctx.ensure_eq(tag + f'ideal{j}_lightlike', spec.mink(data[j], data[j]), 0, tol=1e-6)
        ctx.ensure_eq(tag + f'ideal{j}_orthogonal_to_normal', spec.mink(data[j], v), 0, tol=1e-6)
    ctx.ensure(tag + 'rows_independent', det(data, ctx) ** 2, '>', 0)


@rcontract(P, "hyperplane_from_normal", instances=[dict(n=2, stratum=s_) for s_ in SPACELIKE_STRATA] + [dict(n=3, stratum="generic")], thorough=[], timeout=150.0, max_paths=60,
           functions=[H + "Hyperplane.__init__", H + "Hyperplane._compute_ideal_basis", H + "spacelike_to", H + "DualPoint.__init__",
                      "geometry_tools/projective.py:Transformation.apply", U + "find_isometry"])
def hyperplane_from_normal(ctx, n, stratum):
    v = spacelike(ctx, 'v', n, stratum)
    Hp = h.Hyperplane(np.array(v, copy=True))
    ctx.ensure_true('shape', Hp.shape == () and Hp.proj_data.shape == (n + 1, n + 1), f"{Hp.proj_data.shape}")
    _check_hyperplane_unit(ctx, '', Hp.proj_data, v, n)


@rcontract(P, "reflection_across", instances=[dict(n=2, stratum=s_) for s_ in SPACELIKE_STRATA] + [dict(n=3, stratum="generic")], thorough=[], timeout=150.0, max_paths=60,
           functions=[H + "Subspace.reflection_across", H + "Hyperplane._data_with_dual", U + "invert"])
def reflection_across(ctx, n, stratum):
    """involutive, orientation-reversing isometry fixing every point of the hyperplane and negating its normal"""
    v = spacelike(ctx, 'v', n, stratum)
    Hp = h.Hyperplane(np.array(v, copy=True))
    R = Hp.reflection_across().proj_data
    J = spec.J(n + 1)
    I = np.identity(n + 1)
    ctx.ensure_eq('isometry', R @ J @ R.T, J, tol=1e-6)
    ctx.ensure_eq('involution', R @ R, I, tol=1e-6)
    ctx.ensure_eq('negates_the_normal', v @ R, -v, tol=1e-6)
    ib = Hp.ideal_basis
    ctx.ensure_eq('fixes_the_ideal_basis', ib @ R, ib, tol=1e-6)
    # fixes every point of the hyperplane: x with <x, v> = 0, i.e. x = y - <y,v>/<v,v> v
    y = ctx.reals('y', (n + 1,))
    x = y - v * (spec.mink(y, v) / spec.mink(v, v))
    ctx.ensure_eq('fixes_every_point_of_the_wall', x @ R, x, tol=1e-6)
    ctx.ensure_eq('orientation_reversing', det(R, ctx), -1, tol=1e-6)
    # textbook formula  x -> x - 2 <x,v>/<v,v> v
    ctx.ensure_eq('householder_formula', y @ R, y - v * (2 * spec.mink(y, v) / spec.mink(v, v)), tol=1e-6)


def _spacelike_batch(rng, shape, n):
    u = rng.normal(size=shape + (n,))
    u = u / np.linalg.norm(u, axis=-1, keepdims=True) * rng.uniform(1, 2, size=shape + (1,))
    return np.concatenate([rng.uniform(-0.5, 0.5, size=shape + (1,)), u], axis=-1)


def _composite_normals(rep, rng, shapes, N):
    for t in range(N):
        n = [2, 3, 4][t % 3]
        for shape in shapes(n):
            v = _spacelike_batch(rng, shape, n)
            if t % 3 == 2:       # a normal is a homogeneous vector: tiny and huge representatives describe the same walls
                v = v * 10.0 ** rng.uniform(-6, 3, size=shape + (1,))
            inp = {"n": n, "shape": list(shape), "normals": v.tolist()}

            def body():
                Hp = h.Hyperplane(v.copy())
                if Hp.shape != shape:
                    rep.fail("composite_shape", f"{Hp.shape} vs {shape}", inp); return
                J = spec.J(n + 1)
                d = Hp.proj_data
                for idx in np.ndindex(*shape):
                    sv, ib = d[idx][0], d[idx][1:]
                    cr = np.outer(sv, v[idx]); 
                    if not np.all(np.abs(cr - cr.T) <= 1e-8 * max(1.0, np.max(np.abs(cr)))):
                        rep.fail("composite_normal_row", f"index {idx}", inp); return
                    if not np.all(np.abs(np.einsum('ki,ij,kj->k', ib, J, ib)) <= 1e-8 * max(1.0, np.max(np.abs(ib)) ** 2)) or not np.all(np.abs(ib @ J @ v[idx]) <= 1e-8 * max(1.0, np.max(np.abs(ib))) * np.max(np.abs(v[idx]))):
                        rep.fail("composite_ideal_basis", f"index {idx}", inp); return
                R = Hp.reflection_across().proj_data
                if R.shape != shape + (n + 1, n + 1) or not np.all(np.abs(R @ J @ np.swapaxes(R, -1, -2) - J) <= 1e-8):
                    rep.fail("composite_reflection", "reflection of a composite hyperplane is not an array of isometries", inp); return
                back = h.Hyperplane.from_reflection(h.Isometry(R.copy()))
                bsv = back.spacelike_vector.reshape(shape + (n + 1,))
                for idx in np.ndindex(*shape):
                    cr = np.outer(bsv[idx], v[idx])
                    if not np.all(np.abs(cr - cr.T) <= 1e-6 * max(1e-300, np.max(np.abs(cr)))):
                        rep.fail("from_reflection_recovers_wall", f"index {idx}", inp); return
                if n == 2:          # in dimension 2 the wall of each reflection of the composite is a geodesic
                    G = h.Geodesic.from_reflection(h.Isometry(R.copy()))
                    e = G.proj_data.reshape(shape + (2, n + 1)) if G.proj_data.size == int(np.prod(shape, dtype=int)) * 2 * (n + 1) else None
                    if e is None:
                        rep.fail("geodesic_from_reflection_shape", f"{G.proj_data.shape} for reflections of shape {shape}", inp); return
                    for idx in np.ndindex(*shape):
                        if not np.all(np.abs(e[idx] @ J @ v[idx]) <= 1e-6 * max(1.0, np.max(np.abs(e[idx]))) * np.max(np.abs(v[idx]))) or not np.all(np.abs(np.einsum('ki,ij,kj->k', e[idx], J, e[idx])) <= 1e-6):
                            rep.fail("geodesic_from_reflection", f"index {idx}: endpoints are not the ideal points of the wall of that reflection", inp); return
                        cr2 = np.outer(e[idx][0], e[idx][1])
                        if np.all(np.abs(cr2 - cr2.T) <= 1e-9 * np.max(np.abs(cr2))):
                            rep.fail("geodesic_from_reflection", f"index {idx}: the two endpoints coincide", inp); return
            rep.attempt("composite_hyperplane_runs", inp, body)
            rep.case(key=(t, shape), nontrivial=shape != (), sample={"n": n, "shape": list(shape)} if t == 0 else None)


@bounded(P, "hyperplane_composite_normals", functions=[H + "Hyperplane.__init__", H + "Hyperplane._compute_ideal_basis", H + "spacelike_to", H + "Hyperplane.from_reflection"],
         note="single and composite normals of shape (k, n+1) with k != n+1, and rank-2 composites; dimensions 2..4")
def hyperplane_composite_normals(tier, rng, rep):
    rep.rule = "random spacelike normals, composite shapes (), (1,), (k,) with k != n+1, (2,2); non-trivial = composite"; rep.bound = "30 / 150 rounds"
    _composite_normals(rep, rng, lambda n: [(), (1,), (2,) if n != 1 else (3,), (n + 2,), (2, 2)], 150 if tier == 'thorough' else 30)


@bounded(P, "hyperplane_square_normals", functions=[H + "Hyperplane.__init__"], note="k = n+1 normals passed as a square (n+1, n+1) array (known finding: read as one hyperplane's full data)")
def hyperplane_square_normals(tier, rng, rep):
    rep.rule = "k = n+1 random spacelike normals in dimension n = 2,3,4"; rep.bound = "9 / 30 rounds"
    _composite_normals(rep, rng, lambda n: [(n + 1,)], 30 if tier == 'thorough' else 9)


@bounded(P, "reflections_and_fixed_points", functions=[H + "Hyperplane.from_reflection", H + "Geodesic.from_reflection", H + "Isometry._fixpoint_data",
                                                       H + "Isometry.fixed_point", H + "Isometry.fixed_point_pair", H + "Isometry.axis"],
         note="from_reflection recovers the wall / rejects non-reflections; fixed points of conjugated rotations, loxodromics, parabolics; Coxeter reflections (numpy.linalg.eig)")
def reflections_and_fixed_points(tier, rng, rep):
    N = 200 if tier == 'thorough' else 40
    rep.rule = ("random spacelike normals n=2..4; conjugates of standard rotations / loxodromics (translation length 0.2..3) / parabolics by random isometries, single and composite "
                "(mixed conjugated and unconjugated); non-reflection involutions with det -1 in dimension 3,4; Coxeter generators; non-trivial = n>=3 or composite")
    rep.bound = f"{N} rounds"
    for t in range(N):
        n = int(rng.integers(2, 5))
        J = spec.J(n + 1)
        v = _spacelike_batch(rng, (), n)
        inp = {"n": n, "normal": v.tolist()}

        def refl():
            R = h.Hyperplane(v.copy()).reflection_across()
            Hb = h.Hyperplane.from_reflection(R).flatten_to_unit()[0]     # (a unit reflection comes back as a composite of shape (1,))
            cr = np.outer(Hb.spacelike_vector, v)
            if not np.all(np.abs(cr - cr.T) <= 1e-6):
                rep.fail("from_reflection_recovers_wall", f"{Hb.spacelike_vector} vs {v}", inp)
            ib = Hb.ideal_basis
            if not np.all(np.abs(np.einsum('ki,ij,kj->k', ib, J, ib)) <= 1e-6) or not np.all(np.abs(ib @ J @ v) <= 1e-6):
                rep.fail("from_reflection_ideal_basis", "ideal basis of the recovered wall is not null / not in the wall", inp)
            if n == 2:
                G = h.Geodesic.from_reflection(R)
                e = G.proj_data.reshape(-1, n + 1)
                if not np.all(np.abs(e @ J @ v) <= 1e-6) or not np.all(np.abs(np.einsum('ki,ij,kj->k', e, J, e)) <= 1e-6):
                    rep.fail("geodesic_from_reflection", "endpoints are not the ideal points of the wall", inp)
            # the wall moved by an isometry (after its own reflection has been asked for): the reflection across the moved
            # wall negates the moved normal and fixes the moved ideal basis, i.e. it is the conjugate g R g^-1
            W = h.Hyperplane(v.copy())
            W.reflection_across()
            g = h.Point((lambda w: w / np.linalg.norm(w) * rng.uniform(0.1, 0.8))(rng.normal(size=n)), model="klein").origin_to() @ h.Isometry.standard_rotation(rng.uniform(0.3, 2.8), dimension=n)
            W2 = g @ W
            R2 = W2.reflection_across().proj_data
            nv2, ib2 = W2.spacelike_vector, W2.ideal_basis
            if not np.all(np.abs(R2 @ J @ R2.T - J) <= 1e-6) or not np.all(np.abs(nv2 @ R2 + nv2) <= 1e-6 * (1 + np.max(np.abs(nv2)))):
                rep.fail("reflection_of_moved_wall", "the reflection across g @ W does not negate the normal of g @ W", inp)
            crs = (ib2 @ R2)[:, :, None] * ib2[:, None, :]
            if not np.all(np.abs(crs - np.swapaxes(crs, -1, -2)) <= 1e-6 * max(1.0, np.max(np.abs(crs)))):
                rep.fail("reflection_of_moved_wall", "the reflection across g @ W does not fix the ideal points of g @ W", inp)
            # a composite of walls after item assignment
            Wc = h.Hyperplane(_spacelike_batch(rng, (n + 2,), n))      # (k = n+1 normals would be read as one hyperplane's data: listed finding)
            Wc.reflection_across()
            Wc[1] = W2
            Rc = Wc.reflection_across().proj_data
            nvc = Wc.spacelike_vector
            for j in range(n + 2):
                if not np.all(np.abs(nvc[j] @ Rc[j] + nvc[j]) <= 1e-6 * (1 + np.max(np.abs(nvc[j])))):
                    rep.fail("reflection_after_setitem", f"unit {j}", inp)
            return R
        R = rep.attempt("reflection_roundtrip_runs", inp, refl)
        # non-reflections are rejected
        C = h.Point((lambda w: w / np.linalg.norm(w) * rng.uniform(0.1, 0.8))(rng.normal(size=n)), model="klein").origin_to()
        cands = {"identity": h.identity(n), "rotation": C @ h.Isometry.standard_rotation(rng.uniform(0.3, 2.8), dimension=n) @ C.inv(),
                 "half_turn": C @ h.Isometry.standard_rotation(np.pi, dimension=n) @ C.inv(),
                 "loxodromic": C @ h.Isometry.standard_loxodromic(n, rng.uniform(1.3, 3)) @ C.inv()}
        if n >= 3:
            D = np.eye(n + 1); D[1, 1] = D[2, 2] = D[3, 3] = -1
            cands["triple_reflection"] = C @ h.Isometry(D) @ C.inv()
        if R is not None:
            cands["glide"] = R @ cands["loxodromic"]
        for nm, M in cands.items():
            try:
                h.Hyperplane.from_reflection(M)
                if nm != "glide" or True:
                    rep.fail("non_reflection_rejected", f"{nm} accepted as a reflection", {"n": n, "which": nm, "matrix": M.proj_data.tolist()})
            except GeometryError:
                pass
            except Exception as e:
                rep.fail("non_reflection_rejected", f"{nm}: raised {type(e).__name__} instead of GeometryError", {"n": n, "which": nm, "matrix": M.proj_data.tolist()})
        # Coxeter reflections
        if t % 5 == 0:
            pqr = [(2, 3, 7), (0, 3, 4), (3, 3, 4), (2, 3, 0), (2, 4, 5), (0, 0, 0), (4, 4, 4), (2, 4, -1)][(t // 5) % 8]     # infinite labels written 0 or negative
            try:
                rp = coxeter.TriangleGroup(pqr).hyperbolic_rep()
            except Exception as e:
                rep.fail("coxeter_generator_is_reflection_across_its_wall", f"{pqr}: hyperbolic_rep raised {type(e).__name__}: {e}", {"triangle": list(pqr)})
                rp = None
            for g in ("abc" if rp is not None else ""):
                Mg = rp[g]
                try:
                    if not np.all(np.isfinite(Mg.proj_data)):
                        rep.fail("coxeter_generator_is_reflection_across_its_wall", f"{pqr} {g}: non-finite matrix", {"triangle": list(pqr), "generator": g}); continue
                    Hg = h.Hyperplane.from_reflection(Mg).flatten_to_unit()[0]
                    Rg = Hg.reflection_across().proj_data
                    if not np.all(np.abs(Rg - Mg.proj_data) <= 1e-6):
                        rep.fail("coxeter_generator_is_reflection_across_its_wall", f"{pqr} {g}", {"triangle": list(pqr), "generator": g})
                except Exception as e:
                    rep.fail("coxeter_generator_is_reflection_across_its_wall", f"{pqr} {g}: raised {type(e).__name__}: {e}", {"triangle": list(pqr), "generator": g})
            rep.case(key=(t, "cox"))


def _fixed_points(rep, rng, N, dims, allowed):
    for t in range(N):
        n = int(rng.choice(dims))
        J = spec.J(n + 1)
        k = int(rng.integers(1, 5))
        mats, kinds = [], []
        for j in range(k):
            Cj = h.Point((lambda w: w / np.linalg.norm(w) * rng.uniform(0.1, 0.8))(rng.normal(size=n)), model="klein").origin_to()
            if rng.random() < 0.3:
                Cj = h.identity(n)
            kind = allowed[(t + j) % len(allowed)]
            if kind == "elliptic":
                base = h.Isometry.standard_rotation(rng.uniform(0.3, 2.8), dimension=n)
            else:
                base = h.Isometry.standard_loxodromic(n, rng.uniform(1.3, 3) ** rng.choice([-1, 1]))
            mats.append((Cj @ base @ Cj.inv()).proj_data); kinds.append(kind)
        for comp, kk in ((h.Isometry(np.array(mats)), kinds), (h.Isometry(mats[0].copy()), kinds[:1])):
            inp = {"n": n, "kinds": kk, "matrices": comp.proj_data.tolist()}

            def fix():
                M = comp.proj_data if comp.proj_data.ndim == 3 else comp.proj_data[None]
                pair = comp.fixed_point_pair().proj_data
                pair = pair if pair.ndim == 3 else pair[None]
                fp = comp.fixed_point().proj_data
                fp = fp if fp.ndim == 2 else fp[None]
                for j, kind in enumerate(kk):
                    x = fp[j]
                    img = x @ M[j]
                    cr = np.outer(img, x)
                    if not np.all(np.abs(cr - cr.T) <= 1e-6 * max(1, np.max(np.abs(cr)))):
                        rep.fail("reported_fixed_point_is_fixed", f"unit {j} ({kind})", inp); return
                    q = x @ J @ x / max(x @ x, 1e-300)
                    if q > 1e-6:
                        rep.fail("fixed_point_in_closed_ball", f"unit {j} ({kind}): q = {q}", inp); return
                    if kind == "elliptic" and q > -1e-6:
                        rep.fail("elliptic_fixed_point_interior", f"unit {j}", inp); return
                    if kind == "loxodromic":
                        a, b = pair[j][0], pair[j][1]
                        for y in (a, b):
                            if not (abs(y @ J @ y) <= 1e-6 * (y @ y)):
                                rep.fail("loxodromic_endpoints_ideal", f"unit {j}", inp); return
                        la = (a @ M[j]) @ a / (a @ a)
                        lb = (b @ M[j]) @ b / (b @ b)
                        if not (abs(la) > 1 + 1e-9 and abs(lb) < 1 - 1e-9):
                            rep.fail("attracting_endpoint_first", f"unit {j}: eigenvalues {la}, {lb}", inp); return
            rep.attempt("fixed_points_run", inp, fix)
            rep.case(key=(t, len(kk)), nontrivial=(n >= 3 or len(kk) > 1), sample={"n": n, "kinds": kk} if t == 0 else None)


@bounded(P, "fixed_points_plane", functions=[H + "Isometry._fixpoint_data", H + "Isometry.fixed_point", H + "Isometry.fixed_point_pair"],
         note="H^2: conjugated rotations and loxodromics, single and composite (mixed conjugated / unconjugated)")
def fixed_points_plane(tier, rng, rep):
    rep.rule = "dimension 2; kinds alternate elliptic / loxodromic; composite size 1..4"; rep.bound = "40 / 200 rounds"
    _fixed_points(rep, rng, 200 if tier == 'thorough' else 40, [2], ["elliptic", "loxodromic"])


@bounded(P, "fixed_points_loxodromic_higher_dim", functions=[H + "Isometry._fixpoint_data", H + "Isometry.fixed_point_pair"],
         note="H^3, H^4: conjugated loxodromics")
def fixed_points_loxodromic_higher_dim(tier, rng, rep):
    rep.rule = "dimension 3,4; loxodromic conjugates; composite size 1..4"; rep.bound = "30 / 150 rounds"
    _fixed_points(rep, rng, 150 if tier == 'thorough' else 30, [3, 4], ["loxodromic"])


@bounded(P, "fixed_points_elliptic_higher_dim", functions=[H + "Isometry._fixpoint_data", H + "Isometry.fixed_point"],
         note="H^3, H^4: conjugated rotations (known finding: LAPACK's basis of the eigenvalue-1 eigenspace need not contain a timelike vector)")
def fixed_points_elliptic_higher_dim(tier, rng, rep):
    rep.rule = "dimension 3,4; elliptic conjugates; composite size 1..4; first the recorded instance of the known finding"; rep.bound = "1 + 30 / 150 rounds"
    # the recorded instance of the known finding (so that it is reported on every run, not only when sampling hits it)
    v0, th0 = np.array([-0.03753732, -0.03608916, -0.5655239]), 2.6654312701374803
    C0 = h.Point(v0.copy(), model="klein").origin_to()
    M0 = C0 @ h.Isometry.standard_rotation(th0, dimension=3) @ C0.inv()
    x0 = M0.fixed_point().proj_data
    cr0 = np.outer(x0 @ M0.proj_data, x0)
    J3 = spec.J(4)
    if not np.all(np.abs(cr0 - cr0.T) <= 1e-6) or x0 @ J3 @ x0 / (x0 @ x0) > -1e-6:
        rep.fail("reported_fixed_point_is_fixed", "recorded instance: conjugate of the standard rotation of H^3 by origin_to(klein point)", {"klein_point": v0.tolist(), "angle": th0})
    rep.case(key="recorded")
    _fixed_points(rep, rng, 150 if tier == 'thorough' else 30, [3, 4], ["elliptic"])


@bounded(P, "far_loxodromics", functions=[H + "Isometry._fixpoint_data", H + "Isometry.fixed_point_pair", H + "Isometry.axis"],
         note="loxodromic isometries whose axis lies far from the origin (conjugated by a translation of length 2..8.2 in a direction transverse to the axis): both reported fixed points are "
              "ideal, fixed, attracting first, and equal the images of the standard axis' endpoints under the conjugating isometry (oracle independent of the eigenvector code)")
def far_loxodromics(tier, rng, rep):
    N = 240 if tier == 'thorough' else 60
    rep.rule = "n = 2, 3, 4; translation length 0.7..3 (both directions); conjugating distance uniform in [2, 8.2]; direction of displacement random (not along the axis)"
    rep.bound = f"{N} isometries"
    for t in range(N):
        n = 2 + t % 3
        J = spec.J(n + 1)
        D = float(rng.uniform(2, 8.2))
        w = rng.normal(size=n); w[0] *= 0.3
        w = w / np.linalg.norm(w) * np.tanh(D)
        C = h.Point(w, model="klein").origin_to()
        lam = float(rng.uniform(2.0, 20.0) ** rng.choice([-1, 1]))
        base = h.Isometry.standard_loxodromic(n, lam)
        T = C @ base @ C.inv()
        inp = {"n": n, "conjugating_distance": D, "klein_point": w.tolist(), "parameter": lam, "matrix": np.asarray(T.proj_data).tolist()}

        def body():
            M = np.asarray(T.proj_data, dtype=float)
            pair = np.asarray(T.fixed_point_pair().proj_data, dtype=float)
            e = np.zeros((2, n + 1)); e[:, 0] = 1; e[0, 1], e[1, 1] = 1, -1
            ends = np.asarray((C @ h.IdealPoint(e)).proj_data, dtype=float)
            # which standard endpoint is attracting for base: the one whose eigenvalue has modulus > 1
            Mb = np.asarray(base.proj_data, dtype=float)
            mu = [float((e[i] @ Mb) @ e[i] / (e[i] @ e[i])) for i in (0, 1)]
            order = [0, 1] if abs(mu[0]) > abs(mu[1]) else [1, 0]
            for slot, (y, want) in enumerate(zip(pair, ends[order])):
                q = (y @ J @ y) / (y @ y)
                if not q <= 1e-6:
                    rep.fail("fixed_point_in_closed_ball", f"reported fixed point {slot}: q/|y|^2 = {q} (outside the closed ball)", {**inp, "slot": slot}); return
                cr = np.outer(y / np.linalg.norm(y), want / np.linalg.norm(want))
                # conditioning: the matrix has entries ~ e^(2D) and the two endpoints are e^(-D)-close as seen from the origin; measured error of the
                # unchanged library <= 1.5e-12 e^(2D) over 1500 samples, the tolerance is four times that
                if not np.all(np.abs(cr - cr.T) <= max(1e-6, 6e-12 * np.exp(2 * D))):
                    rep.fail("loxodromic_endpoints_attracting_first", f"reported fixed point {slot} is not the {'attracting' if slot == 0 else 'repelling'} endpoint of the axis", {**inp, "slot": slot}); return
        rep.attempt("fixed_points_run", inp, body)
        rep.case(key=(t,), nontrivial=D > 5, sample=inp if t == 0 else None)
        if len(rep.failures) >= 3:
            return


@bounded(P, "walls_given_by_ideal_points", functions=[H + "Subspace.reflection_across", H + "Subspace._data_with_dual", H + "Subspace.spacelike_complement", H + "Geodesic.from_reflection",
                                                       H + "Hyperplane.from_reflection"],
         note="the wall is given by its ideal points (a geodesic of H^2 by two endpoints, a hyperplane of H^3 / H^4 as a Subspace on n ideal points), not by a normal, and does not pass "
              "through the origin: the reflection is an involutive isometry fixing the ideal points and negating the Minkowski normal; recovering the wall returns the same wall")
def walls_given_by_ideal_points(tier, rng, rep):
    N = 150 if tier == 'thorough' else 30
    rep.rule = "n = 2 (Geodesic and Subspace on 2 ideal points), n = 3, 4 (Subspace on n ideal points); arbitrary non-zero representatives; single walls and composites of 3"
    rep.bound = f"{N} walls x 2 shapes"
    for t in range(N):
        n = 2 + t % 3
        J = spec.J(n + 1)
        for shape in ((), (3,)):
            while True:          # ideal points in general position (well-conditioned wall): smallest singular value of the point matrix bounded below
                ide = rng.normal(size=shape + (n, n)); ide /= np.linalg.norm(ide, axis=-1, keepdims=True)
                full = np.concatenate([np.ones(shape + (n, 1)), ide], axis=-1)
                if np.min(np.linalg.svd(full, compute_uv=False)) > 0.35:
                    break
            sc = rng.choice([1.0, 2.0, -1.5, 0.4], size=shape + (n, 1))
            data = sc * np.concatenate([np.ones(shape + (n, 1)), ide], axis=-1)
            kind = "Geodesic" if (n == 2 and t % 2 == 0) else "Subspace"
            inp = {"n": n, "kind": kind, "shape": list(shape), "ideal_points": data.tolist()}

            def body():
                W = h.Geodesic(h.IdealPoint(data.copy())) if kind == "Geodesic" else h.Subspace(h.IdealPoint(data.copy()))
                R = np.asarray(W.reflection_across().proj_data, dtype=float).reshape((-1, n + 1, n + 1))
                D = data.reshape((-1, n, n + 1))
                for j in range(len(R)):
                    M = R[j]
                    if not np.all(np.abs(M @ J @ M.T - J) <= 1e-6 * (1 + np.max(np.abs(M)) ** 2)):
                        rep.fail("reflection_is_an_isometry", f"wall {j}: max |M J M^T - J| = {np.max(np.abs(M @ J @ M.T - J))}", inp); return
                    if not np.all(np.abs(M @ M - np.eye(n + 1)) <= 1e-6 * (1 + np.max(np.abs(M)) ** 2)):
                        rep.fail("reflection_involutive", f"wall {j}", inp); return
                    img = D[j] @ M
                    cr = img[:, :, None] * D[j][:, None, :]
                    if not np.all(np.abs(cr - np.swapaxes(cr, -1, -2)) <= 1e-6 * max(1.0, np.max(np.abs(cr)))):
                        rep.fail("reflection_fixes_the_wall", f"wall {j}: an ideal point of the wall is moved", inp); return
                    # Minkowski normal of the wall, independently: kernel of D J
                    nv = np.linalg.svd(D[j] @ J)[2][-1]
                    if not np.all(np.abs(nv @ M + nv) <= 1e-6 * (1 + np.max(np.abs(M)))):
                        rep.fail("reflection_negates_normal", f"wall {j}: the Minkowski normal {nv.tolist()} is sent to {(nv @ M).tolist()}", inp); return
                    if np.linalg.det(M) > 0:
                        rep.fail("reflection_orientation_reversing", f"wall {j}", inp); return
                    Hb = h.Hyperplane.from_reflection(h.Isometry(M.copy())).flatten_to_unit()[0]
                    cr2 = np.outer(np.asarray(Hb.spacelike_vector, dtype=float), nv)
                    if not np.all(np.abs(cr2 - cr2.T) <= 1e-6 * max(1.0, np.max(np.abs(cr2)))):
                        rep.fail("from_reflection_recovers_wall", f"wall {j}", inp); return
                    if n == 2:
                        e = np.asarray(h.Geodesic.from_reflection(h.Isometry(M.copy())).proj_data, dtype=float).reshape(-1, 3)
                        if not np.all(np.abs(e @ J @ nv) <= 1e-6 * (1 + np.max(np.abs(e)))):
                            rep.fail("geodesic_from_reflection", f"wall {j}: the recovered endpoints are not on the wall", inp); return
                sc_ = np.asarray(W.spacelike_complement().proj_data, dtype=float).reshape((len(R), -1, n + 1))
                for j in range(len(R)):
                    if not np.all(np.abs(sc_[j] @ J @ D[j].T) <= 1e-6 * (1 + np.max(np.abs(sc_[j])) * np.max(np.abs(D[j])))):
                        rep.fail("spacelike_complement_orthogonal", f"wall {j}", inp); return
            rep.attempt("reflection_roundtrip_runs", inp, body)
            rep.case(key=(t, shape), nontrivial=True, sample=inp if (t, shape) == (0, ()) else None)
            if len(rep.failures) >= 3:
                return


@bounded(P, "walls_far_from_the_origin", functions=[H + "Hyperplane.__init__", H + "Hyperplane._compute_ideal_basis", H + "spacelike_to", H + "Subspace.reflection_across", "geometry_tools/utils/numerical.py:svd_kernel"],
         note="hyperplanes at hyperbolic distance up to 11 from the origin (unit normal with time coordinate sinh a): the hyperplane is constructed, its reflection is an involutive isometry "
              "negating the normal and fixing wall points computed independently; tolerances follow the size e^(2a) of the matrix entries")
def walls_far_from_the_origin(tier, rng, rep):
    N = 90 if tier == 'thorough' else 24
    rep.rule = "n = 2, 3, 4; a in {0, 2, 5, 8, 9.5, 10, 10.5, 11} (cycled) and random in [0, 11]; random direction; single walls and composites mixing near and far walls"
    rep.bound = f"{N} walls"
    grid = [0.0, 2.0, 5.0, 8.0, 9.5, 10.0, 10.5, 11.0]
    for t in range(N):
        n = 2 + t % 3
        J = spec.J(n + 1)
        a = grid[t % len(grid)] if t % 3 else float(rng.uniform(0, 11))
        u = rng.normal(size=n); u /= np.linalg.norm(u)
        v = np.concatenate([[np.sinh(a)], np.cosh(a) * u]) * float(rng.choice([1.0, -2.0, 0.5]))
        inp = {"n": n, "distance_from_origin": a, "normal": v.tolist()}

        def body():
            W = h.Hyperplane(v.copy())
            M = np.asarray(W.reflection_across().proj_data, dtype=float)
            sz = 1 + np.max(np.abs(M))
            if not np.all(np.abs(M @ J @ M.T - J) <= 1e-7 * sz ** 2):
                rep.fail("reflection_is_an_isometry", f"distance {a}: max |M J M^T - J| = {np.max(np.abs(M @ J @ M.T - J))} (entries of size {sz:.3g})", inp); return
            if not np.all(np.abs(M @ M - np.identity(n + 1)) <= 1e-7 * sz ** 2):
                rep.fail("reflection_involutive", f"distance {a}", inp); return
            vn = v / np.sqrt(v @ J @ v)
            if not np.all(np.abs(vn @ M + vn) <= 1e-7 * sz * (1 + np.max(np.abs(vn)))):
                rep.fail("reflection_negates_normal", f"distance {a}", inp); return
            # a point of the wall, independently: x = cosh(a) e0 + sinh(a) u is the foot of the perpendicular from the origin
            x = np.concatenate([[np.cosh(a)], np.sinh(a) * u])
            if abs(x @ J @ v) <= 1e-6 * np.max(np.abs(x)) * np.max(np.abs(v)) and not np.all(np.abs(x @ M - x) <= 1e-6 * sz * np.max(np.abs(x))):
                rep.fail("reflection_fixes_the_wall", f"distance {a}: the foot of the perpendicular from the origin is moved", inp); return
            if np.trace(M) < n - 1 - 1e-6 * sz or np.trace(M) > n - 1 + 1e-6 * sz:
                rep.fail("reflection_orientation_reversing", f"distance {a}: trace {np.trace(M)} (a reflection of R^(n,1) has trace n - 1)", inp)
        rep.attempt("reflection_roundtrip_runs", inp, body)
        rep.case(key=(t,), nontrivial=a > 9, sample=inp if t == 1 else None)
        if len(rep.failures) >= 3:
            return
