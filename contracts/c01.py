"""C01 - model coordinates are mutually consistent and carry one metric (DESIGN.md section 3, C01)."""
import numpy as np
from vf.api import rcontract, bounded, dims, product
from geometry_tools import hyperbolic as h, projective as pr, utils
from contracts import spec

P = "C01"
F_CHART = ["geometry_tools/hyperbolic.py:kleinian_to_poincare", "geometry_tools/hyperbolic.py:poincare_to_kleinian"]


def ball(n, rmax=0.95):
    def s(r):
        v = r.normal(size=n)
        return v / np.linalg.norm(v) * r.uniform(0.05, rmax)
    return s


@rcontract(P, "klein_poincare", instances=dims(1, 3), thorough=dims(4, 5), functions=F_CHART + ["geometry_tools/utils/core.py:normsq", "geometry_tools/utils/core.py:apply_bilinear", "geometry_tools/utils/core.py:matrix_product"])
def klein_poincare(ctx, n):
    """textbook radial maps on the CLOSED ball (interior and ideal points): p = k/(1+sqrt(1-|k|^2)), k = 2p/(1+|p|^2)"""
    k = ctx.reals('k', (n,), ball(n, 1.0))
    nk = utils.normsq(k)
    ctx.assume(nk, '<=', 1)
    p = h.kleinian_to_poincare(k)
    ctx.ensure_eq('k2p_formula', p, k / (1 + np.sqrt(1 - nk)))
    np_ = utils.normsq(p)
    ctx.ensure('k2p_in_closed_ball', np_, '<=', 1)
    k2 = h.poincare_to_kleinian(p)
    ctx.ensure_eq('p2k_formula', k2, 2 * p / (1 + np_))
    ctx.ensure_eq('roundtrip_k_p_k', k2, k)


F_HS = ["geometry_tools/hyperbolic.py:poincare_to_halfspace", "geometry_tools/hyperbolic.py:halfspace_to_poincare"]


@rcontract(P, "poincare_halfspace", instances=dims(1, 3), thorough=dims(4, 5), functions=F_HS)
def poincare_halfspace(ctx, n):
    """ball <-> half-space on the closed ball minus the point sent to infinity: mutually inverse, interior <=> height>0,
    ideal <=> height = 0; the explicit formulas are the separate 'convention' clauses"""
    p = ctx.reals('p', (n,), ball(n, 1.0))
    npp = utils.normsq(p)
    ctx.assume(npp, '<=', 1)
    ctx.assume(npp - 2 * p[0] + 1, '>', 0)       # p != e_0  (|p - e_0|^2 > 0)
    hh = h.poincare_to_halfspace(p)
    ctx.ensure_eq('h2p_after_p2h_is_id', h.halfspace_to_poincare(hh), p)
    ctx.ensure('height_nonneg', hh[-1], '>=', 0)
    # height * |p - e0|^2 = 1 - |p|^2 : height > 0 iff interior, = 0 iff ideal
    ctx.ensure_eq('height_iff_interior', hh[-1] * (npp - 2 * p[0] + 1), 1 - npp)
    ctx.ensure_eq('convention_p2h', hh, spec.p2h(p))
    ctx.ensure_eq('convention_h2p', h.halfspace_to_poincare(hh), spec.h2p(hh))


@rcontract(P, "halfspace_metric_compat", instances=dims(1, 3), thorough=dims(4, 4), functions=F_HS)
def halfspace_metric_compat(ctx, n):
    """the chart is an isometry between the two model metrics (convention-free)"""
    p = ctx.reals('p', (n,), ball(n))
    q = ctx.reals('q', (n,), ball(n))
    ctx.assume(utils.normsq(p), '<', 1)
    ctx.assume(utils.normsq(q), '<', 1)
    hp, hq = h.poincare_to_halfspace(p), h.poincare_to_halfspace(q)
    ctx.ensure_eq('metric_compat', spec.cosh_d_halfspace(hp, hq), spec.cosh_d_poincare(p, q))


@rcontract(P, "hyperboloid_coords", instances=dims(1, 3), thorough=dims(4, 4),
           functions=["geometry_tools/hyperbolic.py:hyperboloid_coords", "geometry_tools/utils/core.py:normalize", "geometry_tools/hyperbolic.py:minkowski"])
def hyperboloid_coords(ctx, n):
    x = ctx.reals('x', (n + 1,), lambda r: np.concatenate([[r.choice([-1, 1]) * r.uniform(1.5, 3)], r.uniform(-1, 1, n) / np.sqrt(n)]))
    q = spec.mink(x, x)
    ctx.assume(q, '<', 0)
    arg = x.copy()
    out = h.hyperboloid_coords(arg)
    ctx.ensure_eq('formula', out, x / np.sqrt(-q))           # positive multiple of x
    ctx.ensure_eq('on_hyperboloid', spec.mink(out, out), -1)
    # frame: the argument array is overwritten with that positive multiple (recorded; used by C11)
    ctx.ensure_eq('frame_argument_is_same_point', arg, x, proj=True)


def _klein_pt(ctx, name, n, shape=()):
    k = ctx.reals(name, shape + (n,), lambda r: np.stack([ball(n)(r) for _ in range(int(np.prod(shape)) or 1)]).reshape(shape + (n,)))
    ctx.assume(spec.nsq(k), '<', 1)
    return k


PAIRS = [(a, b) for a in spec.MODELS for b in spec.MODELS]


@rcontract(P, "coords_all_model_pairs",
           instances=[dict(n=n, src=a, dst=b) for n in (1, 2) for (a, b) in PAIRS],
           thorough=[dict(n=3, src=a, dst=b) for (a, b) in PAIRS],
           functions=["geometry_tools/hyperbolic.py:Point.__init__", "geometry_tools/hyperbolic.py:Point.coords",
                      "geometry_tools/hyperbolic.py:HyperbolicObject.coords", "geometry_tools/hyperbolic.py:Model.__eq__",
                      "geometry_tools/hyperbolic.py:Point.poincare_coords", "geometry_tools/hyperbolic.py:Point.halfspace_coords",
                      "geometry_tools/hyperbolic.py:Point.hyperboloid_coords", "geometry_tools/hyperbolic.py:HyperbolicObject.kleinian_coords",
                      "geometry_tools/projective.py:affine_coords", "geometry_tools/projective.py:projective_coords",
                      "geometry_tools/projective.py:ProjectiveObject.set"] + F_CHART + F_HS)
def coords_all_model_pairs(ctx, n, src, dst):
    """Point(c, model=src).coords(dst) is the textbook chart change, and rebuilding from dst gives the same point"""
    k = _klein_pt(ctx, 'k', n)
    c = spec.from_klein(k, src)
    if src == "projective":
        lam = ctx.real('lam', lambda r: r.choice([-1, 1]) * r.uniform(0.3, 3))
        ctx.assume(lam * lam, '>', 0)
        c = c * lam
    P1 = h.Point(np.array(c, copy=True), model=src)
    out = P1.coords(dst)
    want = spec.from_klein(k, dst)
    projective_out = dst in ("projective",) or (dst == "hyperboloid" and src == "projective")
    ctx.ensure_eq('chart_change', out, want, proj=projective_out)
    if dst == "hyperboloid":
        ctx.ensure_eq('on_hyperboloid', spec.mink(out, out), -1)
    # round trip: build a point back from the dst coordinates and read it in src again
    back = h.Point(np.array(out, copy=True), model=dst).coords("klein")
    ctx.ensure_eq('rebuilt_is_same_point', back, k)


@rcontract(P, "coords_composite_shapes",
           instances=[dict(n=2, shape=s, dst=d) for s in ((2,), (2, 1)) for d in ("poincare", "halfspace", "hyperboloid")],
           thorough=[dict(n=2, shape=(1, 3), dst=d) for d in ("poincare", "halfspace", "hyperboloid")],
           functions=["geometry_tools/hyperbolic.py:Point.coords"])
def coords_composite_shapes(ctx, n, shape, dst):
    k = _klein_pt(ctx, 'k', n, tuple(shape))
    out = h.Point(np.array(k, copy=True), model="klein").coords(dst)
    ctx.ensure_true('shape', np.shape(out)[:-1] == tuple(shape), f"{np.shape(out)}")
    ctx.ensure_eq('per_unit_chart_change', out, spec.from_klein(k, dst))


F_DIST = ["geometry_tools/hyperbolic.py:Point.distance", "geometry_tools/hyperbolic.py:hyperboloid_coords",
          "geometry_tools/utils/core.py:apply_bilinear", "geometry_tools/utils/core.py:normalize", "geometry_tools/hyperbolic.py:minkowski"]


@rcontract(P, "distance_models", instances=dims(1, 2), thorough=dims(3, 3), functions=F_DIST + ["geometry_tools/hyperbolic.py:Point.coords"],
           timeout=30.0)
def distance_models(ctx, n):
    """reported distance = arccosh(a) with a >= 1, and a equals each model's closed-form metric evaluated on the
    coordinates the library itself reports; symmetric"""
    k = _klein_pt(ctx, 'k', n)
    l = _klein_pt(ctx, 'l', n)
    A, B = h.Point(np.array(k, copy=True), model="klein"), h.Point(np.array(l, copy=True), model="klein")
    d = A.distance(B)
    ctx.ensure_finite('finite_never_nan', d)
    a = ctx.arg_of(d, 'arccosh')
    ctx.ensure('cosh_d_at_least_1_so_d_nonneg', a, '>=', 1)
    ctx.ensure_eq('klein_metric', a, spec.cosh_d_klein(A.coords("klein"), B.coords("klein")))
    ctx.ensure_eq('poincare_metric', a, spec.cosh_d_poincare(A.coords("poincare"), B.coords("poincare")))
    ctx.ensure_eq('halfspace_metric', a, spec.cosh_d_halfspace(A.coords("halfspace"), B.coords("halfspace")))
    ctx.ensure_eq('hyperboloid_metric', a, spec.cosh_d_hyperboloid(A.coords("hyperboloid"), B.coords("hyperboloid")))
    ctx.ensure_eq('symmetric', B.distance(A), d)


@rcontract(P, "distance_projective_reps", instances=dims(1, 2), thorough=dims(3, 3), functions=F_DIST, timeout=30.0)
def distance_projective_reps(ctx, n):
    """points given by arbitrary timelike homogeneous representatives (either sheet)"""
    samp = lambda r: np.concatenate([[r.choice([-1, 1]) * r.uniform(1.5, 3)], r.uniform(-1, 1, n) / np.sqrt(n)])
    x = ctx.reals('x', (n + 1,), samp)
    y = ctx.reals('y', (n + 1,), samp)
    ctx.assume(spec.mink(x, x), '<', 0)
    ctx.assume(spec.mink(y, y), '<', 0)
    d = h.Point(np.array(x, copy=True)).distance(h.Point(np.array(y, copy=True)))
    ctx.ensure_finite('finite_never_nan', d)
    a = ctx.arg_of(d, 'arccosh')
    # |<x,y>| / sqrt(q(x) q(y))
    ctx.ensure_eq('cosh_d_squared', a * a, spec.mink(x, y) ** 2 / (spec.mink(x, x) * spec.mink(y, y)))
    ctx.ensure('cosh_d_at_least_1', a, '>=', 1)
    ctx.ensure_eq('symmetric', h.Point(np.array(y, copy=True)).distance(h.Point(np.array(x, copy=True))), d)


@rcontract(P, "distance_to_itself_is_zero", instances=dims(1, 3), thorough=dims(4, 4), functions=F_DIST)
def distance_to_itself_is_zero(ctx, n):
    k = _klein_pt(ctx, 'k', n)
    lam = ctx.real('lam', lambda r: r.choice([-1, 1]) * r.uniform(0.3, 3))
    ctx.assume(lam * lam, '>', 0)
    A = h.Point(np.array(k, copy=True), model="klein")
    B = h.Point(spec.k2proj(k) * lam)          # the same point, another representative
    d = A.distance(B)
    ctx.ensure_finite('finite_never_nan', d)
    ctx.ensure_eq('zero', d, 0, tol=1e-6)


@bounded(P, "metric_laws_sampling", functions=F_DIST,
         note="triangle inequality, non-negativity, d(x,x)=0 without nan on float64 (the fp part of the property)")
def metric_laws_sampling(tier, rng, rep):
    N = 4000 if tier == 'thorough' else 600
    rep.rule = ("random triples of interior points, dimensions 1..6, radii up to 1-1e-9 (near-boundary included), composite "
                "shapes (), (3,), (2,2); non-trivial = three pairwise distinct points")
    rep.bound = f"{N} triples"
    for t in range(N):
        n = int(rng.integers(1, 7))
        shape = [(), (3,), (2, 2)][t % 3]
        rad = 1 - 10 ** rng.uniform(-9, 0, size=shape + (1,))
        def pt():
            v = rng.normal(size=shape + (n,))
            return v / np.linalg.norm(v, axis=-1, keepdims=True) * rad * rng.uniform(0, 1, size=shape + (1,)) ** 0.5
        x, y, z = pt(), pt(), pt()
        X, Y, Z = (h.Point(v.copy(), model="klein") for v in (x, y, z))
        with np.errstate(all='ignore'):
            dxy, dyz, dxz, dxx = X.distance(Y), Y.distance(Z), X.distance(Z), X.distance(h.Point(x.copy(), model="klein"))
        rep.case(key=t, sample={"n": n, "shape": list(shape), "x": x.tolist(), "y": y.tolist(), "z": z.tolist()} if t < 2 else None)
        inp = {"n": n, "x": x.tolist(), "y": y.tolist(), "z": z.tolist()}
        for nm, v in (("dxy", dxy), ("dyz", dyz), ("dxz", dxz), ("dxx", dxx)):
            if not np.all(np.isfinite(v)) or np.any(np.asarray(v) < 0):
                rep.fail("finite_nonneg", f"{nm} = {np.asarray(v).ravel()[:3]}", inp)
        # float64: <x^,x^> = -1 is a difference of terms of size 1/(1-|x|^2), so arccosh(1+delta) ~ sqrt(2 delta) with
        # delta ~ eps/(1-|x|^2): the tolerance follows that conditioning (the clause is 'zero, never nan')
        tol0 = 1e-6 + 8 * np.sqrt(2.3e-16 / np.maximum(1 - np.sum(x * x, axis=-1), 1e-300))
        if np.any(np.abs(dxx) > tol0):
            rep.fail("zero_on_equal_points", f"d(x,x) = {np.asarray(dxx).ravel()[:3]}", inp)
        slack = 1e-7 * (1 + np.abs(dxy) + np.abs(dyz))
        if np.any(dxz > dxy + dyz + slack):
            rep.fail("triangle_inequality", f"{dxz} > {dxy} + {dyz}", inp)
        if np.any(np.abs(dxy - Y.distance(X)) > 1e-9 * (1 + np.abs(dxy))):
            rep.fail("symmetry", "d(x,y) != d(y,x)", inp)


@bounded(P, "exact_ideal_points", functions=["geometry_tools/hyperbolic.py:Point.coords", "geometry_tools/hyperbolic.py:Point.hyperboloid_coords", "geometry_tools/utils/core.py:normalize",
                                             "geometry_tools/hyperbolic.py:IdealPoint.from_angle"],
         note="ideal points whose homogeneous coordinates are exactly lightlike in float64 (rational null vectors, from_angle(0)): round trips through all ordered pairs of models")
def exact_ideal_points(tier, rng, rep):
    rep.rule = ("rational null vectors (Pythagorean triples / quadruples, axis points) in dimension 1..3, scaled by +-2^j, and IdealPoint.from_angle at multiples of pi/2; "
                "all 25 ordered pairs of models (half-space skipped for the half-space point at infinity); the same Point object is read in several models in a row")
    nulls = {1: [(1, 1), (1, -1)], 2: [(5, 3, 4), (5, -4, 3), (13, 5, -12), (1, 1, 0), (1, 0, -1), (17, -8, -15), (1, -1, 0)],
             3: [(3, 1, 2, 2), (7, 2, 3, -6), (9, -4, 4, 7), (1, 0, 0, 1), (1, 1, 0, 0), (1, 0, -1, 0)]}
    models = ["projective", "hyperboloid", "klein", "poincare", "halfspace"]
    rep.bound = "15 null vectors x 4 scales x 25 model pairs"

    def same(a, b):
        a, b = np.asarray(a, dtype=float), np.asarray(b, dtype=float)
        cr = np.outer(a, b)
        return np.all(np.isfinite(a)) and np.any(a != 0) and np.all(np.abs(cr - cr.T) <= 1e-9 * max(1.0, np.max(np.abs(cr))))
    cases = [(n, np.array(v, dtype=float) * sc) for n, vs in nulls.items() for v in vs for sc in (1.0, -1.0, 0.25, -8.0)]
    for k in range(4):
        cases.append((2, h.IdealPoint.from_angle(k * np.pi / 2 if k != 1 else 0.0).proj_data.copy()))
    for n, v in cases:
        at_infinity = abs(v[1] / v[0] - 1) < 1e-12 and np.all(v[2:] == 0)
        for src in models:
            for dst in models:
                if at_infinity and "halfspace" in (src, dst):
                    continue
                inp = {"n": n, "null_vector": v.tolist(), "src": src, "dst": dst}

                def body():
                    P0 = h.Point(v.copy())
                    c = P0.coords(src)
                    c2 = h.Point(np.array(c, copy=True), model=src).coords(dst)
                    back = h.Point(np.array(c2, copy=True), model=dst).proj_data
                    if not same(back, v):
                        rep.fail("ideal_round_trip", f"{src} -> {dst}: {np.asarray(back).tolist()}", inp); return
                    # the object that was read still is the same point, in every model, after the reads
                    for m in models:
                        if at_infinity and m == "halfspace":
                            continue
                        again = h.Point(np.array(P0.coords(m), copy=True), model=m).proj_data
                        if not same(again, v):
                            rep.fail("ideal_point_unchanged_by_reads", f"after reading {src}, then {m}: {np.asarray(again).tolist()}", inp); return
                with np.errstate(all='ignore'):
                    rep.attempt("ideal_coords_run", inp, body)
                rep.case(key=(n, tuple(v.tolist()), src, dst), nontrivial=True, sample=inp if (src, dst) == ("klein", "poincare") and n == 2 and v[0] == 5 else None)


@bounded(P, "composites_with_mixed_representatives", functions=["geometry_tools/hyperbolic.py:Point.coords", "geometry_tools/hyperbolic.py:HyperbolicObject.kleinian_coords",
                                                                "geometry_tools/hyperbolic.py:Point.hyperboloid_coords", "geometry_tools/hyperbolic.py:Point.distance"],
         note="composite arrays whose units have different kinds of homogeneous representative - some with first coordinate exactly 1 (the origin, points built from chart coordinates), "
              "others rescaled or normalised to the hyperboloid by an earlier query: every unit's coordinates in every model are the chart maps of that unit, before and after queries")
def composites_with_mixed_representatives(tier, rng, rep):
    N = 120 if tier == 'thorough' else 30
    rep.rule = ("n = 1..4, composite shapes (3,), (2,2), (4,); units: the origin, Klein points, projective representatives scaled by 1 / 2 / -3 / 0.5 in every mix; histories: none, "
                "distance to a point, hyperboloid coordinates, coords('hyperboloid') - each followed by coordinates in all five models and by distances (closed forms of contracts/spec.py)")
    rep.bound = f"{N} composites x 4 histories"
    for t in range(N):
        n = 1 + t % 4
        shape = [(3,), (2, 2), (4,)][t % 3]
        m = int(np.prod(shape))
        v = rng.normal(size=(m, n))
        k = v / np.linalg.norm(v, axis=-1, keepdims=True) * rng.uniform(0.05, 0.9, size=(m, 1))
        k[int(rng.integers(0, m))] = 0.0                                   # the origin: its hyperboloid representative has first coordinate exactly 1
        scales = rng.choice([1.0, 1.0, 2.0, -3.0, 0.5], size=(m, 1))
        if t % 2:
            scales[:] = 1.0                                                  # all built from chart coordinates: x0 == 1 everywhere until a query normalises them
        proj = (scales * spec.k2proj(k)).reshape(shape + (n + 1,))
        kk = k.reshape(shape + (n,))
        q = rng.normal(size=n); q = q / np.linalg.norm(q) * 0.4
        for hist in ("none", "distance", "hyperboloid_coords", "coords_hyperboloid"):
            inp = {"n": n, "shape": list(shape), "projective_data": proj.tolist(), "history": hist}

            def body():
                X = h.Point(proj.copy())
                if hist == "distance":
                    X.distance(h.Point(np.broadcast_to(spec.k2proj(q), proj.shape).copy()))
                elif hist == "hyperboloid_coords":
                    X.hyperboloid_coords()
                elif hist == "coords_hyperboloid":
                    X.coords("hyperboloid")
                for mo in spec.MODELS:
                    got = np.asarray(X.coords(mo), dtype=float)
                    want = np.asarray(spec.from_klein(kk, mo), dtype=float)
                    if mo == "projective":
                        got, want = got / got[..., :1], want / want[..., :1]
                    if mo == "hyperboloid":          # a negative representative is reported on the other sheet (-x denotes the same point; cf. the C12 rescaling contract)
                        got = got * np.sign(got[..., :1])
                    if got.shape != want.shape or not np.all(np.abs(got - want) <= 1e-7 * (1 + np.abs(want))):
                        bad = int(np.argmax(np.max(np.abs(got - want), axis=-1))) if got.shape == want.shape else -1
                        rep.fail("coordinates_are_the_chart_maps", f"after {hist}: {mo} coordinates of unit {bad} differ from the chart map of that unit", {**inp, "model": mo}); return
                d = np.asarray(X.distance(h.Point(np.broadcast_to(spec.k2proj(q), proj.shape).copy())), dtype=float)
                wd = np.arccosh(np.maximum(1.0, spec.cosh_d_klein(kk, q)))
                if d.shape != wd.shape or not np.all(np.abs(d - wd) <= 1e-6):
                    rep.fail("distance_closed_form", f"after {hist}", inp); return
                kl = np.asarray(X.coords("klein"), dtype=float)
                if not np.all(np.abs(np.arccosh(np.maximum(1.0, spec.cosh_d_klein(kl, q))) - d) <= 1e-6):
                    rep.fail("klein_closed_form_agrees_with_distance", f"after {hist}", inp)
            rep.attempt("coords_run", inp, body)
            rep.case(key=(t, hist), nontrivial=hist != "none" or not np.all(scales == 1), sample=inp if (t, hist) == (0, "distance") else None)
            if len(rep.failures) >= 3:
                return


@bounded(P, "coordinates_set_on_an_existing_point", functions=["geometry_tools/hyperbolic.py:Point.coords", "geometry_tools/hyperbolic.py:Point.kleinian_coords", "geometry_tools/hyperbolic.py:Point.poincare_coords",
                                                               "geometry_tools/hyperbolic.py:Point.halfspace_coords", "geometry_tools/projective.py:ProjectiveObject.affine_coords", "geometry_tools/projective.py:ProjectiveObject.set"],
         note="the round trip through the SETTER: coordinates in any model assigned to an existing point object (float-, integer-typed, of the same or another shape, created by get_origin or "
              "from data) and read back in every model; arrays handed out earlier are not changed by the assignment")
def coordinates_set_on_an_existing_point(tier, rng, rep):
    N = 80 if tier == 'thorough' else 20
    rep.rule = "n = 1..4; existing points: Point.get_origin(n) (float), Point.get_origin(n, dtype=int) where accepted, Point of integer lists, Point of another composite shape; new coordinates random interior, in each of the five models; shapes (), (3,)"
    rep.bound = f"{N} rounds x 4 existing points x 5 models"
    for t in range(N):
        n = 1 + t % 4
        shape = () if t % 2 else (3,)
        v = rng.normal(size=shape + (n,))
        k = v / np.linalg.norm(v, axis=-1, keepdims=True) * rng.uniform(0.05, 0.9, size=shape + (1,))
        def existing():
            out = {"float_origin": lambda: h.Point(np.broadcast_to(np.eye(n + 1)[0], shape + (n + 1,)).copy()),
                   "integer_point": lambda: h.Point(np.broadcast_to(np.eye(n + 1, dtype=np.int64)[0], shape + (n + 1,)).copy()),
                   "integer_list_point": lambda: h.Point([2] + [0] * (n - 1) + [1]) if shape == () else h.Point([[2] + [0] * (n - 1) + [1]] * 3),
                   "other_shape": lambda: h.Point(np.broadcast_to(np.eye(n + 1)[0], (2, n + 1)).copy())}
            try:
                h.Point.get_origin(n, dtype=int)
                out["get_origin_int"] = lambda: h.Point.get_origin(n, dtype=int)
            except Exception:
                pass
            return out
        for ename, mk in existing().items():
            for m in spec.MODELS:
                inp = {"n": n, "shape": list(shape), "existing": ename, "model": m, "klein_coordinates": k.tolist()}

                def body():
                    p = mk()
                    handed_out = p.coords("projective")
                    snapshot = np.array(handed_out, copy=True)
                    data = np.asarray(spec.from_klein(k, m), dtype=float)
                    p.coords(m, data.copy())
                    for mo in spec.MODELS:
                        got = np.asarray(p.coords(mo), dtype=float)
                        want = np.asarray(spec.from_klein(k, mo), dtype=float)
                        if mo == "projective":
                            got, want = got / got[..., :1], want / want[..., :1]
                        if mo == "hyperboloid":
                            got = got * np.sign(got[..., :1])
                        if got.shape != want.shape or not np.all(np.abs(got - want) <= 1e-7 * (1 + np.abs(want))):
                            rep.fail("round_trip_through_the_setter", f"{ename}: coordinates set in {m}, read in {mo}: {got.tolist()} vs {want.tolist()}", {**inp, "read_model": mo}); return
                    if np.shape(handed_out) == snapshot.shape and not np.array_equal(np.asarray(handed_out), snapshot):
                        rep.fail("arrays_handed_out_earlier_unchanged", f"{ename}: projective coordinates returned before the assignment changed with it", inp)
                rep.attempt("coords_run", inp, body)
                rep.case(key=(t, ename, m), nontrivial=ename != "float_origin", sample=inp if (t, ename, m) == (0, "integer_point", "klein") else None)
                if len(rep.failures) >= 3:
                    return
