"""Spec-side (textbook) definitions used as oracles in postconditions.  Written from the property statements and
standard references (Cannon-Floyd-Kenyon-Parry, "Hyperbolic geometry"), NOT from the implementation; they use
only plain NumPy operations, so they work on float arrays and on Engine R's object arrays alike."""
import numpy as np


def dot(a, b):
    return (a * b).sum(axis=-1)


def nsq(a):
    return (a * a).sum(axis=-1)


def mink(x, y):
    """Minkowski product <x,y> = -x0 y0 + sum xi yi"""
    return -x[..., 0] * y[..., 0] + (x[..., 1:] * y[..., 1:]).sum(axis=-1)


def J(n1):
    m = np.identity(n1)
    m[0, 0] = -1
    return m


def ex(a):
    """scalar per unit -> broadcastable against the unit's coordinate axis"""
    return np.asarray(a)[..., None]


def k2p(k):
    return k / ex(1 + np.sqrt(1 - nsq(k)))


def p2k(p):
    return 2 * p / ex(1 + nsq(p))


def p2h(p):
    """ball -> upper half-space (the library's convention: the ideal point e_0 goes to infinity,
    last slot = height)"""
    y, v = p[..., 0], p[..., 1:]
    den = nsq(v) + (y - 1) * (y - 1)
    return np.concatenate([-2 * v / ex(den), ex((1 - nsq(p)) / den)], axis=-1)


def h2p(hh):
    y, v = hh[..., -1], hh[..., :-1]
    den = nsq(v) + (y + 1) * (y + 1)
    return np.concatenate([ex((nsq(hh) - 1) / den), -2 * v / ex(den)], axis=-1)


def k2proj(k):
    one = np.ones_like(k[..., :1]) if k.dtype != object else np.full(k.shape[:-1] + (1,), 1, dtype=object)
    return np.concatenate([one, k], axis=-1)


def hyp(x):
    """positive multiple of x on the hyperboloid q = -1 (x timelike)"""
    return x / ex(np.sqrt(-mink(x, x)))


def from_klein(k, model):
    if model == "klein":
        return k
    if model == "poincare":
        return k2p(k)
    if model == "halfspace":
        return p2h(k2p(k))
    if model == "projective":
        return k2proj(k)
    if model == "hyperboloid":
        return hyp(k2proj(k))
    raise ValueError(model)


# cosh of the hyperbolic distance in each model's own closed form
def cosh_d_klein(k, l):
    return (1 - dot(k, l)) / np.sqrt((1 - nsq(k)) * (1 - nsq(l)))


def cosh_d_poincare(p, q):
    return 1 + 2 * nsq(p - q) / ((1 - nsq(p)) * (1 - nsq(q)))


def cosh_d_halfspace(hh, g):
    return 1 + nsq(hh - g) / (2 * hh[..., -1] * g[..., -1])


def cosh_d_hyperboloid(x, y):
    return -mink(x, y)


MODELS = ["projective", "hyperboloid", "klein", "poincare", "halfspace"]
