"""C18 - the indefinite linear-algebra helpers meet their stated contracts (DESIGN.md section 3, C18)."""
import itertools
import numpy as np
from vf.api import rcontract, bounded
from vf.rrun import _det_obj
from geometry_tools import utils
from geometry_tools.utils import numerical
from contracts import spec

P = "C18"
U = "geometry_tools/utils/core.py:"


def det(m, ctx):
    return _det_obj(np.asarray(m, dtype=object)) if ctx.mode == 'sym' else np.linalg.det(np.asarray(m, dtype=float))


def form_of(ctx, kind, m):
    """diag(+-1) forms of every signature, or a symbolic symmetric form"""
    if isinstance(kind, tuple):
        return ctx.const(np.diag([float(s) for s in kind]))
    S = ctx.reals('F', (m, m))
    return (S + S.T) / 2


def gram_minors(ctx, rows, F):
    G = rows @ F @ rows.T
    return [det(G[:j, :j], ctx) for j in range(1, rows.shape[0] + 1)]


SIGS2 = [(-1, 1), (1, 1), (1, -1)]
SIGS3 = [(-1, 1, 1), (1, 1, 1), (1, -1, -1), (-1, -1, 1)]
SIGS4 = [(-1, 1, 1, 1), (-1, -1, 1, 1)]


@rcontract(P, "projection", instances=[dict(m=2, form='sym'), dict(m=3, form='sym'), dict(m=3, form=(-1, 1, 1))],
           thorough=[dict(m=4, form=(-1, 1, 1, 1))], functions=[U + "projection", U + "apply_bilinear", U + "normsq"])
def projection(ctx, m, form):
    F = form_of(ctx, form, m)
    v1, v2 = ctx.reals('v', (m,)), ctx.reals('w', (m,))
    n2 = v2 @ F @ v2
    ctx.assume(n2 * n2, '>', 0)
    w = utils.projection(v1, v2, F)
    ctx.ensure_eq('formula', w, v2 * (v1 @ F @ v2) / n2)
    ctx.ensure_eq('parallel_to_v2', w[None, :], v2[None, :], proj=True) if False else None
    ctx.ensure_eq('remainder_orthogonal_to_v2', (v1 - w) @ F @ v2, 0)


GS_Q = [dict(k=2, form=s) for s in SIGS2] + [dict(k=2, form=s) for s in SIGS3] + [dict(k=3, form=(-1, 1, 1))] + [dict(k=2, form='sym2')]
GS_T = [dict(k=3, form=s) for s in SIGS3[1:]] + [dict(k=2, form=s) for s in SIGS4] + [dict(k=3, form=(-1, 1, 1, 1))] + [dict(k=2, form='sym3')]


@rcontract(P, "indefinite_orthogonalize", instances=GS_Q, thorough=GS_T, timeout=60.0, max_paths=40,
           functions=[U + "indefinite_orthogonalize", U + "projection", U + "normalize", U + "zeros"])
def indefinite_orthogonalize(ctx, k, form):
    """Gram-Schmidt for a non-degenerate symmetric form: rows mutually orthogonal, square-norm +-1, same flag
    (out = L in, L lower triangular with positive diagonal).  Precondition: leading Gram minors non-zero."""
    if isinstance(form, str):
        m = int(form[-1]); F = form_of(ctx, 'sym', m)
    else:
        m = len(form); F = form_of(ctx, form, m)
    rows = ctx.reals('X', (k, m))
    for g in gram_minors(ctx, rows, F):
        ctx.assume(g * g, '>', 0)
    out = utils.indefinite_orthogonalize(F, np.array(rows, copy=True))
    G = out @ F @ out.T
    for i in range(k):
        for j in range(i):
            ctx.ensure_eq(f'orthogonal_{j}{i}', G[i, j], 0, tol=1e-6)
        ctx.ensure_eq(f'square_norm_pm1_{i}', G[i, i] * G[i, i], 1, tol=1e-6)
        # same flag: out_i in span(in_0..in_i)  (all (i+2)-minors of the stacked rows vanish) ...
        if i + 2 <= m:
            st = np.concatenate([rows[:i + 1], out[i:i + 1]], axis=0)
            mins = [det(st[:, list(c)], ctx) for c in itertools.combinations(range(m), i + 2)]
            ctx.ensure_eq(f'flag_{i}', np.array(mins, dtype=object if ctx.mode == 'sym' else float), 0, tol=1e-6)
        # ... with positive coefficient on in_i:  F(out_i, in_i) * F(out_i, out_i) > 0
        ctx.ensure(f'flag_positive_{i}', (out[i] @ F @ rows[i]) * G[i, i], '>', 0)


@rcontract(P, "indefinite_orthogonalize_batch", instances=[], thorough=[dict(form=(-1, 1, 1))], max_paths=64, functions=[U + "indefinite_orthogonalize"])
def indefinite_orthogonalize_batch(ctx, form):
    """batch shapes: entry b of the result is the result on entry b"""
    F = form_of(ctx, form, 3)
    rows = ctx.reals('X', (2, 2, 3))
    for b in range(2):
        for g in gram_minors(ctx, rows[b], F):
            ctx.assume(g * g, '>', 0)
    out = utils.indefinite_orthogonalize(F, np.array(rows, copy=True))
    for b in range(2):
        ctx.ensure_eq(f'unit{b}', out[b], utils.indefinite_orthogonalize(F, np.array(rows[b], copy=True)), tol=1e-6)


@rcontract(P, "find_isometry", instances=[dict(m=2, k=1, form=(-1, 1), oriented=True), dict(m=3, k=1, form=(-1, 1, 1), oriented=True),
                                          dict(m=3, k=2, form=(-1, 1, 1), oriented=False), dict(m=3, k=1, form=(1, 1, 1), oriented=True)],
           thorough=[dict(m=3, k=2, form=(-1, 1, 1), oriented=True)],
           timeout=60.0, max_paths=40,
           functions=[U + "find_isometry", U + "indefinite_orthogonalize", U + "kernel", U + "make_orientation_preserving", U + "det"])
def find_isometry(ctx, m, k, form, oriented):
    """completing a partial frame whose orthogonalised rows have the sign sequence of the form's diagonal (the call
    sites' situation: timelike first row for Minkowski, anything for a definite form) gives M with M F M^T = F,
    leading rows spanning the given flag, positive determinant on request"""
    F = form_of(ctx, form, m)
    rows = ctx.reals('X', (k, m), lambda r: np.concatenate([[[2.0] + [0.0] * (m - 1)]] + [[[0.0, 2.0] + [0.0] * (m - 2)]] * (k - 1), axis=0)[:k] + r.uniform(-0.7, 0.7, (k, m)))
    mins = gram_minors(ctx, rows, F)
    prev = 1
    for j, g in enumerate(mins):
        # sign of the j-th orthogonalised row = sign(G_j / G_{j-1}) must equal form[j]
        ctx.assume(g * prev * form[j], '>', 0)
        prev = g
    # general position: the leading k x k minor of the frame is non-zero (pivot chart of the kernel contract; the
    # other charts of the full-rank locus are covered by the bounded stand-in only)
    lead = det(rows[:, :k], ctx)
    ctx.assume(lead * lead, '>', 0)
    M = utils.find_isometry(F, np.array(rows, copy=True), oriented)
    ctx.ensure_true('shape', M.shape == (m, m))
    ctx.ensure_eq('preserves_form', M @ F @ M.T, F, tol=1e-6)
    for i in range(k):
        if i + 2 <= m:
            st = np.concatenate([rows[:i + 1], M[i:i + 1]], axis=0)
            mins_ = [det(st[:, list(c)], ctx) for c in itertools.combinations(range(m), i + 2)]
            ctx.ensure_eq(f'flag_{i}', np.array(mins_, dtype=object if ctx.mode == 'sym' else float), 0, tol=1e-6)
        ctx.ensure(f'flag_positive_{i}', (M[i] @ F @ rows[i]) * form[i], '>', 0)
    if oriented:
        ctx.ensure('positive_determinant', det(M, ctx), '>', 0)


@rcontract(P, "make_orientation_preserving", instances=[dict(m=2), dict(m=3)], functions=[U + "make_orientation_preserving", U + "det"])
def make_orientation_preserving(ctx, m):
    A = ctx.reals('A', (m, m))
    d = det(A, ctx)
    ctx.assume(d * d, '>', 0)
    R = utils.make_orientation_preserving(np.array(A, copy=True))
    ctx.ensure('positive_determinant', det(R, ctx), '>', 0)
    ctx.ensure_eq('leading_rows_unchanged', R[:-1], A[:-1])
    ctx.ensure_eq('last_row_same_line', R[-1:], A[-1:], proj=True)


@rcontract(P, "orthogonal_complement", instances=[dict(m=3, k=1, form=(-1, 1, 1)), dict(m=3, k=2, form=(-1, 1, 1))],
           thorough=[dict(m=4, k=2, form=(-1, 1, 1, 1))], timeout=60.0, max_paths=40,
           functions=[U + "orthogonal_complement", U + "kernel", U + "indefinite_orthogonalize"])
def orthogonal_complement(ctx, m, k, form):
    F = form_of(ctx, form, m)
    rows = ctx.reals('X', (k, m), lambda r: np.eye(m)[:k] * 2 + r.uniform(-0.7, 0.7, (k, m)))
    # general position: leading minor of rows @ F (pivot chart of the kernel contract)
    lead = det((rows @ F)[:, :k], ctx)
    ctx.assume(lead * lead, '>', 0)
    C = utils.orthogonal_complement(np.array(rows, copy=True), F, normalize=None)
    ctx.ensure_true('shape', C.shape == (m - k, m))
    ctx.ensure_eq('orthogonal_to_every_row', C @ F @ rows.T, 0, tol=1e-6)


@rcontract(P, "data_movement", instances=[dict(n=2), dict(n=3)], functions=[U + "construct_diagonal", U + "permute_along_axis"])
def data_movement(ctx, n):
    d = ctx.reals('d', (2, n))
    D = utils.construct_diagonal(d)
    ctx.ensure_true('shape', D.shape == (2, n, n))
    for b in range(2):
        ctx.ensure_eq(f'diag{b}', D[b], np.diag(d[b]) if ctx.mode == 'num' else np.array([[d[b][i] if i == j else 0 for j in range(n)] for i in range(n)], dtype=object))
    A = ctx.reals('A', (n, n))
    for perm in itertools.permutations(range(n)):
        p = np.array(perm)
        for axis in (-1, -2):
            got = utils.permute_along_axis(A, p, axis=axis, inverse=True)
            want = A[:, p] if axis == -1 else A[p, :]
            ctx.ensure_eq(f'take_{"".join(map(str, perm))}_{axis}', got, want)
            got2 = utils.permute_along_axis(A, p, axis=axis, inverse=False)
            inv = np.argsort(p)
            want2 = A[:, inv] if axis == -1 else A[inv, :]
            ctx.ensure_eq(f'put_{"".join(map(str, perm))}_{axis}', got2, want2)


@rcontract(P, "sphere_through", instances=[dict(k=1)], thorough=[dict(k=2)], timeout=60.0,
           functions=[U + "sphere_through", U + "circle_through", U + "invert", U + "normsq"])
def sphere_through(ctx, k):
    """the sphere through k+2 points of R^(k+1) in general position contains all of them"""
    pts = ctx.reals('p', (k + 2, k + 1))
    d = det(pts[1:] - pts[:1], ctx)
    ctx.assume(d * d, '>', 0)
    arg = np.array(pts, copy=True)
    c, r = utils.sphere_through(arg)
    ctx.ensure_eq('frame_argument_array_unchanged', arg, pts)          # the caller's array still holds the caller's points
    for i in range(k + 2):
        ctx.ensure_eq(f'point{i}_on_sphere', spec.nsq(pts[i] - c), r * r, tol=1e-6)
    c_again, r_again = utils.sphere_through(arg)                        # and a second call on the same array gives the same sphere
    ctx.ensure_eq('second_call_same_centre', c_again, c, tol=1e-6)
    ctx.ensure('radius_nonneg', r, '>=', 0)
    if k == 1:
        c2, r2 = utils.circle_through(pts[0], pts[1], pts[2])
        ctx.ensure_eq('circle_through_agrees', c2, c)


@rcontract(P, "sphere_inversion", instances=[dict(n=2), dict(n=3)], functions=[U + "sphere_inversion"])
def sphere_inversion(ctx, n):
    v = ctx.reals('v', (2, n))
    for b in range(2):
        ctx.assume(spec.nsq(v[b]), '>', 0)
    w = utils.sphere_inversion(v)
    ctx.ensure_eq('formula', w, v / spec.ex(spec.nsq(v)))
    ctx.ensure_eq('involution', utils.sphere_inversion(w), v)


TWO_PI = 2 * np.pi


def _mod2pi(ctx, a):
    return a + TWO_PI if a < 0 else a


def _pair(ctx, stratum, lo, hi):
    """a pair of angles: 'generic' (no coincidence mod 2pi) or one of the coincidence strata"""
    if stratum == 'generic':
        th = ctx.reals('t', (2,), lambda r: r.uniform(lo, hi, 2))
        d = th[1] - th[0]
        for e in (d, d - TWO_PI, d + TWO_PI):
            ctx.assume(e * e, '>', 0)
        return th
    t0 = ctx.real('t0', lambda r: r.uniform(lo, hi))
    shift = {'equal': 0.0, 'plus2pi': TWO_PI, 'minus2pi': -TWO_PI}[stratum]
    th = np.array([t0, t0 + shift], dtype=object if ctx.mode == 'sym' else float)
    return th


@rcontract(P, "short_arc", instances=[dict(stratum=s_) for s_ in ('generic', 'equal', 'plus2pi', 'minus2pi')], max_paths=64,
           functions=[U + "short_arc"])
def short_arc(ctx, stratum):
    """angles in (-2pi, 2pi): the same two angles (mod 2pi, in [0,2pi)), ordered so that the counter-clockwise arc is the short one"""
    th = _pair(ctx, stratum, -TWO_PI, TWO_PI)
    for a in th:
        ctx.assume(a, '>', -TWO_PI)
        ctx.assume(a, '<', TWO_PI)
    out = utils.short_arc(np.array(th, copy=True))
    a, b = _mod2pi(ctx, th[0]), _mod2pi(ctx, th[1])
    ctx.ensure_eq('same_two_angles_sum', out[0] + out[1], a + b)
    ctx.ensure_eq('same_two_angles_product', out[0] * out[1], a * b)
    d = out[1] - out[0]
    d = d + TWO_PI if d < 0 else d
    ctx.ensure('ccw_arc_is_short', d, '<=', np.pi)


@rcontract(P, "right_to_left", instances=[{}], max_paths=16, functions=[U + "right_to_left"])
def right_to_left(ctx):
    th = ctx.reals('t', (2,), lambda r: r.uniform(-np.pi, np.pi, 2))
    out = utils.right_to_left(np.array(th, copy=True))
    ctx.ensure_eq('same_two_angles_sum', out[0] + out[1], th[0] + th[1])
    ctx.ensure_eq('same_two_angles_product', out[0] * out[1], th[0] * th[1])
    ctx.ensure('cos_b_at_most_cos_a', np.cos(out[1]) - np.cos(out[0]), '<=', 0)


@rcontract(P, "arc_include", instances=[dict(stratum='generic')], max_paths=64, functions=[U + "arc_include"])
def arc_include(ctx, stratum):
    th = _pair(ctx, stratum, -np.pi, np.pi)
    ref = ctx.real('ref', lambda r: r.uniform(-np.pi, np.pi))
    # the reference direction differs from both end directions (mod 2pi); for coincident end directions the arc
    # is not defined, so only the generic stratum is under contract
    for e in (ref - th[0], ref - th[1]):
        for sh in (0.0, TWO_PI, -TWO_PI):
            ctx.assume((e + sh) * (e + sh), '>', 0)
    for a in list(th) + [ref]:
        ctx.assume(a, '>=', -np.pi)
        ctx.assume(a, '<=', np.pi)
    out = utils.arc_include(np.array(th, copy=True), ref)
    ctx.ensure_eq('same_two_angles_sum', out[0] + out[1], th[0] + th[1])
    ctx.ensure_eq('same_two_angles_product', out[0] * out[1], th[0] * th[1])
    # ref lies on the ccw arc from out[0] to out[1]:  (ref - out0) mod 2pi <= (out1 - out0) mod 2pi
    d1 = ref - out[0]
    d1 = d1 + TWO_PI if d1 < 0 else d1
    d2 = out[1] - out[0]
    d2 = d2 + TWO_PI if d2 < 0 else d2
    ctx.ensure('reference_on_ccw_arc', d1, '<=', d2)


@bounded(P, "sampling", functions=[U + "diagonalize_form", "geometry_tools/utils/numerical.py:svd_kernel", U + "kernel", U + "find_definite_isometry",
                                   U + "indefinite_orthogonalize", U + "find_isometry", U + "eigh"],
         note="diagonalize_form (numpy.linalg.eigh), svd_kernel (numpy.linalg.svd), find_definite_isometry (qr); forms of signature (p,q), p+q<=6; batch shapes")
def sampling(tier, rng, rep):
    N = 400 if tier == 'thorough' else 80
    rep.rule = ("random symmetric forms with eigenvalues of modulus in [0.3, 3] and every signature p+q<=6, both orderings, reverse or not; "
                "random full-rank matrices for the kernel; random frames; batch shapes (), (3,), (2,2); non-trivial = indefinite form / non-square kernel")
    rep.bound = f"{N} rounds"
    for t in range(N):
        m = int(rng.integers(2, 7))
        p = int(rng.integers(0, m + 1))
        eig = np.concatenate([-rng.uniform(0.3, 3, p), rng.uniform(0.3, 3, m - p)])
        Q = np.linalg.qr(rng.normal(size=(m, m)))[0]
        B = Q @ np.diag(eig) @ Q.T
        B = (B + B.T) / 2
        for order in ("signed", "minkowski"):
            for reverse in (False, True):
                inp = {"B": B.tolist(), "order": order, "reverse": reverse}
                res = rep.attempt("diagonalize_form_runs", inp, lambda: utils.diagonalize_form(B.copy(), order_eigenvalues=order, reverse=reverse, with_inverse=True))
                if res is None:
                    continue
                W, Winv = res
                D = W.T @ B @ W
                if not np.all(np.abs(D - np.diag(np.diag(D))) <= 1e-8) or not np.all(np.abs(np.abs(np.diag(D)) - 1) <= 1e-8):
                    rep.fail("diagonalize_form_diag_pm1", f"W^T B W = {np.round(D, 6).tolist()}", inp)
                if not np.all(np.abs(W @ Winv - np.eye(m)) <= 1e-8):
                    rep.fail("diagonalize_form_inverse", "W @ Winv != I", inp)
                s = np.sign(np.round(np.diag(D)))
                neg, pos = int((s < 0).sum()), int((s > 0).sum())
                if order == "signed":
                    want = np.array([-1.0] * neg + [1.0] * pos)
                else:   # the rarer sign first (negative first on ties)
                    want = np.array([-1.0] * neg + [1.0] * pos) if neg <= pos else np.array([1.0] * pos + [-1.0] * neg)
                if reverse:
                    want = want[::-1]
                if not np.array_equal(s, want):
                    rep.fail("diagonalize_form_order", f"diagonal signs {s.tolist()} expected {want.tolist()}", inp)
                rep.case(key=("diag", t, order, reverse), nontrivial=0 < p < m, sample=inp if t == 0 else None)
        # kernel
        k = int(rng.integers(1, m))
        shape = [(), (3,), (2, 2)][t % 3]
        A = rng.normal(size=shape + (k, m))
        if t % 4 == 3:       # complex matrices (subspaces of complex projective space are intersected through this routine)
            A = A + 1j * rng.normal(size=A.shape)
        inp = {"A_re": np.real(A).tolist(), "A_im": np.imag(A).tolist()}
        K = rep.attempt("kernel_runs", inp, lambda: utils.kernel(A.copy()))
        if K is not None:
            if K.shape != shape + (m, m - k):
                rep.fail("kernel_dimension", f"{K.shape}", inp)
            else:
                if not np.all(np.abs(A @ K) <= 1e-9):
                    rep.fail("kernel_annihilated", f"{np.max(np.abs(A @ K))}", inp)
                if not np.all(np.abs(np.conjugate(np.swapaxes(K, -1, -2)) @ K - np.eye(m - k)) <= 1e-9):
                    rep.fail("kernel_orthonormal", "K^H K != I", inp)
            rep.case(key=("ker", t))
        # rank-deficient matrices (wide, square and tall): the kernel has dimension m - rank
        kk, rr = int(rng.integers(2, m + 2)), int(rng.integers(1, min(m, 4)))
        rr = min(rr, kk - 1) if kk > 1 else 1
        Ad = rng.normal(size=(kk, rr)) @ rng.normal(size=(rr, m))
        inpd = {"A": Ad.tolist(), "rank": rr}
        Kd = rep.attempt("kernel_runs", inpd, lambda: utils.kernel(Ad.copy()))
        if Kd is not None:
            if Kd.shape != (m, m - rr):
                rep.fail("kernel_dimension", f"{kk}x{m} matrix of rank {rr}: kernel basis of shape {Kd.shape}, expected {(m, m - rr)}", inpd)
            elif not np.all(np.abs(Ad @ Kd) <= 1e-9 * (1 + np.max(np.abs(Ad)))) or not np.all(np.abs(Kd.T @ Kd - np.eye(m - rr)) <= 1e-9):
                rep.fail("kernel_annihilated", "rank-deficient matrix", inpd)
            rep.case(key=("kerdef", t), nontrivial=kk < m)
        # frame completion in batch, Minkowski form of dimension m
        F = spec.J(m)
        X = rng.normal(size=shape + (1, m)) * 0.4
        X[..., 0, 0] = 1.5 + rng.uniform(0, 1, size=shape)
        # precondition of find_isometry at its call sites: the given row is timelike (a 4-sigma normal draw is not)
        spn = np.linalg.norm(X[..., 0, 1:], axis=-1)
        X[..., 0, 1:] *= np.minimum(1.0, 0.8 * X[..., 0, 0] / np.maximum(spn, 1e-300))[..., None]
        inp = {"X": X.tolist()}
        M = rep.attempt("find_isometry_runs", inp, lambda: utils.find_isometry(F, X.copy(), True))
        if M is not None:
            if not np.all(np.abs(M @ F @ np.swapaxes(M, -1, -2) - F) <= 1e-8):
                rep.fail("find_isometry_preserves_form", "M F M^T != F", inp)
            if np.any(np.linalg.det(M) <= 0):
                rep.fail("find_isometry_oriented", "det <= 0", inp)
            cr = M[..., 0, :][..., :, None] * X[..., 0, :][..., None, :]
            if not np.all(np.abs(cr - np.swapaxes(cr, -1, -2)) <= 1e-8):
                rep.fail("find_isometry_flag", "first row not parallel to the given vector", inp)
            rep.case(key=("iso", t))
        # definite isometry (QR)
        nv = rng.normal(size=(m,))
        Mq = rep.attempt("find_definite_isometry_runs", {"v": nv.tolist()}, lambda: utils.find_definite_isometry(nv.copy()))
        if Mq is not None:
            if not np.all(np.abs(Mq @ Mq.T - np.eye(m)) <= 1e-9):
                rep.fail("find_definite_isometry_orthogonal", "not orthogonal", {"v": nv.tolist()})
            rep.case(key=("qr", t))


@bounded(P, "arc_helpers_batches", functions=[U + "short_arc", U + "right_to_left", U + "arc_include"], note="batch shapes: row i of the result is the result on row i")
def arc_helpers_batches(tier, rng, rep):
    N = 300 if tier == 'thorough' else 60
    rep.rule = "random batches (k,2), k=2..6, and (2,3,2) of angle pairs in the documented ranges (many rows crossing the branch cut); non-trivial = at least two rows that get reordered"
    rep.bound = f"{N} batches"
    for t in range(N):
        shape = (int(rng.integers(2, 7)),) if t % 4 else (2, 3)
        th = rng.uniform(-2 * np.pi, 2 * np.pi, size=shape + (2,))
        th2 = rng.uniform(-np.pi, np.pi, size=shape + (2,))
        ref = rng.uniform(-np.pi, np.pi, size=shape)
        inp = {"thetas": th.tolist(), "thetas_pi": th2.tolist(), "ref": ref.tolist()}
        flipped = 0

        def body():
            nonlocal flipped
            a = utils.short_arc(th.copy()); b = utils.right_to_left(th2.copy()); c = utils.arc_include(th2.copy(), ref.copy())
            for idx in np.ndindex(*shape):
                ua = utils.short_arc(th[idx].copy()); ub = utils.right_to_left(th2[idx].copy()); uc = utils.arc_include(th2[idx].copy(), ref[idx])
                if not np.all(np.abs(a[idx] - ua) <= 0) or not np.all(np.abs(b[idx] - ub) <= 0) or not np.all(np.abs(c[idx] - uc) <= 0):
                    rep.fail("batch_row_equals_unit_result", f"row {idx}", inp); return
                flipped += int(np.any(ub != th2[idx]))
        rep.attempt("arc_helpers_run", inp, body)
        rep.case(key=(t,), nontrivial=flipped >= 2, sample=inp if t == 0 else None)


DIAG_Q = [dict(signs=s, order=o, reverse=r) for s in ((-1, 1), (1, 1), (-1, -1)) for o in ("signed", "minkowski") for r in (False, True)] + \
         [dict(signs=s, order=o, reverse=False) for s in ((-1, 1, 1), (-1, -1, 1)) for o in ("signed", "minkowski")]
DIAG_T = [dict(signs=s, order=o, reverse=True) for s in ((-1, 1, 1), (-1, -1, 1)) for o in ("signed", "minkowski")] + \
         [dict(signs=(1, 1, 1), order="signed", reverse=False), dict(signs=(-1, -1, -1), order="minkowski", reverse=False)]


@rcontract(P, "diagonalize_form", instances=DIAG_Q, thorough=DIAG_T, timeout=60.0, max_paths=40,
           functions=[U + "diagonalize_form", U + "eigh", U + "construct_diagonal", U + "permute_along_axis", U + "conjugate", U + "zeros"])
def diagonalize_form(ctx, signs, order, reverse):
    """for EVERY non-degenerate symmetric form B of the given signature and every spectral decomposition numpy.linalg.eigh
    may return for it: W^T B W is diagonal with entries +-1 in the requested order (negative first, or the rarer sign
    first), and the second return value is the inverse of W"""
    n = len(signs)
    B, e, Umat = ctx.spectral_form('B', list(signs))
    W, Winv = utils.diagonalize_form(np.array(B, copy=True), order_eigenvalues=order, reverse=reverse, with_inverse=True)
    neg, pos = sum(1 for s_ in signs if s_ < 0), sum(1 for s_ in signs if s_ > 0)
    if order == "signed":
        want = [-1.0] * neg + [1.0] * pos
    else:
        want = [-1.0] * neg + [1.0] * pos if neg <= pos else [1.0] * pos + [-1.0] * neg
    if reverse:
        want = want[::-1]
    ctx.ensure_eq('WtBW_is_diag_pm1_in_requested_order', W.T @ B @ W, np.diag(want), tol=1e-6)
    ctx.ensure_eq('second_value_is_the_inverse', W @ Winv, np.identity(n), tol=1e-6)
    ctx.ensure_eq('second_value_is_the_inverse_left', Winv @ W, np.identity(n), tol=1e-6)
    W2 = utils.diagonalize_form(np.array(B, copy=True), order_eigenvalues=order, reverse=reverse, with_inverse=False)
    ctx.ensure_eq('without_inverse_same_W', W2, W, tol=1e-6)


@bounded(P, "frames_of_every_scale", functions=[U + "indefinite_orthogonalize", U + "projection", U + "find_isometry", U + "orthogonal_complement"],
         note="well-conditioned frames multiplied by a common or per-row scale between 1e-7 and 1e4 (the condition number does not change): orthogonalising returns mutually orthogonal rows of "
              "square-norm +-1 spanning the same flag; completing a partial frame preserves the form")
def frames_of_every_scale(tier, rng, rep):
    N = 150 if tier == 'thorough' else 30
    rep.rule = ("forms: diag(-1,1,..,1), diag of random signature, random non-diagonal symmetric with eigenvalues of modulus in [0.5, 2]; m = 2..5, k = 2..m rows with no lightlike partial span "
                "(Gram minors bounded away from 0 relative to the scale); scales 1e-7, 1e-5, 1e-3, 1, 1e3 common and per row; batch shapes (), (3,)")
    rep.bound = f"{N} frames x 5 scales x 2 scalings"
    for t in range(N):
        m = int(rng.integers(2, 6)); k = int(rng.integers(2, m + 1))
        kind = t % 3
        if kind == 0:
            F = np.diag([-1.0] + [1.0] * (m - 1))
        elif kind == 1:
            F = np.diag(rng.choice([-1.0, 1.0], size=m))
        else:
            Q = np.linalg.qr(rng.normal(size=(m, m)))[0]
            F = Q @ np.diag(rng.uniform(0.5, 2, m) * rng.choice([-1, 1], size=m)) @ Q.T; F = (F + F.T) / 2
        batch = () if t % 2 else (3,)
        while True:
            X = rng.normal(size=batch + (k, m))
            G = X @ F @ np.swapaxes(X, -1, -2)
            minors = np.array([[np.linalg.det(g[:j, :j]) for j in range(1, k + 1)] for g in G.reshape((-1, k, k))])
            if np.all(np.abs(minors) > 0.15):
                break
        for sc in (1e-7, 1e-5, 1e-3, 1.0, 1e3):
            for per_row in (False, True):
                scales = sc * (10 ** rng.uniform(-0.5, 0.5, size=(k, 1)) if per_row else np.ones((k, 1)))
                Y = X * scales
                inp = {"form": F.tolist(), "rows": Y.tolist(), "scale": sc, "per_row": per_row}

                def body():
                    out = np.asarray(utils.indefinite_orthogonalize(F.copy(), Y.copy()), dtype=float)
                    if out.shape != Y.shape:
                        rep.fail("orthogonalize_shape", f"{out.shape}", inp); return
                    Go = out @ F @ np.swapaxes(out, -1, -2)
                    off = Go - Go * np.eye(k)
                    if not np.all(np.isfinite(out)) or not np.all(np.abs(off) <= 1e-6):
                        rep.fail("rows_mutually_orthogonal", f"scale {sc}: max |<r_i, r_j>| = {np.max(np.abs(off))}", inp); return
                    if not np.all(np.abs(np.abs(np.diagonal(Go, axis1=-2, axis2=-1)) - 1) <= 1e-6):
                        rep.fail("rows_square_norm_pm1", f"scale {sc}", inp); return
                    # same flag: row j of the output lies in the span of the first j+1 input rows
                    for idx in np.ndindex(*batch):
                        for j in range(k):
                            A_ = np.vstack([X[idx][:j + 1], out[idx][j:j + 1]])
                            sv = np.linalg.svd(A_, compute_uv=False)
                            if sv[-1] > 1e-6 * sv[0] and A_.shape[0] <= m:
                                rep.fail("same_flag", f"scale {sc}: output row {j} is not in the span of input rows 0..{j}", inp); return
                    if batch == () and k < m:
                        # the library's call sites pass normalised partial frames of any origin; the form must be preserved whatever the scale of the input
                        M = np.asarray(utils.find_isometry(F.copy(), Y.copy(), False), dtype=float)
                        # rows orthonormal for the form ("normal" may mean square-norm -1: the signs follow the given rows), i.e. M F M^T is a diagonal
                        # +-1 matrix of the signature of F; it is F itself when the given rows have the signs of F's leading diagonal
                        Gm = M @ F @ M.T
                        dg = np.diag(Gm)
                        if not (np.all(np.abs(Gm - np.diag(dg)) <= 1e-6) and np.all(np.abs(np.abs(dg) - 1) <= 1e-6) and int((dg < 0).sum()) == int((np.linalg.eigvalsh(F) < 0).sum())):
                            rep.fail("find_isometry_preserves_form", f"scale {sc}: M F M^T = {np.round(Gm, 4).tolist()} is not a diagonal +-1 matrix of the signature of F", inp); return
                rep.attempt("orthogonalize_runs", inp, body)
                rep.case(key=(t, sc, per_row), nontrivial=sc != 1.0, sample=inp if (t, sc, per_row) == (0, 1e-5, False) else None)
                if len(rep.failures) >= 3:
                    return


@bounded(P, "structured_forms", functions=[U + "diagonalize_form", U + "eigh"],
         note="non-degenerate symmetric forms with many exact zeros: the hyperbolic plane [[0,1],[1,0]], anti-diagonal forms, x0 x2 + x1^2, sums of hyperbolic planes and definite diagonal "
              "blocks, monomial (signed / scaled permutation) forms, block-diagonal forms, and batches of them: W^T B W is diagonal +-1 in the requested order and the returned inverse is the inverse")
def structured_forms(tier, rng, rep):
    N = 60 if tier == 'thorough' else 15
    rep.rule = "sizes 2..6; fixed list of sparse forms plus random symmetric monomial forms (one non-zero per row and column, entries +-[0.5, 3]) and random block sums; orders signed / minkowski, reverse or not; batches of 3 forms of the same kind"
    rep.bound = f"10 fixed + {N} random forms x 4 options"
    fixed = [np.array([[0., 1.], [1., 0.]]), np.array([[0., 0., 1.], [0., 1., 0.], [1., 0., 0.]]), np.array([[0., 2.], [2., 0.]]), np.fliplr(np.identity(4)), np.fliplr(np.identity(5)), np.fliplr(np.identity(6)),
             np.array([[0., 1., 0., 0.], [1., 0., 0., 0.], [0., 0., 1., 0.], [0., 0., 0., -2.]]), np.array([[0., 0., 0., 3.], [0., -1., 0., 0.], [0., 0., 1., 0.], [3., 0., 0., 0.]]),
             np.array([[1., 0., 0.], [0., 0., -1.], [0., -1., 0.]]), np.array([[0., -1.], [-1., 0.]])]

    def monomial(m):
        while True:
            perm = rng.permutation(m)
            if np.array_equal(np.argsort(perm), perm) and not np.array_equal(perm, np.arange(m)):        # an involution that is not the identity: the form is symmetric and not diagonal
                break
        B = np.zeros((m, m))
        for i in range(m):
            if perm[i] >= i:
                B[i, perm[i]] = B[perm[i], i] = rng.choice([-1, 1]) * rng.uniform(0.5, 3)
        return B
    forms = [(f, ()) for f in fixed]
    for t in range(N):
        m = int(rng.integers(2, 7))
        if t % 3 == 2:
            forms.append((np.stack([monomial(m) for _ in range(3)]), (3,)))
        else:
            forms.append((monomial(m), ()))
    for fi, (B, shape) in enumerate(forms):
        m = B.shape[-1]
        for order in ("signed", "minkowski"):
            for reverse in (False, True):
                if reverse and shape:
                    continue          # documented for one form of shape (n, n); stacks are exercised without the reversal option only
                inp = {"B": B.tolist(), "order": order, "reverse": reverse}

                def body():
                    W, Winv = utils.diagonalize_form(B.copy(), order_eigenvalues=order, reverse=reverse, with_inverse=True)
                    W, Winv = np.asarray(W, dtype=float), np.asarray(Winv, dtype=float)
                    D = np.swapaxes(W, -1, -2) @ B @ W
                    dg = np.diagonal(D, axis1=-2, axis2=-1)
                    if not np.all(np.abs(D - dg[..., None] * np.identity(m)) <= 1e-8) or not np.all(np.abs(np.abs(dg) - 1) <= 1e-8):
                        rep.fail("diagonalize_form_diag_pm1", f"W^T B W = {np.round(D, 6).tolist()}", inp); return
                    if not np.all(np.abs(W @ Winv - np.identity(m)) <= 1e-8):
                        rep.fail("diagonalize_form_inverse", "W @ Winv != I", inp); return
                    for idx in np.ndindex(*shape):
                        ev = np.linalg.eigvalsh(B[idx])
                        neg, pos = int((ev < 0).sum()), int((ev > 0).sum())
                        sg = np.sign(np.round(dg[idx]))
                        if int((sg < 0).sum()) != neg or int((sg > 0).sum()) != pos:
                            rep.fail("diagonalize_form_signature", f"signs {sg.tolist()} for a form of signature ({pos}, {neg})", inp); return
                        if order == "signed":
                            want = np.array([-1.0] * neg + [1.0] * pos)
                        else:
                            want = np.array([-1.0] * neg + [1.0] * pos) if neg <= pos else np.array([1.0] * pos + [-1.0] * neg)
                        if reverse:
                            want = want[::-1]
                        if not np.array_equal(sg, want):
                            rep.fail("diagonalize_form_order", f"diagonal signs {sg.tolist()} expected {want.tolist()}", inp); return
                rep.attempt("diagonalize_form_runs", inp, body)
                rep.case(key=(fi, order, reverse), nontrivial=True, sample=inp if (fi, order, reverse) == (0, "signed", False) else None)
                if len(rep.failures) >= 3:
                    return


@bounded(P, "orthogonal_complement_general_forms", functions=[U + "orthogonal_complement", U + "kernel", U + "indefinite_orthogonalize"],
         note="orthogonal complement of k rows for a general non-degenerate symmetric form (random non-diagonal forms of every signature, rescaled diagonal forms, Coxeter cosine forms) "
              "and the standard forms: n - k independent rows, each orthogonal to every given row for the form, mutually orthogonal with square-norm +-1 when normalised by the form")
def orthogonal_complement_general_forms(tier, rng, rep):
    N = 150 if tier == 'thorough' else 40
    rep.rule = "m = 2..6, k = 1..m-1 rows in general position (the form restricted to their span is non-degenerate); forms: Q diag Q^T with eigenvalues of modulus in [0.5, 2], diag(-2,1,3,..), cosine form of (2,3,7), standard Minkowski; batch shapes (), (3,)"
    rep.bound = f"{N} frames"
    for t in range(N):
        m = int(rng.integers(2, 7)); k = int(rng.integers(1, m))
        kind = t % 4
        if kind == 0:
            Q = np.linalg.qr(rng.normal(size=(m, m)))[0]
            F = Q @ np.diag(rng.uniform(0.5, 2, m) * rng.choice([-1, 1], size=m)) @ Q.T; F = (F + F.T) / 2
        elif kind == 1:
            F = np.diag(np.array([-2.0, 1.0, 3.0, 0.5, -1.5, 2.5])[:m])
        elif kind == 2 and m == 3:
            F = np.array([[1, -np.cos(np.pi / 2), -np.cos(np.pi / 7)], [-np.cos(np.pi / 2), 1, -np.cos(np.pi / 3)], [-np.cos(np.pi / 7), -np.cos(np.pi / 3), 1]])
        else:
            F = np.diag([-1.0] + [1.0] * (m - 1))
        batch = () if t % 3 else (3,)
        while True:
            X = rng.normal(size=batch + (k, m))
            G = X @ F @ np.swapaxes(X, -1, -2)
            if np.all(np.abs(np.linalg.det(G)) > 0.1):
                break
        inp = {"form": F.tolist(), "rows": X.tolist()}

        def body():
            C = np.asarray(utils.orthogonal_complement(X.copy(), F.copy()), dtype=float)
            if C.shape != batch + (m - k, m):
                rep.fail("complement_dimension", f"{C.shape}", inp); return
            pair = X @ F @ np.swapaxes(C, -1, -2)
            if not np.all(np.isfinite(C)) or not np.all(np.abs(pair) <= 1e-7 * (1 + np.max(np.abs(X)) * np.max(np.abs(C)))):
                rep.fail("complement_orthogonal_to_the_rows", f"max |<row, complement row>| = {np.max(np.abs(pair))}", inp); return
            Gc = C @ F @ np.swapaxes(C, -1, -2)
            dg = np.diagonal(Gc, axis1=-2, axis2=-1)
            if not np.all(np.abs(Gc - dg[..., None] * np.identity(m - k)) <= 1e-7) or not np.all(np.abs(np.abs(dg) - 1) <= 1e-7):
                rep.fail("complement_orthonormal_for_the_form", f"Gram matrix {np.round(Gc, 5).tolist()}", inp); return
            full = np.concatenate([X, C], axis=-2)
            if np.any(np.abs(np.linalg.det(full)) < 1e-9):
                rep.fail("complement_independent", "rows and complement do not span the space", inp)
        rep.attempt("orthogonal_complement_runs", inp, body)
        rep.case(key=(t,), nontrivial=kind != 3, sample=inp if t == 0 else None)
        if len(rep.failures) >= 3:
            return


@bounded(P, "forms_close_to_the_standard_ones", functions=[U + "apply_bilinear", U + "normsq", U + "normalize", U + "projection", U + "indefinite_orthogonalize", U + "find_isometry", U + "orthogonal_complement"],
         note="forms within 1e-9 .. 1e-4 of the identity / of diag(-1,1,..,1) but not equal to them: the orthonormalisation is with respect to the GIVEN form, to rounding accuracy "
              "(a routine that silently substitutes the standard form is off by the size of the perturbation)")
def forms_close_to_the_standard_ones(tier, rng, rep):
    N = 80 if tier == 'thorough' else 20
    rep.rule = "m = 2..6; B = S + E with S the identity or a Minkowski form and E diagonal or symmetric of size 1e-9, 1e-7, 8e-6, 1e-4; k = 2..m rows; indefinite_orthogonalize, find_isometry (k < m), orthogonal_complement; tolerance 1e-11"
    rep.bound = f"{N} forms x 4 sizes"
    for t in range(N):
        m = int(rng.integers(2, 7)); k = int(rng.integers(2, m + 1))
        S = np.identity(m) if t % 2 == 0 else np.diag([-1.0] + [1.0] * (m - 1))
        while True:
            X = rng.normal(size=(k, m))
            G = X @ S @ X.T
            if np.all(np.abs([np.linalg.det(G[:j, :j]) for j in range(1, k + 1)]) > 0.15):
                break
        for eps in (1e-9, 1e-7, 8e-6, 1e-4):
            E_ = np.diag(rng.uniform(-1, 1, m)) if t % 4 < 2 else (lambda Z: (Z + Z.T) / 2)(rng.uniform(-1, 1, size=(m, m)))
            B = S + eps * E_
            inp = {"form": B.tolist(), "rows": X.tolist(), "perturbation_size": eps}

            def body():
                R_ = np.asarray(utils.indefinite_orthogonalize(B.copy(), X.copy()), dtype=float)
                Gr = R_ @ B @ R_.T
                dg = np.diag(Gr)
                if not np.all(np.abs(Gr - np.diag(dg)) <= 1e-11 * (1 + np.max(np.abs(R_)) ** 2)) or not np.all(np.abs(np.abs(dg) - 1) <= 1e-11 * (1 + np.max(np.abs(R_)) ** 2)):
                    rep.fail("rows_orthonormal_for_the_given_form", f"perturbation {eps:g}: R B R^T deviates from diag(+-1) by {max(np.max(np.abs(Gr - np.diag(dg))), np.max(np.abs(np.abs(dg) - 1))):.2e}", inp); return
                if k < m:
                    M = np.asarray(utils.find_isometry(B.copy(), X.copy(), False), dtype=float)
                    Gm = M @ B @ M.T
                    if not np.all(np.abs(Gm - np.diag(np.diag(Gm))) <= 1e-10 * (1 + np.max(np.abs(M)) ** 2)) or not np.all(np.abs(np.abs(np.diag(Gm)) - 1) <= 1e-10 * (1 + np.max(np.abs(M)) ** 2)):
                        rep.fail("find_isometry_preserves_form", f"perturbation {eps:g}: M B M^T deviates from diag(+-1) by {np.max(np.abs(np.abs(Gm) - np.identity(m))):.2e}", inp); return
                    C = np.asarray(utils.orthogonal_complement(X.copy(), B.copy()), dtype=float)
                    if not np.all(np.abs(X @ B @ C.T) <= 1e-10 * (1 + np.max(np.abs(X)) * np.max(np.abs(C)))):
                        rep.fail("complement_orthogonal_to_the_rows", f"perturbation {eps:g}", inp); return
            rep.attempt("orthogonalize_runs", inp, body)
            rep.case(key=(t, eps), nontrivial=True, sample=inp if (t, eps) == (0, 8e-6) else None)
            if len(rep.failures) >= 3:
                return
