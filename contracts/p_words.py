"""Engine P contracts for word evaluation and free reduction (C05): unbounded in the word length, matrices abstract."""
import z3
from vf.pcontract import pcontract, Spec
from vf import pyvc
from vf.pyvc import Atom, Loc, Mat, I, B, VAtom, VInt, VBool, VWord, VOpt, VNone, VObj, VDict, VTuple, VFunc, VOpaque, VMat, Outcome, Refuse, fresh, word_loop

WA = z3.ArraySort(I, Atom)


class GroupVocab(Spec):
    """an abstract group: the generator images live in it (machine matrix arithmetic treated as exact)"""

    def __init__(self):
        super().__init__()
        self.mulf = z3.Function("mul", Mat, Mat, Mat)
        self.one = z3.Const("one", Mat)
        self.invf = z3.Function("inv", Mat, Mat)
        self.Gf = z3.Function("G", Atom, Mat)
        self.PPa = z3.Function("PPa", WA, I, Mat)      # product of the first i letters of a word
        self.invg = z3.Function("invg", Atom, Atom)    # formal inverse of a generator name

    def G(self, key):
        return self.Gf(key)

    def mul(self, a, b):
        return self.mulf(a, b)

    def group_axioms(self):
        x, y, z = z3.Consts("x_ y_ z_", Mat)
        return [z3.ForAll([x, y, z], self.mulf(self.mulf(x, y), z) == self.mulf(x, self.mulf(y, z))),
                z3.ForAll([x], z3.And(self.mulf(x, self.one) == x, self.mulf(self.one, x) == x)),
                z3.ForAll([x], z3.And(self.mulf(x, self.invf(x)) == self.one, self.mulf(self.invf(x), x) == self.one))]

    def pp_axioms(self):
        a, i = z3.Const("a_", WA), z3.Int("i_")
        return [z3.ForAll([a], self.PPa(a, 0) == self.one),
                z3.ForAll([a, i], z3.Implies(i >= 0, self.PPa(a, i + 1) == self.mulf(self.PPa(a, i), self.Gf(a[i]))))]

    def frame_lemma(self):
        """writing at or beyond position j does not change the product of the first i <= j letters (induction on i)"""
        a, i, j, x = z3.Const("a_", WA), z3.Int("i_"), z3.Int("j_"), z3.Const("x__", Atom)
        lemma = z3.ForAll([a, i, j, x], z3.Implies(z3.And(0 <= i, i <= j), self.PPa(z3.Store(a, j, x), i) == self.PPa(a, i)))
        a0, i0, j0, x0 = z3.Const("a0", WA), z3.Int("i0"), z3.Int("j0"), z3.Const("x0", Atom)
        P = lambda ii: self.PPa(z3.Store(a0, j0, x0), ii) == self.PPa(a0, ii)
        self._lemmas.append(("frame_base", [j0 >= 0], P(z3.IntVal(0)), self.pp_axioms()))
        self._lemmas.append(("frame_step", [z3.And(0 <= i0, i0 < j0), P(i0)], P(i0 + 1), self.pp_axioms()))
        return lemma


@pcontract("C05", "word_value", "geometry_tools/representation.py", "Representation._word_value")
class WordValue(GroupVocab):
    """_word_value(w) is the ordered product of the generator images of the letters of w, for words of ANY length;
    with the lemma below: the image of a concatenation is the product of the images"""

    def setup(self, ip, st, fd):
        self.word = VWord(z3.Const("w", WA), z3.Int("wlen"))
        gens = z3.Const("gens_loc", Loc)
        self.gens = gens
        obj = VObj({"generators": VDict(gens, ('dict', 'atom', 'mat')), "_dim": VOpaque("dim"), "dtype": VOpaque("dtype")}, "Representation")
        st.env.update({"self": obj, "word": self.word, "parse_simple": VNone(), "utils": VOpaque("utils")})
        self.axioms = self.pp_axioms()
        # callees by contract
        self.callees = {
            "Representation.parse_word": lambda ip_, s, base, args, kwargs, line: [('val', s, args[0])],   # simple words: the letters themselves
            "utils.identity": lambda ip_, s, base, args, kwargs, line: [('val', s, VMat(self.one))],
        }
        inv = lambda ip_, s, i, it: z3.And(i >= 0, i <= it.n, s.env["matrix"].t == self.PPa(it.arr, i))
        self.loops = {0: word_loop(inv, ["matrix", "gen"])}
        self.concatenation_lemma()
        return {}

    def requires(self, ip, st, ctx):
        j = z3.Int("j_")
        return [self.word.n >= 0,
                z3.ForAll([j], z3.Implies(z3.And(j >= 0, j < self.word.n), st.d_present(self.gens, self.word.arr[j])))]   # every letter is a generator name

    def post(self, ip, o, st0, ctx):
        if o.kind == 'return' and isinstance(o.value, VMat):
            return [("value_is_the_ordered_product", o.value.t == self.PPa(self.word.arr, self.word.n))]
        return [("no_other_outcome", z3.BoolVal(False))]

    def concatenation_lemma(self):
        """u ++ v: PP(uv, |u| + j) = PP(u, |u|) . PP(v, j)  (induction on j; uses associativity and the unit)"""
        u, v, c = z3.Const("u0", WA), z3.Const("v0", WA), z3.Const("c0", WA)
        nu, nv, j0, k = z3.Int("nu"), z3.Int("nv"), z3.Int("j0"), z3.Int("k_")
        cat = [nu >= 0, nv >= 0,
               z3.ForAll([k], z3.Implies(z3.And(k >= 0, k < nu), c[k] == u[k])),
               z3.ForAll([k], z3.Implies(z3.And(k >= 0, k < nv), c[nu + k] == v[k]))]
        ax = self.pp_axioms() + self.group_axioms()
        # (a) the prefix of length <= |u| of uv has the product of u's prefix (induction on i)
        i0 = z3.Int("i0")
        Pa = lambda ii: self.PPa(c, ii) == self.PPa(u, ii)
        self._lemmas.append(("concat_prefix_base", cat, Pa(z3.IntVal(0)), ax))
        self._lemmas.append(("concat_prefix_step", cat + [z3.And(0 <= i0, i0 < nu), Pa(i0)], Pa(i0 + 1), ax))
        # (b) induction on j, given (a) at i = |u|
        Pb = lambda jj: self.PPa(c, nu + jj) == self.mulf(self.PPa(u, nu), self.PPa(v, jj))
        self._lemmas.append(("concat_base", cat + [Pa(nu)], Pb(z3.IntVal(0)), ax))
        self._lemmas.append(("concat_step", cat + [Pa(nu), z3.And(0 <= j0, j0 < nv), Pb(j0)], Pb(j0 + 1), ax))


@pcontract("C05", "simplify_word", "geometry_tools/utils/words.py", "simplify_word")
class SimplifyWord(GroupVocab):
    """the result is freely reduced and has the same image as the input under every assignment of group elements with
    G(inverse name) = G(name)^-1  (the representation invariant established by _set_generator)"""

    def setup(self, ip, st, fd):
        self.word = VWord(z3.Const("w", WA), z3.Int("wlen"))
        self.var_kinds = {"simp": "word"}
        inverse_map = VFunc("inverse_map", ('builtin', lambda ip_, s, args, kwargs, line: [('val', s, VAtom(self.invg(ip_.as_atom(args[0], line))))]))
        st.env.update({"word": self.word, "inverse_map": inverse_map, "as_string": VBool(z3.Bool("as_string"))})
        x = z3.Const("x__", Atom)
        self.rep_inv = z3.ForAll([x], self.Gf(self.invg(x)) == self.invf(self.Gf(x)))
        self.axioms = self.pp_axioms() + self.group_axioms() + [self.rep_inv, self.frame_lemma()]

        def reduced(wd):
            k = z3.Int("k_")
            return z3.ForAll([k], z3.Implies(z3.And(k >= 0, k + 1 < wd.n), wd.arr[k + 1] != self.invg(wd.arr[k])))
        self.reduced = reduced

        def inv(ip_, s, i, it):
            simp = s.env["simp"]
            return z3.And(i >= 0, i <= it.n, simp.n >= 0, simp.n <= i, reduced(simp), self.PPa(simp.arr, simp.n) == self.PPa(it.arr, i))
        self.loops = {0: word_loop(inv, ["simp", "let"])}
        return {}

    def requires(self, ip, st, ctx):
        return [self.word.n >= 0]

    def post(self, ip, o, st0, ctx):
        if o.kind == 'return' and isinstance(o.value, VWord):
            r = o.value
            return [("result_is_freely_reduced", self.reduced(r)),
                    ("same_image", self.PPa(r.arr, r.n) == self.PPa(self.word.arr, self.word.n)),
                    ("not_longer", z3.And(r.n >= 0, r.n <= self.word.n))]
        return [("no_other_outcome", z3.BoolVal(False))]


@pcontract("C05", "formal_inverse", "geometry_tools/utils/words.py", "formal_inverse")
class FormalInverse(GroupVocab):
    """formal_inverse(w) is the reversed word of inverse names; with G(inverse name) = G(name)^-1 its image is the inverse
    of the image of w (lemma by induction on the length)"""

    def setup(self, ip, st, fd):
        self.word = VWord(z3.Const("w", WA), z3.Int("wlen"))
        inverse_map = VFunc("inverse_map", ('builtin', lambda ip_, s, args, kwargs, line: [('val', s, VAtom(self.invg(ip_.as_atom(args[0], line))))]))
        st.env.update({"word": self.word, "simple": VBool(z3.Bool("simple")), "inverse_map": inverse_map})
        self.axioms = []
        self.inverse_lemma()
        return {}

    def list_comprehension(self, ip, n, st):
        # [inverse_map(g) for g in word[::-1]] : the only comprehension of this function; recognised structurally
        import ast
        gen = n.generators[0]
        ok = (len(n.generators) == 1 and not gen.ifs and isinstance(gen.iter, ast.Subscript) and isinstance(gen.iter.slice, ast.Slice)
              and gen.iter.slice.lower is None and gen.iter.slice.upper is None and isinstance(gen.iter.slice.step, ast.UnaryOp)
              and isinstance(n.elt, ast.Call) and isinstance(n.elt.func, ast.Name) and n.elt.func.id == "inverse_map"
              and len(n.elt.args) == 1 and isinstance(n.elt.args[0], ast.Name) and n.elt.args[0].id == gen.target.id)
        if not ok:
            raise Refuse("unexpected comprehension in formal_inverse")
        w = self.word
        r = fresh(WA, "rev")
        k = z3.Int("k_")
        st.pc.append(z3.ForAll([k], z3.Implies(z3.And(k >= 0, k < w.n), r[k] == self.invg(w.arr[w.n - 1 - k]))))
        return [('val', st, VWord(r, w.n))]

    def requires(self, ip, st, ctx):
        return [self.word.n >= 0]

    def post(self, ip, o, st0, ctx):
        if o.kind == 'return' and isinstance(o.value, VWord):
            r, w = o.value, self.word
            k = z3.Int("k_")
            return [("reversed_word_of_inverse_names", z3.And(r.n == w.n, z3.ForAll([k], z3.Implies(z3.And(k >= 0, k < w.n), r.arr[k] == self.invg(w.arr[w.n - 1 - k])))))]
        return [("no_other_outcome", z3.BoolVal(False))]

    def inverse_lemma(self):
        """for r the reversed word of inverse names of w (length n):  PP(w, n) . PP(r, j) = PP(w, n - j)  (induction on j);
        at j = n:  PP(w, n) . PP(r, n) = 1"""
        w, r = z3.Const("w0", WA), z3.Const("r0", WA)
        n, j0, k, x = z3.Int("n0"), z3.Int("j0"), z3.Int("k_"), z3.Const("x__", Atom)
        hyp = [n >= 0, z3.ForAll([k], z3.Implies(z3.And(k >= 0, k < n), r[k] == self.invg(w[n - 1 - k]))),
               z3.ForAll([x], self.Gf(self.invg(x)) == self.invf(self.Gf(x)))]
        ax = self.pp_axioms() + self.group_axioms()
        Pj = lambda jj: self.mulf(self.PPa(w, n), self.PPa(r, jj)) == self.PPa(w, n - jj)
        self._lemmas.append(("inverse_image_base", hyp, Pj(z3.IntVal(0)), ax))
        self._lemmas.append(("inverse_image_step", hyp + [z3.And(0 <= j0, j0 < n), Pj(j0)], Pj(j0 + 1), ax))
