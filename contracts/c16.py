"""C16 - affine charts, affine maps and subspace operations in projective space (DESIGN.md section 3, C16)."""
import numpy as np
from vf.api import rcontract, bounded, dims, product
from geometry_tools import projective as pr, utils
from geometry_tools.base import GeometryError
from contracts import spec

P = "C16"
F = ["geometry_tools/projective.py:affine_coords", "geometry_tools/projective.py:projective_coords",
     "geometry_tools/utils/core.py:zeros", "geometry_tools/utils/core.py:number", "geometry_tools/utils/core.py:check_type"]


def _inputs(ctx, name, shape, cplx):
    return ctx.complexes(name, shape) if cplx else ctx.reals(name, shape)


def _nonzero(ctx, lam, cplx):
    if cplx and ctx.mode == 'sym':
        re, im = lam.re_im()
        ctx.assume(re * re + im * im, '>', 0)
    elif cplx:
        ctx.assume(abs(lam) ** 2, '>', 0)
    else:
        ctx.assume(lam * lam, '>', 0)


CHARTS = [dict(n=n, i=i, cplx=c) for n in (1, 2, 3) for i in range(n + 1) for c in (False, True)]
CHARTS_T = [dict(n=n, i=i, cplx=c) for n in (4, 5) for i in range(n + 1) for c in (False, True)]


@rcontract(P, "chart_roundtrip", instances=CHARTS, thorough=CHARTS_T, functions=F)
def chart_roundtrip(ctx, n, i, cplx):
    """projective_coords puts 1 in the chart slot and the affine coordinates elsewhere; after any non-zero rescaling
    affine_coords returns the same affine coordinates (two points at once, row layout)"""
    a = _inputs(ctx, 'a', (2, n), cplx)
    lam = _inputs(ctx, 'lam', (2,), cplx)
    for l in lam:
        _nonzero(ctx, l, cplx)
    x = pr.projective_coords(a, chart_index=i)
    ctx.ensure_true('shape', x.shape == (2, n + 1))
    ctx.ensure_eq('one_in_chart_slot', x[..., i], 1)
    ctx.ensure_eq('other_slots_are_the_affine_coords', np.delete(x, i, axis=-1), a)
    y = x * lam[:, None]
    back = pr.affine_coords(y, chart_index=i)
    ctx.ensure_eq('roundtrip_after_rescaling', back, a)
    P1 = pr.Point(np.array(y, copy=True))
    ctx.ensure_true('in_affine_chart', bool(np.all(P1.in_affine_chart(i))))
    ctx.ensure_eq('Point.affine_coords', P1.affine_coords(chart_index=i), a)
    ctx.ensure_eq('Point_from_affine', pr.Point(np.array(a, copy=True), chart_index=i).proj_data, x)


@rcontract(P, "chart_roundtrip_columns", instances=[dict(n=n, i=i, cplx=c) for n in (1, 2) for i in range(n + 1) for c in (False, True)],
           thorough=[dict(n=3, i=i, cplx=c) for i in range(4) for c in (False, True)], functions=F)
def chart_roundtrip_columns(ctx, n, i, cplx):
    """column-vector layout: points are the columns of an (n+1, k) array"""
    a = _inputs(ctx, 'a', (n, 2), cplx)
    lam = _inputs(ctx, 'lam', (2,), cplx)
    for l in lam:
        _nonzero(ctx, l, cplx)
    x = pr.projective_coords(a, chart_index=i, column_vectors=True)
    ctx.ensure_true('shape', x.shape == (n + 1, 2))
    ctx.ensure_eq('one_in_chart_slot', x[i, :], 1)
    back = pr.affine_coords(x * lam[None, :], chart_index=i, column_vectors=True)
    ctx.ensure_eq('roundtrip_after_rescaling', back, a)


@rcontract(P, "outside_chart_iff_zero", instances=CHARTS, thorough=CHARTS_T, functions=F + ["geometry_tools/projective.py:Point.in_affine_chart"])
def outside_chart_iff_zero(ctx, n, i, cplx):
    """a point is reported outside chart i exactly when its i-th homogeneous coordinate is zero
    (complex: including purely imaginary chart coordinates, which are NOT zero)"""
    x = _inputs(ctx, 'x', (n + 1,), cplx)
    # (1) chart coordinate exactly zero -> GeometryError, in_affine_chart False
    z = np.array(x, copy=True)
    z[i] = 0 * z[i]
    try:
        pr.affine_coords(z, chart_index=i)
        raised = False
    except GeometryError:
        raised = True
    ctx.ensure_true('zero_chart_coordinate_raises', raised)
    ctx.ensure_true('in_affine_chart_false', not bool(pr.Point(np.array(z, copy=True)).in_affine_chart(i)))
    # (2) non-zero chart coordinate -> no error, quotient formula
    _nonzero(ctx, x[i], cplx)
    try:
        out = pr.affine_coords(np.array(x, copy=True), chart_index=i)
        ok = True
    except GeometryError:
        ok, out = False, None
    ctx.ensure_true('nonzero_chart_coordinate_accepted', ok)
    if ok:
        ctx.ensure_eq('quotient_formula', out, np.delete(x, i) / x[i])
    if cplx:
        # (3) purely imaginary chart coordinate
        y = np.array(x, copy=True)
        im = ctx.real('im', lambda r: r.choice([-1, 1]) * r.uniform(0.5, 2))
        ctx.assume(im * im, '>', 0)
        y[i] = im * (1j if ctx.mode == 'num' else ctx.world.I())
        try:
            out = pr.affine_coords(np.array(y, copy=True), chart_index=i)
            ok = True
        except GeometryError:
            ok = False
        ctx.ensure_true('purely_imaginary_chart_coordinate_accepted', ok)
        if ok:
            ctx.ensure_eq('quotient_formula_imaginary', out, np.delete(y, i) / y[i])


@rcontract(P, "affine_linear_map", instances=[dict(n=n, i=i) for n in (1, 2, 3) for i in range(n + 1)],
           thorough=[dict(n=4, i=i) for i in range(5)],
           functions=["geometry_tools/projective.py:affine_linear_map", "geometry_tools/projective.py:Transformation.__init__",
                      "geometry_tools/projective.py:Transformation.apply", "geometry_tools/utils/core.py:matrix_product"])
def affine_linear_map(ctx, n, i):
    """the projective map built from a linear map L acts in chart i as L"""
    L = ctx.reals('L', (n, n))
    a = ctx.reals('a', (2, n))
    T = pr.affine_linear_map(L, chart_index=i)
    img = (T @ pr.Point(np.array(a, copy=True), chart_index=i)).affine_coords(chart_index=i)
    ctx.ensure_eq('acts_as_L', img, (L @ a.T).T)


@rcontract(P, "affine_translation", instances=[dict(n=n, i=i) for n in (1, 2, 3) for i in range(n + 1)],
           thorough=[dict(n=4, i=i) for i in range(5)],
           functions=["geometry_tools/projective.py:affine_translation", "geometry_tools/projective.py:Transformation.apply"])
def affine_translation(ctx, n, i):
    t = ctx.reals('t', (n,))
    a = ctx.reals('a', (2, n))
    T = pr.affine_translation(t, chart_index=i)
    img = (T @ pr.Point(np.array(a, copy=True), chart_index=i)).affine_coords(chart_index=i)
    ctx.ensure_eq('acts_as_translation', img, a + t)


def _minors_zero(rows, k):
    """all k x k minors of the matrix `rows` (k rows): zero iff rank < k"""
    import itertools
    from vf.rrun import _det_obj
    m = rows.shape[-1]
    out = []
    for cols in itertools.combinations(range(m), k):
        sub = rows[..., :, list(cols)]
        out.append(_det_obj(np.asarray(sub, dtype=object)) if sub.dtype == object else np.linalg.det(sub.astype(float)))
    return np.stack([np.asarray(o) for o in out], axis=-1)


@rcontract(P, "subspace_intersect", instances=[dict(n=2, k1=2, k2=2), dict(n=3, k1=3, k2=2)],
           thorough=[dict(n=3, k1=3, k2=3)], timeout=30.0,
           functions=["geometry_tools/projective.py:Subspace.intersect", "geometry_tools/utils/core.py:kernel", "geometry_tools/utils/core.py:matrix_product"])
def subspace_intersect(ctx, n, k1, k2):
    """transverse subspaces: every row of the result lies in both spans, expected dimension k1+k2-(n+1)"""
    A = ctx.reals('A', (k1, n + 1))
    B = ctx.reals('B', (k2, n + 1))
    # general position (transversality), stated on the leading minor of the stacked spanning sets; the other
    # pivot charts of the full-rank locus are covered by the bounded stand-in only
    from vf.rrun import _det_obj
    lead = np.concatenate([A, B], axis=0)[:n + 1]
    dl = _det_obj(np.asarray(lead, dtype=object)) if ctx.mode == 'sym' else np.linalg.det(lead)
    ctx.assume(dl * dl, '>', 0)
    S = pr.Subspace(np.array(A, copy=True)).intersect(pr.Subspace(np.array(B, copy=True)))
    R = S.proj_data
    d = k1 + k2 - (n + 1)
    ctx.ensure_true('expected_dimension', R.shape == (d, n + 1), f"{R.shape}")
    for r in range(d):
        if k1 < n + 1:
            ctx.ensure_eq(f'row{r}_in_first', _minors_zero(np.concatenate([A, R[r:r + 1]], axis=0), k1 + 1), 0, tol=1e-6)
        if k2 < n + 1:
            ctx.ensure_eq(f'row{r}_in_second', _minors_zero(np.concatenate([B, R[r:r + 1]], axis=0), k2 + 1), 0, tol=1e-6)


@bounded(P, "sampling", functions=["geometry_tools/projective.py:Subspace.intersect", "geometry_tools/projective.py:Transformation.eigenvector",
                                   "geometry_tools/projective.py:Transformation.diagonalize", "geometry_tools/projective.py:hyperplane_coordinate_transform",
                                   "geometry_tools/utils/core.py:find_definite_isometry", "geometry_tools/utils/core.py:broadcast_match"],
         note="intersect elementwise/pairwise on composites, eigenvector / diagonalize (numpy.linalg.eig), hyperplane_coordinate_transform (numpy.linalg.qr)")
def sampling(tier, rng, rep):
    N = 300 if tier == 'thorough' else 60
    rep.rule = "random real/complex instances, dimension 1..5; hyperplane normals also structured (coordinate hyperplanes, zero 0-th coordinate, integer); non-trivial = generic (full-rank, distinct eigenvalues) instance"
    rep.bound = f"{N} rounds of 4 sub-checks"
    for t in range(N):
        n = int(rng.integers(2, 6))
        # --- intersect, elementwise and pairwise, composite
        k1 = int(rng.integers(max(2, n + 2 - n), n + 1)); k2 = n + 1 - k1 + int(rng.integers(1, k1 + 1))
        k2 = min(max(k2, 1), n)
        if k1 + k2 > n + 1:
            A = rng.normal(size=(3, k1, n + 1)); B = rng.normal(size=(3, k2, n + 1))
            if t % 3 == 2:       # subspaces of complex projective space
                A = A + 1j * rng.normal(size=A.shape); B = B + 1j * rng.normal(size=B.shape)
            if t % 4 == 1:       # long spanning vectors on the first operand (a subspace does not depend on the length of the vectors spanning it)
                A = A * 10.0 ** float(rng.choice([9, 12]))
            elif t % 4 == 3:     # ... or one long spanning vector per subspace
                A = A.copy(); A[:, 0, :] *= 1e10
            for mode, Bm in (("elementwise", B), ("pairwise", B[:2]), ("pairwise", B)):
                d = k1 + k2 - (n + 1)
                inp = {"n": n, "k1": k1, "k2": k2, "mode": mode, "A_re": A.real.tolist(), "A_im": np.imag(A).tolist(), "B_re": Bm.real.tolist(), "B_im": np.imag(Bm).tolist()}
                S = rep.attempt("intersect_runs", inp, lambda: pr.Subspace(A.copy()).intersect(pr.Subspace(Bm.copy()), broadcast=mode).proj_data)
                if S is None:
                    continue
                want_shape = ((3,) if mode == "elementwise" else (3, len(Bm))) + (d, n + 1)
                if S.shape != want_shape:
                    rep.fail("intersect_shape", f"{S.shape} != {want_shape}", inp)
                    continue
                for idx in np.ndindex(*S.shape[:-2]):
                    a = A[idx[0]]; b = Bm[idx[0]] if mode == "elementwise" else Bm[idx[1]]
                    s = S[idx]
                    # (ranks of row-normalised stacks: the spanning vectors may be of very different length)
                    un = lambda m_: m_ / np.linalg.norm(m_, axis=-1, keepdims=True)
                    if np.linalg.matrix_rank(un(s), tol=1e-8) != d:
                        rep.fail("intersect_dimension", "rank deficient result", inp)
                    if np.linalg.matrix_rank(np.vstack([un(a), un(s)]), tol=1e-6) != k1 or np.linalg.matrix_rank(np.vstack([un(b), un(s)]), tol=1e-6) != k2:
                        rep.fail("intersect_in_both", f"result rows not in both subspaces at index {idx}", inp)
                rep.case(key=("int", t, mode, len(Bm)), sample=inp if t == 0 else None)
            # one SINGLE subspace against a composite of subspaces (of another dimension in general), pairwise (elementwise refuses operands of different rank loudly)
            for side in ("single_first", "single_second"):
                for mode in ("pairwise",):
                    a_s, b_s = (A[0], B) if side == "single_first" else (A, B[0])
                    inp = {"n": n, "k1": k1, "k2": k2, "mode": mode, "operands": side, "A_re": np.real(a_s).tolist(), "A_im": np.imag(a_s).tolist(), "B_re": np.real(b_s).tolist(), "B_im": np.imag(b_s).tolist()}
                    S = rep.attempt("intersect_runs", inp, lambda: pr.Subspace(a_s.copy()).intersect(pr.Subspace(b_s.copy()), broadcast=mode).proj_data)
                    if S is None:
                        continue
                    d = k1 + k2 - (n + 1)
                    S = np.asarray(S)
                    if S.shape[-2:] != (d, n + 1) or int(np.prod(S.shape[:-2])) != 3:
                        rep.fail("intersect_shape", f"{side}, {mode}: result of shape {S.shape} for one subspace against three (expected three intersections of {d} spanning vectors)", inp); continue
                    Sf = S.reshape((3, d, n + 1))
                    un = lambda m_: m_ / np.linalg.norm(m_, axis=-1, keepdims=True)
                    for i3 in range(3):
                        a_ = A[0] if side == "single_first" else A[i3]
                        b_ = B[i3] if side == "single_first" else B[0]
                        if np.linalg.matrix_rank(un(Sf[i3]), tol=1e-8) != d or np.linalg.matrix_rank(np.vstack([un(a_), un(Sf[i3])]), tol=1e-6) != k1 or np.linalg.matrix_rank(np.vstack([un(b_), un(Sf[i3])]), tol=1e-6) != k2:
                            rep.fail("intersect_in_both", f"{side}, {mode}: intersection {i3}", inp); break
                    rep.case(key=("int1", t, side, mode))
        # --- eigenvector / diagonalize
        cplx = bool(t % 2)
        M = rng.normal(size=(n + 1, n + 1)) + (1j * rng.normal(size=(n + 1, n + 1)) if cplx else 0)
        # structured matrices: symmetric (real, and complex symmetric which is NOT Hermitian), complex diagonal, Hermitian
        struct = ["generic", "symmetric", "complex_diagonal", "hermitian", "generic", "symmetric"][t % 6]
        if struct == "symmetric":
            M = M + M.T
        elif struct == "complex_diagonal":
            M = np.diag(rng.normal(size=n + 1) + 1j * rng.normal(size=n + 1))
        elif struct == "hermitian":
            M = M + np.conjugate(M.T)
        T = pr.Transformation(M.copy())
        ev, _ = np.linalg.eig(M.T)
        lam = ev[int(rng.integers(0, n + 1))]
        inp = {"n": n, "M_re": M.real.tolist(), "M_im": np.imag(M).tolist(), "eigenvalue": [lam.real, lam.imag]}
        v = rep.attempt("eigenvector_runs", inp, lambda: T.eigenvector(lam).proj_data)       # (a true eigenvalue must not be refused)
        if v is not None:
            img = (T @ pr.Point(v.copy())).proj_data
            if not np.all(np.abs(img - lam * v) <= 1e-7 * (1 + np.max(np.abs(M))) * max(1.0, np.max(np.abs(v)))) or np.max(np.abs(v)) == 0:
                rep.fail("eigenvector", "T @ v != lambda v", inp)
        res_d = rep.attempt("diagonalize_runs", inp, lambda: T.diagonalize(return_inv=True))
        if res_d is None:
            rep.case(key=("eig", t))
            continue
        C, Cinv = res_d
        # frame rows are eigenvectors (row convention): C.matrix @ M = diag @ C.matrix
        cm = C.proj_data
        prod = cm @ M @ np.linalg.inv(cm)
        off = prod - np.diag(np.diag(prod))
        if not np.all(np.abs(off) <= 1e-6 * (1 + np.max(np.abs(prod)))):
            rep.fail("diagonalize", "conjugate by the diagonalising frame is not diagonal", inp)
        if not np.all(np.abs(cm @ Cinv.proj_data - np.eye(n + 1)) <= 1e-7):
            rep.fail("diagonalize_inverse", "returned inverse is not the inverse", inp)
        rep.case(key=("eig", t))
        # --- the same for a composite (stack) of transformations, with and without the inverse frame: unit by unit
        kst = [n + 1, 2, 1, 4][t % 4]
        Ms = rng.normal(size=(kst, n + 1, n + 1)) + (1j * rng.normal(size=(kst, n + 1, n + 1)) if cplx else 0)
        inp = {"n": n, "stack": kst, "M_re": Ms.real.tolist(), "M_im": np.imag(Ms).tolist()}

        def stack():
            Ts = pr.Transformation(Ms.copy())
            Cs, Csinv = Ts.diagonalize(return_inv=True)
            C0 = Ts.diagonalize()
            cms, cis, c0 = np.asarray(Cs.proj_data), np.asarray(Csinv.proj_data), np.asarray(C0.proj_data)
            if cms.shape != Ms.shape or cis.shape != Ms.shape or c0.shape != Ms.shape:
                rep.fail("diagonalize", f"composite of {kst}: frames of shape {cms.shape}, inverses {cis.shape}", inp); return
            for j in range(kst):
                for nm, fr in (("frame", cms[j]), ("frame_without_inverse", c0[j])):
                    prod_ = fr @ Ms[j] @ np.linalg.inv(fr)
                    off_ = prod_ - np.diag(np.diag(prod_))
                    if not np.all(np.abs(off_) <= 1e-6 * (1 + np.max(np.abs(prod_))) * np.linalg.cond(fr)):
                        rep.fail("diagonalize", f"unit {j} of a composite of {kst}: conjugate by the {nm} is not diagonal", inp); return
                if not np.all(np.abs(cms[j] @ cis[j] - np.eye(n + 1)) <= 1e-7 * np.linalg.cond(cms[j])):
                    rep.fail("diagonalize_inverse", f"unit {j} of a composite of {kst}: returned inverse is not the inverse", inp); return
        rep.attempt("diagonalize_runs", inp, stack)
        rep.case(key=("eig_stack", t), nontrivial=kst > 1)
        # --- hyperplane_coordinate_transform
        nv = rng.normal(size=n + 1)
        if t % 3 == 1:       # structured normals: coordinate hyperplanes, hyperplanes through [1:0:...:0], integer normals
            nv = rng.integers(-2, 3, size=n + 1).astype(float)
            if t % 2:
                nv[0] = 0.0
            if t % 9 == 1:
                nv = np.eye(n + 1)[int(rng.integers(0, n + 1))] * rng.choice([-1.0, 1.0, 2.0])
            if not np.any(nv):
                nv[-1] = 1.0
        Th = pr.hyperplane_coordinate_transform(nv.copy())
        mat = Th.proj_data
        if not np.all(np.abs(mat @ mat.T - np.eye(n + 1)) <= 1e-9):
            rep.fail("hyperplane_transform_orthogonal", "not orthogonal", {"normal": nv.tolist()})
        # points of {x.n = 0} go to {x_0 = 0}
        basis = np.linalg.svd(nv[None, :])[2][1:]
        img = (Th @ pr.Point(basis.copy())).proj_data
        if not np.all(np.abs(img[..., 0]) <= 1e-9):
            rep.fail("hyperplane_sent_to_infinity", f"first coordinate {np.max(np.abs(img[..., 0]))}", {"normal": nv.tolist()})
        rep.case(key=("hyp", t))


@bounded(P, "automatic_chart", functions=["geometry_tools/projective.py:affine_coords", "geometry_tools/projective.py:projective_coords"],
         note="module-level affine_coords with chart_index=None (the chart is chosen automatically): either a chart containing ALL the points is returned, with finite coordinates that "
              "convert back to the same points, or - when no standard chart contains all of them (for every index some point has that coordinate exactly zero) - the call is refused")
def automatic_chart(tier, rng, rep):
    N = 100 if tier == 'thorough' else 25
    rep.rule = "n = 1..5, real and complex; families: generic points, generic points with some exact zeros but a common chart, the standard basis e_0..e_n (no common chart), generic points plus the basis, one zero per point along the diagonal; composite shapes (k,), (2,k)"
    rep.bound = f"{N} rounds x 5 families"
    for t in range(N):
        n = 1 + t % 5
        cplx = bool((t // 5) % 2)
        def gen(shape):
            return rng.normal(size=shape + (n + 1,)) + (1j * rng.normal(size=shape + (n + 1,)) if cplx else 0)
        fams = {}
        fams["generic"] = gen((4,))
        z = gen((n + 2,)); z[np.arange(n), np.arange(n)] = 0; fams["zeros_but_common_chart"] = z          # chart n is never zero
        fams["standard_basis"] = np.identity(n + 1) * (1j if cplx else 1.0)
        fams["generic_plus_basis"] = np.concatenate([gen((3,)), np.identity(n + 1)], axis=0)
        dz = gen((n + 1,)); dz[np.arange(n + 1), np.arange(n + 1)] = 0; fams["diagonal_zeros"] = dz
        fams["grid_with_basis"] = np.stack([np.identity(n + 1), np.identity(n + 1)[::-1]])
        for fname, pts in fams.items():
            inp = {"n": n, "family": fname, "complex": cplx, "points_re": np.real(pts).tolist(), "points_im": np.imag(pts).tolist()}
            has_common = bool(np.any(np.all(pts.reshape(-1, n + 1) != 0, axis=0)))

            def body():
                try:
                    with np.errstate(all='ignore'):
                        res = pr.affine_coords(pts.copy())
                except pr.GeometryError:
                    if has_common:
                        rep.fail("outside_chart_iff_chart_coordinate_zero", f"{fname}: refused although chart(s) {np.nonzero(np.all(pts.reshape(-1, n + 1) != 0, axis=0))[0].tolist()} contain all the points", inp)
                    return
                aff, ci = res
                aff = np.asarray(aff)
                if not has_common:
                    rep.fail("outside_chart_iff_chart_coordinate_zero", f"{fname}: no standard chart contains all the points, yet chart {int(ci)} was reported with coordinates {'containing inf/nan' if not np.all(np.isfinite(aff)) else 'finite'}", inp); return
                if np.any(pts[..., int(ci)] == 0) or not np.all(np.isfinite(aff)):
                    rep.fail("outside_chart_iff_chart_coordinate_zero", f"{fname}: chart {int(ci)} reported, but a point has that coordinate equal to zero", inp); return
                back = np.asarray(pr.projective_coords(aff, chart_index=int(ci)))
                m = back[..., :, None] * pts[..., None, :]
                if back.shape != pts.shape or not np.all(np.abs(m - np.swapaxes(m, -1, -2)) <= 1e-9 * max(1.0, np.max(np.abs(m)))):
                    rep.fail("chart_round_trip", f"{fname}: chart {int(ci)}", inp)
            rep.attempt("affine_coords_runs", inp, body)
            rep.case(key=(t, fname), nontrivial=not has_common or fname == "zeros_but_common_chart", sample=inp if (t, fname) == (1, "standard_basis") else None)
            if len(rep.failures) >= 3:
                return
