"""C09 - an automaton's three views stay coherent however it was built or edited (DESIGN.md section 3, C09)."""
import copy
import os
import re
import itertools
import numpy as np
from vf.api import bounded
from geometry_tools.automata import fsa, gap_parse, kbmag_utils
from contracts.fsa_model import Model, coherence_error, all_deterministic_automata
import contracts.p_fsa  # Engine P contracts (registered on import)

P = "C09"
A = "geometry_tools/automata/fsa.py:"
F_ALL = [A + "FSA.__init__", A + "FSA._defaultify_out_dict", A + "FSA._from_graph_dict", A + "FSA._build_graph_dict", A + "FSA._build_in_dict", A + "_hidden_vertices",
         A + "FSA.add_vertices", A + "FSA.add_edges", A + "FSA.delete_vertices", A + "FSA.delete_vertex", A + "FSA.recurrent", A + "FSA.rename_generators",
         A + "free_automaton", A + "_from_gap_record", A + "load_builtin", "geometry_tools/automata/kbmag_utils.py:build_dict",
         "geometry_tools/automata/gap_parse.py:parse_record", "geometry_tools/automata/gap_parse.py:parse_contents", "geometry_tools/automata/gap_parse.py:parse_list"]

VERTS = [0, 1, 2]
LABELS = ["a", "b"]


def _ops():
    ops = []
    for v in VERTS:
        ops.append(("add_vertex", v))
        ops.append(("delete_vertex", v))
    ops.append(("add_vertices_one_shot", (1, 2)))        # the vertices handed over as a generator expression / iterator
    for v in VERTS:
        for w in VERTS:
            for l in LABELS:
                ops.append(("add_edge", v, w, l))
            ops.append(("add_edges_elist", v, w, tuple(LABELS)))
    ops.append(("rename_swap",))
    ops.append(("rename_fresh",))
    ops.append(("recurrent_inplace",))
    ops.append(("copy",))
    return ops


def apply_op(F, M, op):
    """apply one operation to the real automaton and to the model; returns (F, M, applicable)"""
    kind = op[0]
    if kind == "add_vertex":
        F.add_vertices([op[1]]); M.add_vertices([op[1]])
    elif kind == "add_vertices_one_shot":
        F.add_vertices(v for v in op[1]); M.add_vertices(list(op[1]))
        F.add_vertices(iter([0])); M.add_vertices([0])
    elif kind == "delete_vertex":
        if op[1] not in M.V:
            return F, M, False
        F.delete_vertex(op[1]); M.delete_vertex(op[1])
    elif kind == "add_edge":
        _, v, w, l = op
        t = M.step(v, l)
        if t is not None and t != w:
            return F, M, False          # would make the automaton non-deterministic (outside the class's contract)
        F.add_edges([(v, w, l)]); M.add_edge(v, w, l)
    elif kind == "add_edges_elist":
        _, v, w, ls = op
        if any(M.step(v, l) not in (None, w) for l in ls):
            return F, M, False
        F.add_edges([(v, w, list(ls))], elist=True)
        for l in ls:
            M.add_edge(v, w, l)
    elif kind == "rename_swap":
        mp = {"a": "b", "b": "a", "x": "y", "y": "x"}
        F.rename_generators(mp); M.rename(mp)
    elif kind == "rename_fresh":
        mp = {"a": "x", "b": "y", "x": "a", "y": "b"}
        F.rename_generators(mp); M.rename(mp)
    elif kind == "recurrent_inplace":
        F.recurrent(inplace=True)
        keep = M.recurrent_vertices()
        for v in list(M.V - keep):
            M.delete_vertex(v)
    elif kind == "copy":
        F = copy.deepcopy(F); M = M.copy()
    return F, M, True


ROUTES = ["empty", "graph_dict", "out_dict", "hidden_vertex", "free_automaton_like"]


def construct(route):
    if route == "empty":
        return fsa.FSA({}, start_vertices=[0]), Model()
    if route == "graph_dict":
        d = {0: {"a": 1, "b": 0}, 1: {"a": 1}}
        return fsa.FSA(d, [0]), Model.from_graph_dict(d)
    if route == "out_dict":
        d = {0: {1: ["a", "b"]}, 1: {0: ["a"], 1: ["b"]}}
        return fsa.FSA(d, [0], graph_dict=False), Model.from_out_dict(d)
    if route == "hidden_vertex":
        d = {0: {"a": 2, "b": 1}}
        return fsa.FSA(d, [0]), Model.from_graph_dict(d)
    d = {0: {"a": 1, "b": 2}, 1: {"a": 1}, 2: {"b": 2}}
    return fsa.FSA(d, [0]), Model.from_graph_dict(d)


@bounded(P, "histories_exhaustive", functions=F_ALL, note="all operation histories up to depth k over 3 vertices x 2 labels from 5 construction routes")
def histories_exhaustive(tier, rng, rep):
    depth = 3 if tier == 'thorough' else 2
    ops = _ops()
    rep.rule = (f"bounded-exhaustive: every sequence of <= {depth} operations from {len(ops)} operations (add vertex, delete vertex, add single edge, add edge list, "
                "rename (2 maps), prune in place, deep copy) after each of 5 construction routes; operations that would break determinism are skipped (class contract); "
                "after EVERY step the three views are compared with each other and with the set model; non-trivial = history with >= 2 applicable operations")
    rep.exhaustive = True
    rep.bound = f"depth {depth}"
    for route in ROUTES:
        for L in range(0, depth + 1):
            for seq in itertools.product(ops, repeat=L):
                F, M = construct(route)
                hist = [route]
                err = coherence_error(F, M)
                napp = 0
                if err is None:
                    for op in seq:
                        hist.append(op)
                        try:
                            F, M, ok = apply_op(F, M, op)
                        except Exception as e:
                            err = f"raised {type(e).__name__}: {e}"
                            break
                        napp += ok
                        err = coherence_error(F, M)
                        if err:
                            break
                rep.case(key=(route, seq), nontrivial=napp >= 2, sample={"history": [list(map(str, h_)) if isinstance(h_, tuple) else h_ for h_ in hist]} if (route == "graph_dict" and L == 2 and rep.evaluations % 97 == 0) else None)
                if err:
                    rep.fail("views_coherent_and_equal_model", f"after {hist}: {err}", {"history": [list(h_) if isinstance(h_, tuple) else h_ for h_ in hist]})
                    if len(rep.failures) >= 3:
                        return


@bounded(P, "histories_random", functions=F_ALL, note="long random histories")
def histories_random(tier, rng, rep):
    N = 1500 if tier == 'thorough' else 300
    ops = _ops()
    rep.rule = "random histories of length 5..25 from the same operations; non-trivial = history containing a delete, rename or prune"
    rep.bound = f"{N} histories"
    for t in range(N):
        route = ROUTES[t % len(ROUTES)]
        F, M = construct(route)
        hist = [route]
        nontriv = False
        for _ in range(int(rng.integers(5, 26))):
            op = ops[int(rng.integers(0, len(ops)))]
            hist.append(op)
            try:
                F, M, ok = apply_op(F, M, op)
            except Exception as e:
                rep.fail("views_coherent_and_equal_model", f"after {hist}: raised {type(e).__name__}: {e}", {"history": [list(h_) if isinstance(h_, tuple) else h_ for h_ in hist]})
                break
            nontriv |= ok and op[0] in ("delete_vertex", "rename_swap", "rename_fresh", "recurrent_inplace")
            err = coherence_error(F, M)
            if err:
                rep.fail("views_coherent_and_equal_model", f"after {hist}: {err}", {"history": [list(h_) if isinstance(h_, tuple) else h_ for h_ in hist]})
                break
        rep.case(key=(t,), nontrivial=nontriv, sample={"history": [list(h_) if isinstance(h_, tuple) else h_ for h_ in hist]} if t == 0 else None)
        if len(rep.failures) >= 3:
            return


@bounded(P, "construction_routes", functions=F_ALL, note="all deterministic automata with <=3 states over 2 labels through both dictionary routes, deep copy, free automata, built-in files")
def construction_routes(tier, rng, rep):
    rep.rule = ("every graph_dict on <=3 states over {a,b} (exhaustive for <=2 states, all 4096 three-state ones in thorough / 400 sampled in quick), built through the label->target and "
                "the target->labels route and deep-copied; free automata on 1..3 generators; all built-in automata; non-trivial = at least 2 edges")
    cases = [d for n in (1, 2) for d in all_deterministic_automata(n, LABELS)]
    three = list(all_deterministic_automata(3, LABELS))
    if tier != 'thorough':
        three = [three[i] for i in rng.choice(len(three), size=400, replace=False)]
    cases += three
    rep.bound = f"{len(cases)} dictionaries x 3 routes"
    for d in cases:
        M = Model.from_graph_dict(d)
        nontriv = len(M.E) >= 2
        for route in ("graph", "out", "copy"):
            try:
                if route == "graph":
                    F = fsa.FSA(copy.deepcopy(d), [0])
                elif route == "out":
                    od = {v: {} for v in d}
                    for v, nb in d.items():
                        for l, w in nb.items():
                            od[v].setdefault(w, []).append(l)
                    F = fsa.FSA(od, [0], graph_dict=False)
                else:
                    F = copy.deepcopy(fsa.FSA(copy.deepcopy(d), [0]))
                Mr = M if route != "out" else Model(set(d), M.E)     # the target->labels route does not add hidden vertices (all targets are keys here)
                err = coherence_error(F, Mr)
                if not err and route in ("graph", "out") and M.E:
                    # the caller's dictionary is the caller's: a second automaton built from the same dictionary, and the
                    # dictionary itself, do not change when the first automaton gets a parallel edge
                    src = copy.deepcopy(d) if route == "graph" else copy.deepcopy(od)
                    keep = copy.deepcopy(src)
                    mk = (lambda x: fsa.FSA(x, [0])) if route == "graph" else (lambda x: fsa.FSA(x, [0], graph_dict=False))
                    F1, F2 = mk(src), mk(src)
                    (a_, l_, b_) = sorted(M.E, key=repr)[0]
                    F1.add_edges([(a_, b_, "zz")])
                    if src != keep:
                        err = f"the caller's dictionary was modified by an edit of the automaton built from it: {src} (was {keep})"
                    else:
                        err = coherence_error(F2, Mr)
                        err = err and "a second automaton built from the same dictionary changed when the first was edited: " + err
            except Exception as e:
                err = f"raised {type(e).__name__}: {e}"
            rep.case(key=(repr(d), route), nontrivial=nontriv, sample={"graph_dict": {str(k): v for k, v in d.items()}, "route": route} if rep.evaluations == 50 else None)
            if err:
                rep.fail("constructor_views", f"{route} route of {d}: {err}", {"graph_dict": {str(k): v for k, v in d.items()}, "route": route})
                if len(rep.failures) >= 3:
                    return
    for gens in (["a"], ["a", "b"], ["a", "b", "c"]):
        F = fsa.free_automaton(gens)
        allg = gens + [g.upper() for g in gens]
        Mm = Model([""] + allg, {(g, h_, h_) for g in [""] + allg for h_ in allg if h_.swapcase() != g})
        err = coherence_error(F, Mm)
        rep.case(key=("free", tuple(gens)))
        if err:
            rep.fail("free_automaton_views", f"{gens}: {err}", {"generators": gens})
    for name in sorted(fsa.list_builtins()):
        inp = {"builtin": name}
        try:
            with open(os.path.join(os.path.dirname(fsa.__file__), fsa.BUILTIN_DIR, name)) as fh:
                names, table, initial = _read_table(fh.read())
            want = {i + 1: {names[j]: r[j] for j in range(len(names)) if r[j] != 0} for i, r in enumerate(table)}
            F = fsa.load_builtin(name)
            M1 = Model.from_graph_dict(want)
            err = coherence_error(F, M1)
            if not err and list(F.start_vertices) != [initial]:
                err = f"start vertices {F.start_vertices} vs [{initial}]"
            if not err:
                # history over two automata obtained from the same file: each is its own object with its own history
                v1 = sorted(M1.V)[-1]
                F.delete_vertex(v1); M1.delete_vertex(v1)
                F.add_vertices(["fresh"]); M1.add_vertices(["fresh"])
                F.add_edges([("fresh", "fresh", names[0])]); M1.add_edge("fresh", "fresh", names[0])
                inp["history"] = f"load, delete_vertex({v1}), add vertex and loop 'fresh'; load again; delete_vertex on the second"
                F2 = fsa.load_builtin(name)
                M2 = Model.from_graph_dict(want)
                err = coherence_error(F2, M2) or coherence_error(F, M1)
                if not err:
                    v2 = sorted(M2.V)[0]
                    F2.delete_vertex(v2); M2.delete_vertex(v2)
                    err = coherence_error(F2, M2) or coherence_error(F, M1)
        except Exception as e:
            err = f"raised {type(e).__name__}: {e}"
        rep.case(key=("builtin", name))
        if err:
            rep.fail("builtin_file_table_and_own_history", f"{name}: {err}", inp)


@bounded(P, "pruning_all_insertion_orders", functions=[A + "FSA.recurrent", A + "FSA.delete_vertex", A + "FSA.delete_vertices"],
         note="pruning (recurrent) of every 3-state automaton over 2 labels for every insertion order of its states, in place and not: the result is the set model's greatest recurrent sub-automaton")
def pruning_all_insertion_orders(tier, rng, rep):
    import itertools
    three = list(all_deterministic_automata(3, LABELS))
    orders = list(itertools.permutations(range(3)))
    cases = [(d, o) for d in three for o in orders]
    if tier != 'thorough':
        cases = [cases[i] for i in rng.choice(len(cases), size=6000, replace=False)]
    rep.rule = "all 4096 transition tables on 3 states over {a,b} x 6 insertion orders of the states (thorough: exhaustive, quick: 6000 sampled) x {inplace, copy}; non-trivial = the pruning needs more than one pass"
    rep.bound = f"{len(cases)} automata"
    rep.exhaustive = tier == 'thorough'
    for d, order in cases:
        dd = {v: dict(d[v]) for v in order}
        M = Model.from_graph_dict(dd)
        keep = M.recurrent_vertices()
        M2 = M.copy()
        for v in list(M2.V - keep):
            M2.delete_vertex(v)
        inp = {"graph_dict_in_insertion_order": {str(k): v for k, v in dd.items()}}
        for inplace in (True, False):
            try:
                F = fsa.FSA(copy.deepcopy(dd), [order[0]])
                G = F.recurrent(inplace=inplace)
                G = F if inplace else G
                err = coherence_error(G, M2)
                if not err and not inplace:
                    err = coherence_error(F, M)
                    err = err and "the original automaton changed: " + err
            except Exception as e:
                err = f"raised {type(e).__name__}: {e}"
            if err:
                rep.fail("pruning_matches_the_set_model", f"inplace={inplace}: {err}", {**inp, "inplace": inplace})
                if len(rep.failures) >= 3:
                    return
        rep.case(key=(repr(dd),), nontrivial=len(keep) not in (0, 3))


def _read_table(text):
    """independent reader of a kbmag word-acceptor record: alphabet names, dense transition table, initial state"""
    flat = re.sub(r"\s+", "", text)
    names = [x.strip('"') for x in re.search(r"names:=\[([^\]]*)\]", flat).group(1).split(",")]
    initial = int(re.search(r"initial:=\[(\d+)\]", flat).group(1))
    body = re.search(r"transitions:=\[(.*?)\]\)", flat).group(1)
    table = []
    for r in re.findall(r"\[([^\[\]]*)\]", body):
        m = re.fullmatch(r"(\d+)\.\.(\d+)", r)
        table.append(list(range(int(m.group(1)), int(m.group(2)) + 1)) if m else [int(x) for x in r.split(",") if x != ""])
    return names, table, initial


def _print_record(rng, table, names, initial, style):
    """an independent serialiser of a kbmag word-acceptor record (the syntax kbmag writes), with random spacing"""
    sp = lambda: " " * int(rng.integers(0, 3)) + ("\n" + " " * int(rng.integers(0, 6)) if rng.random() < 0.3 else "")
    n = len(table)
    def row(r):
        if style == "interval" and len(r) > 1 and all(r[i + 1] == r[i] + 1 for i in range(len(r) - 1)):
            return f"[{r[0]}..{r[-1]}]"
        return "[" + ("," + sp()).join(str(x) for x in r) + "]"
    nm = "[" + ("," + sp()).join(f'"{x}"' if style != "bare" else x for x in names) + "]"
    # the accepting field varies (the statement is about the transition table and the start state: every state and transition written in the text is loaded)
    r_ = rng.random()
    if r_ < 0.4 or n < 2:
        acc = f"[1..{n}]"
    elif r_ < 0.6:
        acc = f"[2..{n}]"
    elif r_ < 0.8:
        acc = "[" + ",".join(str(i) for i in range(1, n + 1) if i % 2) + "]"
    else:
        acc = "[]"
    fields = [f"isFSA := true",
              f"alphabet := rec({sp()}type := \"identifiers\",{sp()}size := {len(names)},{sp()}format := \"dense\",{sp()}names := {nm}{sp()})",
              f"states := rec({sp()}type := \"simple\",{sp()}size := {n}{sp()})",
              f"flags := [\"DFA\",\"minimized\",\"BFS\",\"accessible\",\"trim\"]",
              f"initial := [{initial}]",
              f"accepting := {acc}",
              f"table := rec({sp()}format := \"dense deterministic\",{sp()}numTransitions := {sum(1 for r in table for x in r if x)},{sp()}transitions := [" + ("," + sp()).join(row(r) for r in table) + f"]{sp()})"]
    # GAP records are unordered: half of the records list their fields in a random order (kbmag's own order otherwise)
    if rng.random() < 0.5:
        fields = [fields[i] for i in rng.permutation(len(fields))]
    return f"_RWS.wa :={sp()}rec({sp()}" + ("," + sp()).join(fields) + f"{sp()});\n"


@bounded(P, "kbmag_records", functions=F_ALL, note="grammar-generated kbmag records: random tables, alphabets (single and multi-letter), spacing, interval syntax")
def kbmag_records(tier, rng, rep):
    N = 600 if tier == 'thorough' else 120
    rep.rule = "random transition tables with 1..7 states over 1..4 names (0 = failure state), random layout; all-zero rows and unreachable states included; non-trivial = >= 2 states"
    rep.bound = f"{N} records"
    for t in range(N):
        n = int(rng.integers(1, 8)); k = int(rng.integers(1, 5))
        names = [["a", "b", "c", "d"], ["a", "A", "b", "B"], ["x1", "x2", "gen3", "t"], ["s", "ss", "S", "tt"]][t % 4][:k]
        table = [[int(x) for x in rng.integers(0, n + 1, size=k)] for _ in range(n)]
        if t % 7 == 0:
            table[int(rng.integers(0, n))] = [0] * k
        if t % 5 == 0 and k > 1 and n >= k:
            table[0] = list(range(1, k + 1))
        style = ["plain", "interval", "plain"][t % 3]
        initial = int(rng.integers(1, n + 1))
        text = _print_record(rng, table, names, initial, style)
        inp = {"text": text}

        def body():
            rec, _ = gap_parse.parse_record(text)
            F = fsa._from_gap_record(rec)
            want = {i + 1: {names[j]: table[i][j] for j in range(k) if table[i][j] != 0} for i in range(n)}
            if {v: dict(nb) for v, nb in F.graph_dict.items()} != want:
                rep.fail("transition_table_reproduced", f"loaded {dict(F.graph_dict)} expected {want}", inp); return
            if list(F.start_vertices) != [initial]:
                rep.fail("start_state_reproduced", f"{F.start_vertices} vs [{initial}]", inp); return
            err = coherence_error(F, Model.from_graph_dict(want))
            if err:
                rep.fail("kbmag_views", err, inp)
        rep.attempt("kbmag_load_runs", inp, body)
        rep.case(key=(t,), nontrivial=n >= 2, sample={"text": text[:400]} if t == 1 else None)


# ------------------------------------------------------------------------------ vertex names and labels that are falsy / not strings
ODD_VERTS = [0, "", (1, 0)]
ODD_LABELS = [0, 1, "", (), "ab"]


def _odd_ops():
    ops = []
    for v in ODD_VERTS:
        ops.append(("add_vertex", v)); ops.append(("delete_vertex", v))
        for w in ODD_VERTS:
            for l in ODD_LABELS:
                ops.append(("add_edge", v, w, l))
            ops.append(("add_edges_elist", v, w, (0, "")))
            ops.append(("add_edges_elist", v, w, (1, (), "ab")))
    ops += [("rename_perm",), ("recurrent_inplace",), ("copy",)]
    return ops


def _apply_odd(F, M, op):
    if op[0] == "rename_perm":
        mp = {0: 1, 1: 0, "": (), (): "", "ab": "ab"}
        F.rename_generators(mp); M.rename(mp)
        return F, M, True
    return apply_op(F, M, op)


@bounded(P, "histories_with_falsy_names", functions=F_ALL,
         note="the same histories over vertex names {0, '', (1,0)} and labels {0, 1, '', (), 'ab'} (integer generator indices are what the Coxeter automaton generator uses): "
              "a falsy label or vertex name is a name like any other")
def histories_with_falsy_names(tier, rng, rep):
    depth = 2
    N = 3000 if tier == 'thorough' else 600
    ops = _odd_ops()
    rep.rule = f"every sequence of <= {depth} of {len(ops)} operations from the empty automaton and from a 2-vertex automaton with labels 0 and ''; {N} random histories of length 3..15; compared with the set model after every step"
    rep.bound = f"depth {depth} exhaustive + {N} random"

    def start(kind):
        if kind == "empty":
            return fsa.FSA({}, start_vertices=[0]), Model()
        d = {0: {0: "", "": 0}, "": {1: ""}}
        return fsa.FSA({k: dict(v) for k, v in d.items()}, [0]), Model.from_graph_dict(d)

    def run(kind, seq):
        F, M = start(kind)
        hist = [kind]
        err = coherence_error(F, M)
        napp = 0
        if err is None:
            for op in seq:
                hist.append(op)
                try:
                    F, M, ok = _apply_odd(F, M, op)
                except Exception as e:
                    err = f"raised {type(e).__name__}: {e}"
                    break
                napp += ok
                err = coherence_error(F, M)
                if err:
                    break
        if err:
            rep.fail("views_coherent_and_equal_model", f"after {hist}: {err}", {"history": [repr(h_) for h_ in hist]})
        return napp
    for kind in ("empty", "falsy_graph_dict"):
        for L in range(0, depth + 1):
            for seq in itertools.product(ops, repeat=L):
                napp = run(kind, seq)
                rep.case(key=(kind, seq), nontrivial=napp >= 2, sample={"history": [kind] + [repr(o) for o in seq]} if (L == 2 and rep.evaluations == 500) else None)
                if len(rep.failures) >= 3:
                    return
    for t in range(N):
        seq = [ops[int(rng.integers(0, len(ops)))] for _ in range(int(rng.integers(3, 16)))]
        napp = run(("empty", "falsy_graph_dict")[t % 2], seq)
        rep.case(key=("random", t), nontrivial=napp >= 3)
        if len(rep.failures) >= 3:
            return
