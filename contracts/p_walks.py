"""Engine P contracts for the deterministic walk functions of FSA (C10) and word evaluation (C05)."""
import z3
from vf.pcontract import pcontract, Spec
from vf import pyvc
from vf.pyvc import Atom, Loc, Mat, I, B, VAtom, VInt, VBool, VWord, VOpt, VNone, VObj, VDict, VTuple, VFunc, VOpaque, VMat, Outcome, Refuse, fresh, word_loop

FSA_PY = "geometry_tools/automata/fsa.py"
GRAPH_T = ('dict', 'atom', ('dictref', ('dict', 'atom', 'atom')))


class WalkBase(Spec):
    """common vocabulary: the automaton's label view as a partial function, delta* by prefix index"""

    def __init__(self):
        super().__init__()
        self.word = VWord(z3.Const("w", z3.ArraySort(I, Atom)), z3.Int("wlen"))
        self.graph = z3.Const("graph_loc", Loc)
        self.starts = VWord(z3.Const("starts", z3.ArraySort(I, Atom)), z3.Int("nstarts"))
        self.properties = {("FSA", "graph_dict"): "_graph_dict"}
        # delta*(s, first i letters of w): definedness and value
        self.DSdef = z3.Function("DSdef", Atom, I, B)
        self.DSval = z3.Function("DSval", Atom, I, Atom)

    def fsa_obj(self):
        return VObj({"_graph_dict": VDict(self.graph, GRAPH_T), "start_vertices": self.starts}, "FSA")

    def step_def(self, st, v, l):
        """the label view defines a transition from v with label l (plain dicts: missing key = KeyError)"""
        inner = st.d_getL(self.graph, v)
        return z3.And(st.d_present(self.graph, v), st.d_present(inner, l))

    def step_val(self, st, v, l):
        return st.d_getA(st.d_getL(self.graph, v), l)

    def ds_axioms(self, st):
        s, i, j = z3.Const("s_", Atom), z3.Int("i_"), z3.Int("j_")
        w = self.word
        ax = [
            z3.ForAll([s], z3.And(self.DSdef(s, 0), self.DSval(s, 0) == s)),
            z3.ForAll([s, i], z3.Implies(z3.And(i >= 0, i < w.n),
                                         z3.And(self.DSdef(s, i + 1) == z3.And(self.DSdef(s, i), self.step_def(st, self.DSval(s, i), w.arr[i])),
                                                self.DSval(s, i + 1) == self.step_val(st, self.DSval(s, i), w.arr[i])))),
        ]
        return ax

    def prefix_closed_lemma(self, st):
        """forall s, i <= j <= len: DSdef(s, j) => DSdef(s, i)   -- proved by induction on j (base j = i, step j -> j+1)"""
        s, i, j = z3.Const("s_", Atom), z3.Int("i_"), z3.Int("j_")
        w = self.word
        lemma = z3.ForAll([s, i, j], z3.Implies(z3.And(0 <= i, i <= j, j <= w.n, self.DSdef(s, j)), self.DSdef(s, i)))
        s0, i0, j0 = z3.Const("s0", Atom), z3.Int("i0"), z3.Int("j0")
        P = lambda jj: z3.Implies(self.DSdef(s0, jj), self.DSdef(s0, i0))
        base_ax = self.ds_axioms(st)
        self._lemmas.append(("prefix_closed_base", [z3.And(0 <= i0, i0 <= w.n)], P(i0), base_ax))
        self._lemmas.append(("prefix_closed_step", [z3.And(0 <= i0, i0 <= j0, j0 < w.n), P(j0)], P(j0 + 1), base_ax))
        return lemma

    def common_requires(self, st):
        return [self.word.n >= 0, self.starts.n >= 0]


@pcontract("C10", "follow_word", FSA_PY, "FSA.follow_word")
class FollowWord(WalkBase):
    """returns delta*(start, word) and raises FSAException exactly when delta* is undefined"""

    def setup(self, ip, st, fd):
        self.start = VOpt(z3.Bool("start_is_none"), z3.Const("start_v", Atom))
        st.env.update({"self": self.fsa_obj(), "word": self.word, "start_vertex": self.start})
        self.axioms = self.ds_axioms(st) + [self.prefix_closed_lemma(st)]
        inv = lambda ip_, s, i, it: z3.And(i >= 0, i <= it.n, self.DSdef(self.s0(s), i), s.env["vertex"].t == self.DSval(self.s0(s), i))
        self.loops = {0: word_loop(inv, ["vertex", "letter"])}
        return {}

    def s0(self, st):
        """the effective start state: the argument, or the first default start state"""
        return z3.If(self.start.isnone, self.starts.arr[0], self.start.val)

    def requires(self, ip, st, ctx):
        return self.common_requires(st) + [z3.Implies(self.start.isnone, self.starts.n >= 1)]

    def post(self, ip, o, st0, ctx):
        s0 = self.s0(st0)
        n = self.word.n
        if o.kind == 'return':
            if not isinstance(o.value, VAtom):
                return [("returns_a_state", z3.BoolVal(False))]
            return [("returns_delta_star", z3.And(self.DSdef(s0, n), o.value.t == self.DSval(s0, n)))]
        if o.kind == 'raise' and o.exc == 'FSAException':
            return [("raises_only_when_undefined", z3.Not(self.DSdef(s0, n)))]
        return [("no_other_outcome", z3.BoolVal(False))]


# start_vertex may be None: `if start_vertex is None: start_vertex = self.start_vertices[0]` -> the assignment makes the
# variable an Atom on one path and keeps the Opt on the other; normalise both to an atom via a helper used by assign
_orig_assign = pyvc.Interp.assign


def _assign(self, target, st, val, line):
    return _orig_assign(self, target, st, val, line)


@pcontract("C10", "accepts", FSA_PY, "FSA.accepts")
class Accepts(WalkBase):
    """True iff the word is defined from the given start state (or from some default start state)"""

    def setup(self, ip, st, fd):
        self.start = VOpt(z3.Bool("start_is_none"), z3.Const("start_v", Atom))
        st.env.update({"self": self.fsa_obj(), "word": self.word, "start_vertex": self.start})
        self.axioms = self.ds_axioms(st)
        n = self.word.n

        def follow_word(ip_, s, base, args, kwargs, line):
            # callee contract (FollowWord): returns DSval / raises FSAException iff not DSdef
            v = args[1] if len(args) > 1 else kwargs.get("start_vertex")
            if not isinstance(v, VAtom):
                raise Refuse("follow_word called with a non-atom start")
            a = s.fork(); a.pc.append(self.DSdef(v.t, n))
            b = s.fork(); b.pc.append(z3.Not(self.DSdef(v.t, n)))
            return [('val', a, VAtom(self.DSval(v.t, n))), ('raise', b, 'FSAException')]
        self.callees = {"FSA.follow_word": follow_word}

        def inv(ip_, s, i, it):
            k = z3.Int("k_")
            return z3.And(i >= 0, i <= it.n, z3.ForAll([k], z3.Implies(z3.And(k >= 0, k < i), z3.Not(self.DSdef(it.arr[k], n)))))
        self.loops = {0: word_loop(inv, ["vertex"])}
        return {}

    def requires(self, ip, st, ctx):
        return self.common_requires(st)

    def post(self, ip, o, st0, ctx):
        n = self.word.n
        k = z3.Int("k_")
        some_default = z3.Exists([k], z3.And(k >= 0, k < self.starts.n, self.DSdef(self.starts.arr[k], n)))
        want = z3.If(self.start.isnone, some_default, self.DSdef(self.start.val, n))
        if o.kind == 'return' and isinstance(o.value, VBool):
            return [("returns_acceptance", o.value.t == want)]
        return [("no_other_outcome", z3.BoolVal(False))]


class SubwordBase(WalkBase):
    rejected = False

    def setup(self, ip, st, fd):
        st.env.update({"self": self.fsa_obj(), "word": self.word})
        self.axioms = self.ds_axioms(st) + [self.prefix_closed_lemma(st)]
        s0 = self.starts.arr[0]

        def inv(ip_, s, i, it):
            j = z3.Int("j_")
            sub = s.env["subword"]
            return z3.And(i >= 0, i <= it.n, self.DSdef(s0, i), s.env["vertex"].t == self.DSval(s0, i), sub.n == i,
                          z3.ForAll([j], z3.Implies(z3.And(j >= 0, j < i), sub.arr[j] == it.arr[j])))
        self.loops = {0: word_loop(inv, ["vertex", "letter", "subword"])}
        return {}

    def requires(self, ip, st, ctx):
        return self.common_requires(st) + [self.starts.n >= 1]

    def post(self, ip, o, st0, ctx):
        s0 = self.starts.arr[0]
        n = self.word.n
        j = z3.Int("j_")
        if o.kind == 'return' and isinstance(o.value, VWord):
            r = o.value
            prefix = z3.And(r.n >= 0, r.n <= n, z3.ForAll([j], z3.Implies(z3.And(j >= 0, j < r.n), r.arr[j] == self.word.arr[j])))
            if not self.rejected:
                # the longest accepted prefix
                return [("is_a_prefix", prefix), ("prefix_is_accepted", self.DSdef(s0, r.n)),
                        ("no_longer_prefix_is_accepted", z3.Or(r.n == n, z3.Not(self.DSdef(s0, r.n + 1))))]
            # the shortest rejected prefix, or the whole word if it is accepted
            return [("is_a_prefix", prefix),
                    ("shortest_rejected_or_whole_word", z3.Or(z3.And(r.n == n, self.DSdef(s0, n)),
                                                              z3.And(r.n >= 1, z3.Not(self.DSdef(s0, r.n)), self.DSdef(s0, r.n - 1))))]
        return [("no_other_outcome", z3.BoolVal(False))]


@pcontract("C10", "initial_accepted_subword", FSA_PY, "FSA.initial_accepted_subword")
class InitialAccepted(SubwordBase):
    """returns the longest prefix of the word that the automaton accepts from its first start state"""
    rejected = False


@pcontract("C10", "initial_rejected_subword", FSA_PY, "FSA.initial_rejected_subword")
class InitialRejected(SubwordBase):
    """returns the shortest rejected prefix, or the whole word when it is accepted"""
    rejected = True
