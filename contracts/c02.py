"""C02 - every isometry the library builds preserves the Minkowski form and distances (DESIGN.md section 3, C02)."""
import numpy as np
from vf.api import rcontract, bounded
from vf.rrun import _det_obj
from geometry_tools import hyperbolic as h, utils, lie, coxeter
from contracts import spec

P = "C02"
H = "geometry_tools/hyperbolic.py:"
U = "geometry_tools/utils/core.py:"


def det(m, ctx):
    return _det_obj(np.asarray(m, dtype=object)) if ctx.mode == 'sym' else np.linalg.det(np.asarray(m, dtype=float))


def timelike(ctx, name, n, sheet=None):
    def samp(r):
        s = sheet if sheet else r.choice([-1, 1])
        return np.concatenate([[s * r.uniform(1.5, 3)], r.uniform(-1, 1, n) / np.sqrt(n)])
    x = ctx.reals(name, (n + 1,), samp)
    ctx.assume(spec.mink(x, x), '<', 0)
    return x


def is_isometry(ctx, M, n, tag=""):
    """row convention: x -> x M.  M J M^T = J, hence <xM, yM> = <x, y> for test vectors x, y"""
    J = spec.J(n + 1)
    ctx.ensure_true(tag + 'shape', np.shape(M) == (n + 1, n + 1), f"{np.shape(M)}")
    ctx.ensure_eq(tag + 'preserves_minkowski_form', M @ J @ M.T, J, tol=1e-6)
    x, y = ctx.reals('tx', (n + 1,)), ctx.reals('ty', (n + 1,))
    ctx.ensure_eq(tag + 'preserves_products_of_test_vectors', spec.mink(x @ M, y @ M), spec.mink(x, y), tol=1e-6)


@rcontract(P, "point_origin_to", instances=[dict(n=1), dict(n=2)], thorough=[dict(n=3)], timeout=60.0, max_paths=40,
           functions=[H + "Point.origin_to", U + "find_isometry", U + "indefinite_orthogonalize", U + "normalize", U + "kernel",
                      U + "make_orientation_preserving", H + "Isometry.__init__"])
def point_origin_to(ctx, n):
    x = timelike(ctx, 'x', n)
    M = h.Point(np.array(x, copy=True)).origin_to().proj_data
    is_isometry(ctx, M, n)
    ctx.ensure_eq('sends_origin_to_the_point', M[:1], x[None, :], proj=True, tol=1e-6)     # e_0 M = first row


@rcontract(P, "timelike_to", instances=[dict(n=2)], timeout=60.0, max_paths=40,
           functions=[H + "timelike_to", H + "timelike", U + "find_isometry"])
def timelike_to(ctx, n):
    x = timelike(ctx, 'x', n, sheet=1)
    M = h.timelike_to(np.array(x, copy=True)).proj_data
    is_isometry(ctx, M, n)
    ctx.ensure_eq('sends_origin_to_the_vector', M[:1], x[None, :], proj=True, tol=1e-6)


def tangent(ctx, n, suffix=""):
    x = timelike(ctx, 'x' + suffix, n)
    v = ctx.reals('v' + suffix, (n + 1,))
    # the projected vector must be non-null: q(v - <v,x>/<x,x> x) > 0 follows from x timelike unless it vanishes
    qx, bxv, qv = spec.mink(x, x), spec.mink(x, v), spec.mink(v, v)
    ctx.assume(qv * qx - bxv * bxv, '<', 0)
    return x, v


@rcontract(P, "tangent_origin_to", instances=[dict(n=2)], thorough=[dict(n=3)], timeout=120.0, max_paths=40,
           functions=[H + "TangentVector.origin_to", H + "TangentVector._compute_aux_data", H + "project_to_hyperboloid", U + "projection",
                      U + "find_isometry", U + "indefinite_orthogonalize", U + "kernel", U + "make_orientation_preserving"])
def tangent_origin_to(ctx, n):
    x, v = tangent(ctx, n)
    piv = x[0] * v[1] - x[1] * v[0]       # pivot chart of the kernel contract
    ctx.assume(piv * piv, '>', 0)
    tv = h.TangentVector(h.Point(np.array(x, copy=True)), np.array(v, copy=True))
    M = tv.origin_to().proj_data
    is_isometry(ctx, M, n)


@rcontract(P, "isometry_to", instances=[], thorough=[dict(n=2)], timeout=150.0, max_paths=40,
           functions=[H + "TangentVector.isometry_to", H + "TangentVector.origin_to", "geometry_tools/projective.py:Transformation.inv",
                      "geometry_tools/projective.py:Transformation.apply", U + "invert"])
def isometry_to(ctx, n):
    x, v = tangent(ctx, n)
    y, w = tangent(ctx, n, "2")
    t1 = h.TangentVector(h.Point(np.array(x, copy=True)), np.array(v, copy=True))
    t2 = h.TangentVector(h.Point(np.array(y, copy=True)), np.array(w, copy=True))
    for a, b in ((x, v), (y, w)):
        piv = a[0] * b[1] - a[1] * b[0]
        ctx.assume(piv * piv, '>', 0)
    M = t1.isometry_to(t2).proj_data
    J = spec.J(n + 1)
    ctx.ensure_eq('preserves_minkowski_form', M @ J @ M.T, J, tol=1e-6)


@rcontract(P, "standard_rotation", instances=[dict(n=2), dict(n=3), dict(n=4)], thorough=[],
           functions=[H + "Isometry.standard_rotation", H + "Isometry.elliptic", U + "rotation_matrix", U + "identity", U + "array_like", U + "cos", U + "sin"])
def standard_rotation(ctx, n):
    th = ctx.real('theta', lambda r: r.uniform(-3, 3))
    M = h.Isometry.standard_rotation(th, dimension=n).proj_data
    is_isometry(ctx, M, n)
    ctx.ensure_eq('fixes_the_origin', M[0], np.eye(n + 1)[0])
    ctx.ensure_eq('determinant_one', det(M, ctx), 1)


@rcontract(P, "elliptic_block", instances=[dict(n=2)], thorough=[dict(n=3)],
           functions=[H + "Isometry.elliptic"])
def elliptic_block(ctx, n):
    """block embedding of an orthogonal matrix; orthogonal matrices in solved form (products of plane rotations / a reflection)"""
    th = ctx.real('theta', lambda r: r.uniform(-3, 3))
    c, s = np.cos(th), np.sin(th)
    B = np.identity(n) * (c * 0 + 1)
    B[0, 0], B[0, 1], B[1, 0], B[1, 1] = c, s, s, -c        # a reflection (det -1) in the first plane
    M = h.Isometry.elliptic(n, B).proj_data
    is_isometry(ctx, M, n)
    M2 = h.Isometry.elliptic(n, B, column_vectors=False).proj_data
    is_isometry(ctx, M2, n, tag="rows_")


@rcontract(P, "standard_loxodromic", instances=[dict(n=2), dict(n=3), dict(n=4)], thorough=[],
           functions=[H + "Isometry.standard_loxodromic", H + "_loxodromic_basis_change", U + "invert"])
def standard_loxodromic(ctx, n):
    lam = ctx.real('lam', lambda r: r.choice([-1, 1]) * r.uniform(0.3, 3))
    ctx.assume(lam * lam, '>', 0)
    M = h.Isometry.standard_loxodromic(n, lam).proj_data
    is_isometry(ctx, M, n)


@rcontract(P, "sl2_iso", instances=[dict(sign=1), dict(sign=-1)], functions=[H + "sl2_iso", "geometry_tools/lie/core.py:sl2_to_so21"])
def sl2_iso(ctx, sign):
    a, b, c = (ctx.real(nm, lambda r: r.choice([-1, 1]) * r.uniform(0.4, 2)) for nm in 'abc')
    ctx.assume(a * a, '>', 0)
    A = np.array([[a, b], [c, (sign + b * c) / a]], dtype=object if ctx.mode == 'sym' else float)
    is_isometry(ctx, h.sl2_iso(A).proj_data, 2)
    # the chart a = 0 of det = sign:  [[0, b], [-sign/b, d]]
    b2, d2 = ctx.real('b2', lambda r: r.uniform(0.4, 2)), ctx.real('d2')
    ctx.assume(b2 * b2, '>', 0)
    A0 = np.array([[0 * b2, b2], [-sign / b2, d2]], dtype=object if ctx.mode == 'sym' else float)
    is_isometry(ctx, h.sl2_iso(A0).proj_data, 2, tag="a0_")


SPACELIKE_STRATA = ["generic", "z0", "z1", "z2", "z01", "z02"]      # coordinates of the normal that vanish identically (n = 2)


def spacelike(ctx, name, n, stratum="generic"):
    """a spacelike vector; `stratum` names the coordinates that are identically zero (the loci where the pivots of the
    kernel contract and the library's own orthogonalisation change), all other coordinates non-zero"""
    v = ctx.reals(name, (n + 1,), lambda r: np.concatenate([[r.choice([-1, 1]) * r.uniform(0.1, 0.5)], (lambda u: u / np.linalg.norm(u) * r.uniform(1, 2))(r.normal(size=n))]))
    zero = [int(c) for c in stratum[1:]] if stratum != "generic" else []
    v = np.array(v, copy=True)
    for i in range(n + 1):
        if i in zero:
            v[i] = 0 * v[i]
        else:       # (for n = 3 only the generic stratum is instantiated; the others are covered by the bounded enumeration)
            ctx.assume(v[i] * v[i], '>', 0)
    ctx.assume(spec.mink(v, v), '>', 1e-6)
    return v


@rcontract(P, "spacelike_to", instances=[dict(n=2, stratum=s_) for s_ in SPACELIKE_STRATA] + [dict(n=3, stratum="generic")], thorough=[], timeout=120.0, max_paths=60,
           functions=[H + "spacelike_to", H + "spacelike", U + "find_isometry", U + "normalize", U + "projection"])
def spacelike_to(ctx, n, stratum):
    v = spacelike(ctx, 'v', n, stratum)
    M = h.spacelike_to(np.array(v, copy=True)).proj_data
    is_isometry(ctx, M, n)
    ctx.ensure_eq('sends_e1_to_the_vector', M[1:2], v[None, :], proj=True, tol=1e-6)


@rcontract(P, "reflection_across", instances=[dict(n=2, stratum=s_) for s_ in SPACELIKE_STRATA] + [dict(n=3, stratum="generic")], thorough=[], timeout=150.0, max_paths=60,
           functions=[H + "Subspace.reflection_across", H + "Hyperplane.__init__", H + "Hyperplane._compute_ideal_basis", H + "Hyperplane._data_with_dual",
                      H + "spacelike_to", U + "invert"])
def reflection_across(ctx, n, stratum):
    v = spacelike(ctx, 'v', n, stratum)
    R = h.Hyperplane(np.array(v, copy=True)).reflection_across().proj_data
    is_isometry(ctx, R, n)


@rcontract(P, "compose_and_invert", instances=[dict(n=1), dict(n=2), dict(n=3)], thorough=[],
           functions=["geometry_tools/projective.py:Transformation.apply", "geometry_tools/projective.py:Transformation.__matmul__",
                      "geometry_tools/projective.py:Transformation.inv", U + "matrix_product", U + "invert"])
def compose_and_invert(ctx, n):
    """(A @ B).matrix = B.matrix A.matrix and A.inv().matrix A.matrix = 1; together with the algebraic lemma 'matrices with
    M J M^T = J are closed under products and inverses' (lean/Glue.lean: form_mul, form_inv) every word of compositions and
    inverses of isometries preserves the form"""
    A, B = ctx.reals('A', (n + 1, n + 1)), ctx.reals('B', (n + 1, n + 1))
    dA = det(A, ctx)
    ctx.assume(dA * dA, '>', 0)
    IA, IB = h.Isometry(np.array(A, copy=True)), h.Isometry(np.array(B, copy=True))
    C = IA @ IB
    ctx.ensure_true('type', type(C) is h.Isometry)
    ctx.ensure_eq('composition_matrix', C.proj_data, B @ A)
    Ai = IA.inv()
    ctx.ensure_eq('inverse_left', Ai.proj_data @ A, np.identity(n + 1), tol=1e-6)
    ctx.ensure_eq('inverse_right', A @ Ai.proj_data, np.identity(n + 1), tol=1e-6)


@bounded(P, "sampling", functions=[H + "Point.origin_to", H + "TangentVector.origin_to", H + "TangentVector.isometry_to", H + "spacelike_to",
                                   H + "Subspace.reflection_across", "geometry_tools/coxeter.py:CoxeterGroup.hyperbolic_rep", U + "diagonalize_form"],
         note="all constructors in dimensions 2..5, words of compositions/inverses up to length 6, Coxeter hyperbolic representations (numpy.linalg.eigh)")
def sampling(tier, rng, rep):
    N = 200 if tier == 'thorough' else 40
    rep.rule = ("random constructor parameters, dimensions 2..5; random words of length <=6 in the constructed isometries and their inverses; "
                "hyperbolic triangle groups and a rank-4 simplex group; distances / interior-ideal-exterior type of 5 random test points; non-trivial = n>=3 or word length>=2")
    rep.bound = f"{N} rounds"
    tri = [(2, 3, 7), (3, 3, 4), (2, 4, 5), (4, 4, 4), (2, 3, 0), (0, 0, 0), (5, 5, 5), (3, 4, 0)]
    for t in range(N):
        n = int(rng.integers(2, 6))
        J = spec.J(n + 1)
        isos = []

        def kl():
            v = rng.normal(size=n)
            return v / np.linalg.norm(v) * rng.uniform(0.05, 0.9)
        inp = {"n": n, "seed_round": t}
        p = h.Point(kl(), model="klein")
        isos.append(("origin_to", rep.attempt("origin_to_runs", inp, lambda: p.origin_to())))
        q = h.Point(kl(), model="klein")
        tv = rep.attempt("unit_tangent_runs", inp, lambda: p.unit_tangent_towards(q))
        if tv is not None:
            isos.append(("tangent_origin_to", rep.attempt("tv_origin_to_runs", inp, lambda: tv.origin_to())))
            tv2 = q.unit_tangent_towards(p)
            isos.append(("isometry_to", rep.attempt("isometry_to_runs", inp, lambda: tv.isometry_to(tv2))))
        # homogeneous data of any scale: a point given by a tiny / huge / negative representative, a short tangent vector
        sc_ = rng.choice([-1.0, 1.0]) * 10.0 ** rng.uniform(-6, 3)
        kx = kl()
        isos.append(("origin_to_scaled_representative", rep.attempt("origin_to_runs", {**inp, "scale": sc_}, lambda: h.Point(sc_ * spec.k2proj(kx)).origin_to())))
        vshort = rng.normal(size=n + 1) * 10.0 ** rng.uniform(-7, 1)
        isos.append(("tangent_origin_to_short_vector", rep.attempt("tv_origin_to_runs", {**inp, "vector": vshort.tolist()},
                                                                  lambda: h.TangentVector(h.Point(spec.k2proj(kx)), vshort.copy()).origin_to())))
        isos.append(("rotation", h.Isometry.standard_rotation(rng.uniform(-3, 3), dimension=n)))
        isos.append(("loxodromic", h.Isometry.standard_loxodromic(n, rng.uniform(0.3, 3))))
        nv = np.concatenate([[rng.uniform(-0.5, 0.5)], (lambda u: u / np.linalg.norm(u) * rng.uniform(1, 2))(rng.normal(size=n))])
        isos.append(("reflection", rep.attempt("reflection_runs", {"n": n, "normal": nv.tolist()}, lambda: h.Hyperplane(nv.copy()).reflection_across())))
        isos.append(("spacelike_to", rep.attempt("spacelike_to_runs", {"n": n, "v": nv.tolist()}, lambda: h.spacelike_to(nv.copy()))))
        # composite hyperplanes (arrays of normals of rank 1 and 2, square grids included): an array of reflections, each an isometry
        # negating its own normal
        for cshape in ((n + 2,), (2, 2), (2, n + 2)):        # (a last extent of n+1 would be read as one hyperplane's full data: listed finding of C15)
            nvc = np.concatenate([rng.uniform(-0.5, 0.5, size=cshape + (1,)), (lambda u: u / np.linalg.norm(u, axis=-1, keepdims=True) * rng.uniform(1, 2, size=cshape + (1,)))(rng.normal(size=cshape + (n,)))], axis=-1)
            inpc = {"n": n, "normals": nvc.tolist(), "shape": list(cshape)}
            Rc = rep.attempt("composite_reflection_runs", inpc, lambda: h.Hyperplane(nvc.copy()).reflection_across().proj_data)
            if Rc is not None:
                if Rc.shape != cshape + (n + 1, n + 1):
                    rep.fail("composite_reflection_shape", f"{Rc.shape}", inpc)
                elif not np.all(np.abs(Rc @ J @ np.swapaxes(Rc, -1, -2) - J) <= 1e-7 * np.maximum(1.0, np.max(np.abs(Rc)) ** 2)):
                    rep.fail("preserves_form", "a reflection of a composite hyperplane is not an isometry", inpc)
                elif not np.all(np.abs(np.einsum('...i,...ij->...j', nvc, Rc) + nvc) <= 1e-7 * (1 + np.max(np.abs(nvc)))):
                    rep.fail("composite_reflection_negates_its_normal", "", inpc)
        # the hyperplane given by n generic ideal points (Subspace / Geodesic route: the normal is found by orthogonalisation)
        idl = rng.normal(size=(n, n)); idl /= np.linalg.norm(idl, axis=-1, keepdims=True)
        idl = np.concatenate([np.ones((n, 1)), idl], axis=1) * rng.uniform(0.5, 2, size=(n, 1))
        Rs = rep.attempt("subspace_reflection_runs", {"n": n, "ideal_points": idl.tolist()},
                         lambda: (h.Geodesic(h.IdealPoint(idl.copy())) if n == 2 and t % 2 else h.Subspace(h.IdealPoint(idl.copy()))).reflection_across())
        if Rs is not None:
            isos.append(("subspace_reflection", Rs))
            img = idl @ Rs.proj_data
            crs = img[:, :, None] * idl[:, None, :]
            if not np.all(np.abs(crs - np.swapaxes(crs, -1, -2)) <= 1e-6 * max(1.0, np.max(np.abs(crs)))):
                rep.fail("subspace_reflection_fixes_its_ideal_points", "", {"n": n, "ideal_points": idl.tolist()})
        if n == 2:
            A = rng.normal(size=(2, 2)); A /= np.sqrt(abs(np.linalg.det(A)))
            isos.append(("sl2_iso", h.sl2_iso(A)))
            pqr = tri[t % len(tri)]
            rp = rep.attempt("hyperbolic_rep_runs", {"triangle": list(pqr)}, lambda: coxeter.TriangleGroup(pqr).hyperbolic_rep())
            if rp is not None:
                for g in "abc":
                    isos.append((f"coxeter{pqr}{g}", rp[g]))
        isos = [(nm, i) for nm, i in isos if i is not None]
        # words
        # words in the constructed isometries (not in earlier words: their factors can be huge while the product is small).
        # float64: the error of a computed product is ~ eps * L * prod |M_i|, whatever the size of the result; `cond` records it
        nbase = len(isos)
        cond = {id(i): 1.0 for _, i in isos}
        for L in range(2, 7):
            idx = rng.integers(0, nbase, size=L)
            W = isos[idx[0]][1]
            for k in idx[1:]:
                W = W @ (isos[k][1] if rng.random() < 0.5 else isos[k][1].inv())
            cond[id(W)] = L * float(np.prod([max(1.0, np.max(np.abs(isos[k][1].proj_data)) * (n + 1)) for k in idx]))
            isos.append((f"word{L}", W))
        pts = np.stack([kl() for _ in range(3)] + [(lambda v: v / np.linalg.norm(v))(rng.normal(size=n))] + [(lambda v: v / np.linalg.norm(v) * 1.7)(rng.normal(size=n))])
        X = np.concatenate([np.ones((5, 1)), pts], axis=1)
        for nm, iso in isos:
            M = iso.proj_data
            cn = 1e-14 * cond.get(id(iso), 1.0) * max(1.0, np.max(np.abs(M)))
            if not np.all(np.abs(M @ J @ M.T - J) <= 1e-7 * max(1.0, np.max(np.abs(M)) ** 2) + cn):
                rep.fail("preserves_form", f"{nm}: |M J M^T - J| = {np.max(np.abs(M @ J @ M.T - J)):.2e}", {"n": n, "which": nm, "matrix": M.tolist()})
            Y = X @ M
            q0, q1 = np.einsum('ij,jk,ik->i', X, J, X), np.einsum('ij,jk,ik->i', Y, J, Y)
            # q(xM) = q(x) exactly for an isometry; in float64 the error scales with |M|^2 |x|^2 (words of loxodromics
            # have large entries), so interior / ideal / exterior is compared through q up to that error
            tolq = (1e-7 * max(1.0, np.max(np.abs(M)) ** 2) + cn) * np.sum(X * X, axis=-1)
            if np.any(np.abs(q1 - q0) > tolq):
                rep.fail("keeps_interior_ideal_exterior", f"{nm}", {"n": n, "which": nm, "matrix": M.tolist()})
            d0 = h.Point(X[0].copy()).distance(h.Point(X[1].copy()))
            d1 = (iso @ h.Point(X[0].copy())).distance(iso @ h.Point(X[1].copy()))
            # float64 conditioning: the form defect of a computed word is ~ eps |M|^2 (see preserves_form)
            if not (abs(d0 - d1) <= 1e-6 * (1 + d0) + 1e-13 * np.max(np.abs(M)) ** 2 + 10 * cn * max(1.0, np.max(np.abs(M)))):
                rep.fail("preserves_distance", f"{nm}: {d0} vs {d1}", {"n": n, "which": nm, "matrix": M.tolist()})
            rep.case(key=(t, nm), nontrivial=(n >= 3 or nm.startswith("word")), sample={"n": n, "which": nm} if t == 0 else None)


@bounded(P, "parameter_dtypes", functions=[H + "Isometry.standard_rotation", H + "Isometry.standard_loxodromic", H + "Isometry.elliptic", H + "Point.origin_to",
                                           H + "sl2_iso", H + "Subspace.reflection_across", H + "spacelike_to", H + "timelike_to", U + "identity", U + "zeros"],
         note="the constructor parameters of the quantifier are numbers, not float64 objects: Python ints, NumPy integer / float32 scalars and integer arrays must give isometries as well")
def parameter_dtypes(tier, rng, rep):
    rep.rule = ("every constructor with integer-typed / float32 / list parameters (angles 0,1,2,-3 as int, np.int32, np.int64, np.float32, 0-d arrays; integer points, normals, "
                "SL(2,Z) matrices, permutation blocks), dimensions 2..4; compared with the same constructor on float64 parameters; non-trivial = the parameter is not float64")
    rep.bound = "4 angles x 6 types x 3 dimensions + 40 integer points / normals / matrices"
    conv = [("int", int), ("np.int32", np.int32), ("np.int64", np.int64), ("np.float32", np.float32), ("array0d_int", lambda a: np.array(int(a))),
            ("float", float)]

    refused = {}

    def check(nm, make, make_ref, n, inp):
        try:    # a constructor that refuses a parameter type loudly returns no isometry: nothing to check (the float64 path is in `sampling`)
            iso = make()
        except (TypeError, ValueError) as e:
            refused[nm] = refused.get(nm, 0) + 1
            rep.case(key=(nm, "refused", str(sorted(inp.items()))), nontrivial=False)
            return
        M = np.asarray(iso.proj_data, dtype=float)
        J = spec.J(n + 1)
        if M.shape != (n + 1, n + 1) or not np.all(np.abs(M @ J @ M.T - J) <= 1e-5 * max(1.0, np.max(np.abs(M)) ** 2)):
            rep.fail("preserves_form", f"{nm}: M J M^T != J, M = {M.tolist()}", inp)
        elif make_ref is not None:
            R = np.asarray(make_ref().proj_data, dtype=float)
            if not np.all(np.abs(R - M) <= 1e-5 * max(1.0, np.max(np.abs(R)))):
                rep.fail("same_isometry_as_for_float64_parameters", f"{nm}: {M.tolist()} vs {R.tolist()}", inp)
        rep.case(key=(nm, str(sorted(inp.items()))), nontrivial=True)

    for n in (2, 3, 4):
        for a in (0, 1, 2, -3):
            for tn, cv in conv:
                inp = {"n": n, "angle": a, "type": tn}
                check("rotation", lambda: h.Isometry.standard_rotation(cv(a), dimension=n), lambda: h.Isometry.standard_rotation(float(a), dimension=n), n, inp)
                if a > 0:
                    check("loxodromic", lambda: h.Isometry.standard_loxodromic(n, cv(a)), lambda: h.Isometry.standard_loxodromic(n, float(a)), n, inp)
        for k in range(6 if tier == "quick" else 30):
            sp = rng.integers(-3, 4, size=n)
            x = np.concatenate([[int(np.sum(np.abs(sp))) + 1 + int(rng.integers(0, 3))], sp]).astype(rng.choice([np.int64, np.int32]))
            inp = {"n": n, "point": x.tolist(), "dtype": str(x.dtype)}
            check("origin_to", lambda: h.Point(x.copy()).origin_to(), lambda: h.Point(x.astype(float)).origin_to(), n, inp)
            check("origin_to_list", lambda: h.Point(x.tolist()).origin_to(), lambda: h.Point(x.astype(float)).origin_to(), n, inp)
            check("timelike_to", lambda: h.timelike_to(x.copy()), lambda: h.timelike_to(x.astype(float)), n, inp)
            sv = rng.integers(-3, 4, size=n)
            if not np.any(sv):
                sv[0] = 1
            v = np.concatenate([[int(rng.integers(0, 2)) * (1 if np.sum(sv * sv) > 1 else 0)], sv]).astype(np.int64)
            inp = {"n": n, "normal": v.tolist()}
            check("reflection", lambda: h.Hyperplane(v.copy()).reflection_across(), lambda: h.Hyperplane(v.astype(float)).reflection_across(), n, inp)
            check("spacelike_to", lambda: h.spacelike_to(v.copy()), None, n, inp)
            perm = np.eye(n, dtype=np.int64)[rng.permutation(n)]
            inp = {"n": n, "block": perm.tolist()}
            check("elliptic", lambda: h.Isometry.elliptic(n, perm.copy()), lambda: h.Isometry.elliptic(n, perm.astype(float)), n, inp)
    for A in ([[1, 1], [0, 1]], [[2, 1], [1, 1]], [[0, 1], [-1, 0]], [[1, 0], [0, -1]], [[3, 2], [4, 3]], [[1, 2], [1, 1]]):
        for dt in (np.int64, np.int32, None):
            Ai = np.array(A, dtype=dt) if dt else A
            inp = {"n": 2, "sl2": A, "dtype": str(dt)}
            check("sl2_iso", lambda: h.sl2_iso(Ai), lambda: h.sl2_iso(np.array(A, dtype=float)), 2, inp)


@bounded(P, "structured_hyperplanes", functions=[H + "spacelike_to", H + "Subspace.reflection_across", H + "Subspace._data_with_dual", H + "Hyperplane._compute_ideal_basis",
                                                  U + "find_isometry", U + "indefinite_orthogonalize", U + "orthogonal_complement"],
         note="hyperplanes in special position: small-integer normals (zero time coordinate, equal spatial coordinates), hyperplanes through the origin given by antipodal / symmetric ideal points")
def structured_hyperplanes(tier, rng, rep):
    rep.rule = ("all spacelike normals with coordinates in {-2..2} (float64) in dimension 2, 3 and a sample in dimension 4; geodesics / hyperplanes spanned by ideal points on the "
                "coordinate axes and diagonals (diameters included): reflection_across and spacelike_to must be isometries, the reflection negates the normal / fixes the ideal points")
    import itertools as it
    cnt = 0
    for n in (2, 3, 4):
        J = spec.J(n + 1)
        grid = list(it.product(range(-2, 3), repeat=n + 1))
        if n == 4 or (n == 3 and tier != 'thorough'):
            grid = [grid[i] for i in rng.choice(len(grid), size=150, replace=False)]
        for v in grid:
            v = np.array(v, dtype=float)
            if not v @ J @ v > 0:
                continue
            cnt += 1
            inp = {"n": n, "normal": v.tolist()}

            def body():
                with np.errstate(all='ignore'):
                    T = h.spacelike_to(v.copy()).proj_data
                    R = h.Hyperplane(v.copy()).reflection_across().proj_data
                for nm, M in (("spacelike_to", T), ("reflection", R)):
                    if not np.all(np.abs(M @ J @ M.T - J) <= 1e-8 * max(1.0, np.max(np.abs(M)) ** 2)):
                        rep.fail("preserves_form", f"{nm} of the normal {v.tolist()}: max |M J M^T - J| = {np.max(np.abs(M @ J @ M.T - J)):.2e}", inp); return
                e1 = np.zeros(n + 1); e1[1] = 1
                cr = np.outer(e1 @ T, v)
                if not np.all(np.abs(cr - cr.T) <= 1e-8 * max(1.0, np.max(np.abs(cr)))):
                    rep.fail("spacelike_to_sends_e1_to_v", "", inp); return
                if not np.all(np.abs(v @ R + v) <= 1e-8 * (1 + np.max(np.abs(v)))):
                    rep.fail("reflection_negates_normal", f"{(v @ R).tolist()}", inp)
            rep.attempt("structured_normal_runs", inp, body)
            rep.case(key=("normal", n, tuple(v.tolist())), nontrivial=bool(v[0] == 0), sample=inp if cnt == 1 else None)
        # hyperplanes through ideal points in special position
        dirs = [d for d in it.product((-1, 0, 1), repeat=n) if any(d)]
        combos = list(it.combinations(range(len(dirs)), n))
        if len(combos) > 120:
            combos = [combos[i] for i in rng.choice(len(combos), size=120, replace=False)]
        for cb in combos:
            pts = np.array([dirs[i] for i in cb], dtype=float)
            pts = pts / np.linalg.norm(pts, axis=-1, keepdims=True)
            idl = np.concatenate([np.ones((n, 1)), pts], axis=1)
            if abs(np.linalg.det(np.concatenate([idl, np.ones((1, n + 1))], axis=0)[:, :n + 1][:n + 1])) < 1e-9 and np.linalg.matrix_rank(idl) < n:
                continue
            if np.linalg.matrix_rank(idl) < n:
                continue
            inp = {"n": n, "ideal_points": idl.tolist()}

            def body2():
                with np.errstate(all='ignore'):
                    S = h.Geodesic(h.IdealPoint(idl.copy())) if n == 2 else h.Subspace(h.IdealPoint(idl.copy()))
                    R = S.reflection_across().proj_data
                if not np.all(np.abs(R @ J @ R.T - J) <= 1e-8 * max(1.0, np.max(np.abs(R)) ** 2)):
                    rep.fail("preserves_form", f"reflection across the subspace through {idl.tolist()}", inp); return
                img = idl @ R
                crs = img[:, :, None] * idl[:, None, :]
                if not np.all(np.abs(crs - np.swapaxes(crs, -1, -2)) <= 1e-8 * max(1.0, np.max(np.abs(crs)))):
                    rep.fail("subspace_reflection_fixes_its_ideal_points", "", inp)
            rep.attempt("structured_subspace_runs", inp, body2)
            rep.case(key=("ideal", n, cb), nontrivial=True)
    rep.bound = f"{cnt} normals + ideal-point configurations"


from vf.pcontract import lean_lemmas
lean_lemmas(P, "closure_lemmas", "lean/Glue.lean", ["form_mul", "form_inv", "form_apply", "conj_form"],
            note="matrices with M J M^T = J are closed under products and inverses and preserve the form of any pair of rows (all sizes, any commutative ring): "
                 "with the per-constructor contracts this gives form preservation for every word of compositions / inverses, hence distance invariance; conj_form: conjugating the geometric representation (which preserves the cosine form, C08) by the W of diagonalize_form "
                 "(W^T B W = diag(+-1), C18) gives matrices preserving diag(+-1): the hyperbolic representations of Coxeter groups")
