"""C13 - constructed isometries, tangent vectors and regular polygons hit their targets (DESIGN.md section 3, C13)."""
import numpy as np
from vf.api import rcontract, bounded
from vf.rrun import _det_obj
from geometry_tools import hyperbolic as h, utils
from contracts import spec
from contracts.c02 import timelike, tangent, det

P = "C13"
H = "geometry_tools/hyperbolic.py:"
U = "geometry_tools/utils/core.py:"


def proj_tangent(x, v):
    """component of v Minkowski-orthogonal to x"""
    return v - x * (spec.mink(v, x) / spec.mink(x, x))


@rcontract(P, "origin_to_hits_point", instances=[dict(n=1), dict(n=2)], thorough=[dict(n=3)], timeout=60.0, max_paths=40,
           functions=[H + "Point.origin_to", H + "Point.get_origin", "geometry_tools/projective.py:Transformation.apply", U + "find_isometry"])
def origin_to_hits_point(ctx, n):
    x = timelike(ctx, 'x', n)
    p = h.Point(np.array(x, copy=True))
    img = p.origin_to() @ h.Point.get_origin(n)
    ctx.ensure_eq('origin_is_sent_to_the_point', img.proj_data[None, :], x[None, :], proj=True, tol=1e-6)
    ctx.ensure_eq('same_klein_coordinates', img.coords("klein"), x[1:] / x[0], tol=1e-6)


@rcontract(P, "tangent_origin_to_hits_vector", instances=[dict(n=2)], thorough=[dict(n=3)], timeout=120.0, max_paths=40,
           functions=[H + "TangentVector.origin_to", H + "TangentVector.get_base_tangent", H + "TangentVector._compute_aux_data", U + "find_isometry"])
def tangent_origin_to_hits_vector(ctx, n):
    x, v = tangent(ctx, n)
    piv = x[0] * v[1] - x[1] * v[0]
    ctx.assume(piv * piv, '>', 0)
    tv = h.TangentVector(h.Point(np.array(x, copy=True)), np.array(v, copy=True))
    M = tv.origin_to().proj_data
    vp = proj_tangent(x, v)
    # image of the base tangent (e_0, e_1) is (row 0, row 1) of M
    ctx.ensure_eq('basepoint', M[:1], x[None, :], proj=True, tol=1e-6)
    ctx.ensure_eq('direction_parallel', M[1:2], vp[None, :], proj=True, tol=1e-6)
    # (s x, s v) with s > 0 or s < 0 is the same tangent vector: the two proportionality factors have the same sign
    ctx.ensure('positive_multiple', (M[0] @ x) * (M[1] @ vp), '>', 0)
    ctx.ensure('orientation_preserving', det(M, ctx) * M[0, 0], '>', 0)


@rcontract(P, "point_along", instances=[dict(n=2)], thorough=[dict(n=3)], timeout=150.0, max_paths=40,
           functions=[H + "TangentVector.point_along", H + "hyp_to_affine_dist", H + "TangentVector.normalized", H + "Point.distance", H + "TangentVector.origin_to"])
def point_along(ctx, n):
    """the point at parameter t along a tangent vector lies on the geodesic it spans, at distance |t| from the basepoint
    (cosh d = cosh t, with exp(2t) = exp(t)^2)"""
    x, v = tangent(ctx, n)
    piv = x[0] * v[1] - x[1] * v[0]
    ctx.assume(piv * piv, '>', 0)
    t = ctx.real('t', lambda r: r.choice([-1, 1]) * r.uniform(0.2, 2))
    ctx.assume(t * t, '>', 0)
    tv = h.TangentVector(h.Point(np.array(x, copy=True)), np.array(v, copy=True))
    y = tv.point_along(t).proj_data
    # on the geodesic: y in span(x, v)
    st = np.stack([x, v, y])
    if n == 2:
        ctx.ensure_eq('on_the_geodesic', det(st, ctx), 0, tol=1e-6)
    else:
        import itertools
        mins = [det(st[:, list(c)], ctx) for c in itertools.combinations(range(n + 1), 3)]
        ctx.ensure_eq('on_the_geodesic', np.array(mins, dtype=object if ctx.mode == 'sym' else float), 0, tol=1e-6)
    # cosh^2 d = <x,y>^2 / (q(x) q(y)) = cosh^2 t
    e = np.exp(t)
    ch = (e + 1 / e) / 2
    ctx.ensure_eq('distance_is_abs_t', spec.mink(x, y) ** 2, ch * ch * spec.mink(x, x) * spec.mink(y, y), tol=1e-6)
    ctx.ensure('stays_interior', spec.mink(y, y), '<', 0)
    # direction: y = alpha x + beta v_perp (homogeneous coordinates, any sign of alpha) with beta/alpha of the sign of t;
    # q(x) < 0 < q(v_perp), so  <y,x> <y,v_perp> t < 0
    ctx.ensure('direction', spec.mink(y, x) * spec.mink(y, proj_tangent(x, v)) * t, '<', 0)


@rcontract(P, "tangent_towards_arrives", instances=[dict(n=2)], timeout=150.0, max_paths=60,
           functions=[H + "Point.unit_tangent_towards", H + "TangentVector.point_along", H + "Point.distance", H + "TangentVector.normalized"])
def tangent_towards_arrives(ctx, n):
    """following the unit tangent towards q for distance d(p,q) arrives at q  (uses exp(arccosh c) = c + sqrt(c^2-1))"""
    x, y = timelike(ctx, 'x', n), timelike(ctx, 'y', n)
    cr = x[0] * y[1] - x[1] * y[0]
    ctx.assume(cr * cr, '>', 0)
    p, q = h.Point(np.array(x, copy=True)), h.Point(np.array(y, copy=True))
    d = p.distance(q)
    tv = p.unit_tangent_towards(q)
    ctx.ensure_eq('unit_length', spec.mink(tv.vector, tv.vector), 1, tol=1e-6)
    ctx.ensure_eq('tangent_to_hyperboloid', spec.mink(tv.vector, tv.point), 0, tol=1e-6)
    z = tv.point_along(d).proj_data
    ctx.ensure_eq('arrives_at_q', z[None, :], y[None, :], proj=True, tol=1e-5)
    # the same tangent vector object used again (after point_along / origin_to have run on it) still points at q
    z2 = tv.normalized().point_along(d).proj_data
    ctx.ensure_eq('arrives_at_q_when_reused', z2[None, :], y[None, :], proj=True, tol=1e-5)


@rcontract(P, "angle_law_of_cosines", instances=[], thorough=[dict(n=2)], timeout=150.0, max_paths=60,
           functions=[H + "TangentVector.angle", H + "Point.unit_tangent_towards", H + "project_to_hyperboloid", H + "TangentVector.normalized"])
def angle_law_of_cosines(ctx, n):
    """cos(angle at p between the directions to q and r) * sinh b * sinh c = cosh b cosh c - cosh a"""
    x, y, z = timelike(ctx, 'x', n, 1), timelike(ctx, 'y', n, 1), timelike(ctx, 'z', n, 1)
    for u in (y, z):
        cr = x[0] * u[1] - x[1] * u[0]
        ctx.assume(cr * cr, '>', 0)
    p, q, r = (h.Point(np.array(u, copy=True)) for u in (x, y, z))
    ang = p.unit_tangent_towards(q).angle(p.unit_tangent_towards(r))
    ca = ctx.arg_of(ang, 'arccos')
    hx, hy, hz = spec.hyp(x), spec.hyp(y), spec.hyp(z)
    chb, chc, cha = -spec.mink(hx, hy), -spec.mink(hx, hz), -spec.mink(hy, hz)
    shb, shc = np.sqrt(chb * chb - 1), np.sqrt(chc * chc - 1)
    ctx.ensure_eq('hyperbolic_law_of_cosines', ca * shb * shc, chb * chc - cha, tol=1e-6)
    # tangent vectors given by ambient data that is not orthogonal to the basepoint: the directions towards q, r as the points' own coordinates
    ang2 = h.TangentVector(h.Point(np.array(x, copy=True)), np.array(y, copy=True)).angle(h.TangentVector(h.Point(np.array(x, copy=True)), np.array(z, copy=True)))
    ca2 = ctx.arg_of(ang2, 'arccos')
    ctx.ensure_eq('law_of_cosines_from_ambient_vectors', ca2 * shb * shc, chb * chc - cha, tol=1e-6)


@bounded(P, "sampling", functions=[H + "Polygon.regular_polygon", H + "regular_polygon_radius", H + "polygon_interior_angle", H + "genus_g_surface_radius",
                                   H + "TangentVector.isometry_to", H + "TangentVector.point_along", H + "TangentVector.angle"],
         note="dimensions 2..5, t in [-6,6], regular n-gons n=3..12 by angle and by radius, radius/angle formulas mutually inverse, isometry_to")
def sampling(tier, rng, rep):
    N = 300 if tier == 'thorough' else 60
    rep.rule = "random interior points / tangent vectors in dimension 2..5, |t|<=6; regular n-gons 3..12 with random admissible angle in dimension 2..4; non-trivial = n>=3 dims or obtuse angle"
    rep.bound = f"{N} rounds"
    for t in range(N):
        n = int(rng.integers(2, 6))

        def kl(rmax=0.9):
            v = rng.normal(size=n)
            return v / np.linalg.norm(v) * rng.uniform(0.05, rmax)
        kp, kq, kr = kl(), kl(), kl()
        p, q, r = (h.Point(k_.copy(), model="klein") for k_ in (kp, kq, kr))
        inp = {"n": n, "p": kp.tolist(), "q": kq.tolist(), "r": kr.tolist()}

        def body():
            d = p.distance(q)
            tv = p.unit_tangent_towards(q)
            arr = tv.point_along(d).coords("klein")
            if not np.all(np.abs(arr - kq) <= 1e-6):
                rep.fail("tangent_towards_arrives", f"{arr} vs {kq}", inp)
            tt = rng.uniform(-6, 6)
            y = tv.point_along(tt)
            if not (abs(p.distance(y) - abs(tt)) <= 1e-5 * (1 + abs(tt))):
                rep.fail("point_along_distance", f"t={tt} d={p.distance(y)}", {**inp, "t": tt})
            # short distances (relative accuracy): |t| down to 2e-4, the library's distance and an independent one (Klein closed form of contracts/spec.py)
            for ts in (2e-4, -5e-4, 1.2e-3, -3e-3, 0.02):
                ys = tv.point_along(ts)
                d_lib = float(p.distance(ys))
                d_own = float(np.arccosh(max(1.0, spec.cosh_d_klein(kp, np.asarray(ys.coords("klein"), dtype=float)))))
                if not (abs(d_lib - abs(ts)) <= 1e-3 * abs(ts) + 1e-7) or not (abs(d_own - abs(ts)) <= 1e-3 * abs(ts) + 1e-7):
                    rep.fail("point_along_distance", f"t={ts}: the point reached is at distance {d_lib} (library) / {d_own} (closed form) from the basepoint", {**inp, "t": ts}); break
            # long distances (the Klein radius tanh t is 1 - 1e-9 and closer to 1, still an interior point in float64)
            for tf in (8.5, -10.5, 12.0):
                yf = tv.point_along(tf)
                d_far = float(p.distance(yf))
                if not (abs(d_far - abs(tf)) <= 1e-4 * abs(tf)):
                    rep.fail("point_along_distance", f"t={tf}: the point reached is at distance {d_far} from the basepoint", {**inp, "t": tf}); break
            # following the unit tangent towards a NEARBY point for d(p, q') arrives at q'
            qn = tv.point_along(7e-4)
            arrn = p.unit_tangent_towards(qn).point_along(p.distance(qn))
            if not (float(qn.distance(arrn)) <= 1e-6) or not np.all(np.abs(np.asarray(arrn.coords("klein")) - np.asarray(qn.coords("klein"))) <= 1e-7):
                rep.fail("tangent_towards_arrives", f"nearby target at distance 7e-4: arrived {float(qn.distance(arrn))} away from it", inp)
            tv2 = q.unit_tangent_towards(r)
            M = tv.isometry_to(tv2)
            img = M @ p
            if not np.all(np.abs(img.coords("klein") - kq) <= 1e-6):
                rep.fail("isometry_to_basepoint", "first basepoint not carried to the second", inp)
            far = M @ tv.point_along(1.0)
            if not np.all(np.abs(far.coords("klein") - tv2.point_along(1.0).coords("klein")) <= 1e-6):
                rep.fail("isometry_to_direction", "direction not carried", inp)
            # law of cosines at p
            A = tv.angle(p.unit_tangent_towards(r))
            a, b, c = q.distance(r), p.distance(q), p.distance(r)
            if not (abs(np.cosh(a) - (np.cosh(b) * np.cosh(c) - np.sinh(b) * np.sinh(c) * np.cos(A))) <= 1e-6 * np.cosh(a)):
                rep.fail("law_of_cosines", f"angle {A}", inp)
            # the same angle from tangent vectors given by ambient data that is NOT orthogonal to the basepoint (the class projects it):
            # the vector "towards q" given as q's hyperboloid coordinates, and a tangent vector plus a multiple of the basepoint
            hp_, hq_, hr_ = (np.asarray(u.coords("hyperboloid"), dtype=float) for u in (p, q, r))
            cmul = float(rng.uniform(-3, 3))
            for nm_, (va, vb) in {"hyperboloid_coordinates_of_the_targets": (hq_, hr_), "tangent_plus_multiple_of_basepoint": (np.asarray(tv.proj_data, dtype=float)[..., 1, :] + cmul * hp_, 2.5 * hr_ - cmul * hp_),
                                   "scaled_basepoint_representative": (hq_ * 1.0, hr_ * 0.3)}.items():
                pb = h.Point(hp_ * (-2.0 if nm_.startswith("scaled") else 1.0))
                A2 = h.TangentVector(pb, va.copy()).angle(h.TangentVector(pb, vb.copy()))
                if not (abs(np.cosh(a) - (np.cosh(b) * np.cosh(c) - np.sinh(b) * np.sinh(c) * np.cos(A2))) <= 1e-6 * np.cosh(a)):
                    rep.fail("law_of_cosines", f"tangent vectors given as {nm_}: angle {A2} (from unit tangents: {A})", {**inp, "tangent_data": nm_})
            # the raw-vector route (hyperbolic.timelike_to) for representatives of either sign and any scale, oriented or not
            hp2 = np.asarray(p.coords("hyperboloid"), dtype=float)
            for cf in (1.0, -1.0, 2.5, -0.4):
                for fo in (False, True):
                    Mt = h.timelike_to((cf * hp2).copy(), force_oriented=fo)
                    img_t = np.asarray((Mt @ h.Point.get_origin(n)).coords("klein"), dtype=float)
                    Mm = np.asarray(Mt.proj_data, dtype=float)
                    Jn = spec.J(n + 1)
                    if not np.all(np.abs(img_t - kp) <= 1e-7):
                        rep.fail("origin_to_hits_point", f"timelike_to({cf} * x, force_oriented={fo}) sends the origin to {img_t.tolist()}, the point is {kp.tolist()}", {**inp, "factor": cf, "force_oriented": fo}); break
                    if not np.all(np.abs(Mm @ Jn @ Mm.T - Jn) <= 1e-7 * (1 + np.max(np.abs(Mm)) ** 2)):
                        rep.fail("origin_to_is_an_isometry", f"timelike_to({cf} * x, force_oriented={fo})", {**inp, "factor": cf}); break
            M0 = p.origin_to()
            if not np.all(np.abs((M0 @ h.Point.get_origin(n)).coords("klein") - kp) <= 1e-7):
                rep.fail("origin_to_hits_point", "", inp)
            # "the isometry built from ..." is an isometry: it moves a third point r without changing its distances to the
            # points whose images the statement fixes (origin -> p, base tangent -> tv, tv -> tv2), in every dimension
            J = spec.J(n + 1)
            o = h.Point.get_origin(n)
            for nm, Mi, (src, dst) in (("origin_to", M0, (o, p)), ("tangent_origin_to", tv.origin_to(), (o, p)), ("isometry_to", M, (p, q))):
                mat = Mi.proj_data
                if not np.all(np.abs(mat @ J @ mat.T - J) <= 1e-7 * max(1.0, np.max(np.abs(mat)) ** 2)):
                    rep.fail("constructed_map_is_an_isometry", f"{nm}: max |M J M^T - J| = {np.max(np.abs(mat @ J @ mat.T - J)):.2e}", inp)
                elif not (abs((Mi @ r).distance(dst) - r.distance(src)) <= 1e-6 * (1 + r.distance(src))):
                    rep.fail("constructed_map_is_an_isometry", f"{nm}: d(M r, M src) != d(r, src)", inp)
            return A
        A = rep.attempt("constructions_run", inp, body)
        rep.case(key=("geo", t), nontrivial=(n >= 3 or (A is not None and A > np.pi / 2)), sample=inp if t == 0 else None)
        # regular polygons
        m = int(rng.integers(3, 13))
        a = rng.uniform(0.02, 0.98) * (m - 2) * np.pi / m
        dim = int(rng.integers(2, 5))
        inp2 = {"n_gon": m, "angle": a, "dimension": dim}

        def poly():
            rad = h.regular_polygon_radius(m, a)
            back = h.polygon_interior_angle(m, rad)
            if not (abs(back - a) <= 1e-7):
                rep.fail("radius_angle_inverse", f"{back} vs {a}", inp2)
            for kw in ({"angle": a}, {"radius": rad}):
                Pg = h.Polygon.regular_polygon(m, **kw) if dim == 2 and t % 2 else h.Polygon.regular_polygon(m, dimension=dim, **kw)
                V = Pg.get_vertices()
                if V.shape != (m,):
                    rep.fail("polygon_vertex_count", f"{V.shape}", inp2)
                    continue
                o = h.Point.get_origin(dim)
                dist = np.array([o.distance(V[i]) for i in range(m)])
                if not np.all(np.abs(dist - rad) <= 1e-6 * (1 + rad)):
                    rep.fail("polygon_equal_radius", f"{dist}", inp2)
                sides = np.array([V[i].distance(V[(i + 1) % m]) for i in range(m)])
                if not np.all(np.abs(sides - sides[0]) <= 1e-6 * (1 + sides[0])):
                    rep.fail("polygon_equal_sides", f"{sides}", inp2)
                for i in range(m):
                    ang = V[i].unit_tangent_towards(V[(i + 1) % m]).angle(V[i].unit_tangent_towards(V[(i - 1) % m]))
                    if not (abs(ang - a) <= 1e-6):
                        rep.fail("polygon_interior_angle", f"vertex {i}: {ang} vs {a}", inp2)
                        break
        rep.attempt("regular_polygon_runs", inp2, poly)
        rep.case(key=("poly", t), nontrivial=a > np.pi / 2)
        if t % 3 == 0:
            # the circumradius is a number, however it is packaged: Python int, NumPy integer, float32, 0-d array
            r0 = int(rng.integers(1, 4))
            want_side = np.arccosh(np.cosh(r0) ** 2 - np.sinh(r0) ** 2 * np.cos(2 * np.pi / m))
            for tn, cv in (("int", int), ("np.int64", np.int64), ("np.float32", np.float32), ("array0d_int", lambda q: np.array(int(q))), ("float", float)):
                inp3 = {"n_gon": m, "radius": r0, "radius_type": tn, "dimension": dim}

                def poly_r():
                    V = h.Polygon.regular_polygon(m, radius=cv(r0), dimension=dim).get_vertices()
                    o = h.Point.get_origin(dim)
                    dist = np.array([o.distance(V[i]) for i in range(m)], dtype=float)
                    sides = np.array([V[i].distance(V[(i + 1) % m]) for i in range(m)], dtype=float)
                    if not np.all(np.abs(dist - r0) <= 1e-5 * (1 + r0)):
                        rep.fail("polygon_equal_radius", f"radius given as {tn}: distances {dist}", inp3)
                    elif not np.all(np.abs(sides - want_side) <= 1e-5 * (1 + want_side)):
                        rep.fail("polygon_equal_sides", f"radius given as {tn}: sides {sides} expected {want_side}", inp3)
                rep.attempt("regular_polygon_runs", inp3, poly_r)
                rep.case(key=("poly_radius_type", t, tn), nontrivial=tn != "float")
