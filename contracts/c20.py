"""C20 - CP^1 points, disks and Moebius maps are consistent on the Riemann sphere (DESIGN.md section 3, C20)."""
import numpy as np
from vf.api import rcontract, bounded
from geometry_tools import complex_projective as cp, projective as pr, utils
from contracts import spec

P = "C20"
C = "geometry_tools/complex_projective.py:"
U = "geometry_tools/utils/core.py:"


def _cplx(ctx, re, im):
    return re + im * (1j if ctx.mode == 'num' else ctx.world.I())


@rcontract(P, "spherical_projective_roundtrip", instances=[dict(chart="generic")], max_paths=16,
           functions=[C + "spherical_to_projective", C + "projective_to_spherical", U + "r_to_c", U + "c_to_r"])
def spherical_projective_roundtrip(ctx, chart):
    """points of the unit sphere by a rational parametrisation; both charts are reached by the path explorer"""
    u, v = ctx.real('u', lambda r: r.uniform(-2, 2)), ctx.real('v', lambda r: r.uniform(-2, 2))
    d = u * u + v * v + 1
    ctx.assume((u * u + v * v - 1) ** 2, '>', 0)          # not on the equator (chart boundary: separate stratum below)
    s = np.array([2 * u / d, 2 * v / d, (u * u + v * v - 1) / d], dtype=object if ctx.mode == 'sym' else float)
    z = cp.spherical_to_projective(np.array(s, copy=True))
    # stereographic projection from the north pole: affine coordinate z1/z0 = (s1 + i s2)/(1 - s3) = u + i v
    w = _cplx(ctx, u, v)
    ctx.ensure_eq('agrees_with_stereographic_projection', z[1] - w * z[0], 0, tol=1e-6)
    back = cp.projective_to_spherical(np.array(z, copy=True))
    ctx.ensure_eq('projective_to_spherical_inverts', back, s, tol=1e-6)
    ctx.ensure_eq('on_the_unit_sphere', (back * back).sum(), 1, tol=1e-6)


@rcontract(P, "projective_spherical_roundtrip", instances=[{}], max_paths=16,
           functions=[C + "spherical_to_projective", C + "projective_to_spherical", C + "CP1Point.__init__", C + "CP1Point.spherical_coords"])
def projective_spherical_roundtrip(ctx):
    z = ctx.complexes('z', (2,))
    n0 = z[0] * np.conjugate(z[0]) if ctx.mode == 'num' else z[0] * z[0].conjugate()
    n1 = z[1] * np.conjugate(z[1]) if ctx.mode == 'num' else z[1] * z[1].conjugate()
    re = (lambda a: a.real) if ctx.mode == 'num' else (lambda a: a.re_im()[0])
    ctx.assume(re(n0), '>', 0)
    ctx.assume(re(n1), '>', 0)
    ctx.assume((re(n1) - re(n0)) ** 2, '>', 0)
    s = cp.CP1Point(np.array(z, copy=True)).spherical_coords()
    ctx.ensure_eq('on_the_unit_sphere', (s * s).sum(), 1, tol=1e-6)
    back = cp.spherical_to_projective(np.array(s, copy=True))
    ctx.ensure_eq('same_point_of_CP1', back[0] * z[1] - back[1] * z[0], 0, tol=1e-6)
    # infinity = [0:1] is the north pole, 0 = [1:0] the south pole
    sn = cp.projective_to_spherical(ctx.const(np.array([0.0, 1.0])) + 0 * z)
    ctx.ensure_eq('infinity_is_the_north_pole', sn, np.array([0, 0, 1.0]), tol=1e-9)
    ss = cp.projective_to_spherical(ctx.const(np.array([1.0, 0.0])) + 0 * z)
    ctx.ensure_eq('zero_is_the_south_pole', ss, np.array([0, 0, -1.0]), tol=1e-9)


@rcontract(P, "disk_reports_centre_and_radius", instances=[dict(k=1), dict(k=2)], timeout=100.0, max_paths=40,
           functions=[C + "CP1Disk.__init__", C + "CP1Disk._compute_proj_data", C + "CP1Disk.circle_parameters", C + "CP1Disk.boundary_points",
                      C + "CP1Object.real_affine_coords", U + "circle_through", U + "sphere_through", U + "normalize"])
def disk_reports_centre_and_radius(ctx, k):
    cre = ctx.reals('cre', (k,), lambda r: r.uniform(-2, 2, (k,)))
    cim = ctx.reals('cim', (k,), lambda r: r.uniform(-2, 2, (k,)))
    rad = ctx.reals('rad', (k,), lambda r: r.uniform(0.2, 2, (k,)))
    ctx.assume(rad, '>', 0)
    ctx.assume(cre * cre + cim * cim, '>', 0)        # centre not at the origin (separate stratum below)
    c = _cplx(ctx, cre, cim)
    D = cp.CP1Disk(np.array(c, copy=True), np.array(rad, copy=True))
    ctx.ensure_true('shape', D.shape == (k,), f"{D.shape}")
    ctr, r = D.circle_parameters()
    ctx.ensure_eq('centre', ctr, np.stack([cre, cim], axis=-1), tol=1e-6)
    ctx.ensure_eq('radius', r, rad, tol=1e-6)
    ip = D.interior_point().real_affine_coords()
    ctx.ensure_eq('interior_point_is_the_centre', ip, np.stack([cre, cim], axis=-1), tol=1e-6)


@rcontract(P, "disk_centred_at_origin", instances=[{}], timeout=60.0, max_paths=20,
           functions=[C + "CP1Disk._compute_proj_data", C + "CP1Disk.circle_parameters"])
def disk_centred_at_origin(ctx):
    rad = ctx.reals('rad', (1,), lambda r: r.uniform(0.2, 2, (1,)))
    ctx.assume(rad, '>', 0)
    c = ctx.const(np.array([0.0])) + 0 * rad
    D = cp.CP1Disk(np.array(c + (0j if ctx.mode == 'num' else 0), copy=True), np.array(rad, copy=True))
    ctr, r = D.circle_parameters()
    ctx.ensure_eq('centre', ctr, np.zeros_like(ctr, dtype=float) if ctx.mode == 'num' else 0 * ctr, tol=1e-6)
    ctx.ensure_eq('radius', r, rad, tol=1e-6)


@rcontract(P, "moebius_image_of_disk", instances=[], thorough=[{}], timeout=150.0, max_paths=40,
           functions=["geometry_tools/projective.py:Transformation.apply", C + "CP1Disk.circle_parameters", C + "CP1Disk.boundary_points", C + "CP1Disk.interior_point"])
def moebius_image_of_disk(ctx):
    """T @ disk is the disk given by the images of the three boundary points and of the interior point; its reported
    circle passes through the image boundary points"""
    cre, cim = ctx.reals('cre', (1,)), ctx.reals('cim', (1,))
    rad = ctx.reals('rad', (1,), lambda r: r.uniform(0.2, 2, (1,)))
    ctx.assume(rad, '>', 0)
    ctx.assume(cre * cre + cim * cim, '>', 0)
    M = ctx.complexes('M', (2, 2))
    det = M[0, 0] * M[1, 1] - M[0, 1] * M[1, 0]
    dd = det * (np.conjugate(det) if ctx.mode == 'num' else det.conjugate())
    ctx.assume(dd.real if ctx.mode == 'num' else dd.re_im()[0], '>', 0)
    D = cp.CP1Disk(np.array(_cplx(ctx, cre, cim), copy=True), np.array(rad, copy=True))
    T = pr.Transformation(np.array(M, copy=True))
    E = T @ D
    ctx.ensure_true('type', type(E) is cp.CP1Disk)
    ctx.ensure_eq('points_are_images', E.proj_data, D.proj_data @ M, tol=1e-6)
    # image boundary points in the affine chart (assume none is sent to infinity)
    b = E.boundary_points().proj_data
    for i in range(3):
        z0 = b[0, i, 0]
        n0 = z0 * (np.conjugate(z0) if ctx.mode == 'num' else z0.conjugate())
        ctx.assume(n0.real if ctx.mode == 'num' else n0.re_im()[0], '>', 0)
    ctr, r = E.circle_parameters()
    aff = E.boundary_points().real_affine_coords()
    for i in range(3):
        ctx.ensure_eq(f'image_boundary_point{i}_on_reported_circle', spec.nsq(aff[0, i] - ctr[0]), r[0] * r[0], tol=1e-5)


@bounded(P, "sampling", functions=[C + "CP1Disk.contains", C + "CP1Disk.intersects", C + "CP1Disk.complement", C + "CP1Disk.inversion", C + "to_standard_triple",
                                   C + "CP1Disk.center_inside", C + "CP1Disk.fs_center", C + "CP1Disk.fs_diameter", U + "disk_interactions", "geometry_tools/utils/cp1.py:fs_ctr_to_aff_ctr"],
         note="containment / intersection against point-membership on a dense sample of CP^1, four bounded/unbounded combinations, elementwise and pairwise; complement twice; "
              "Moebius images (interior side); Fubini-Study centre and diameter for both radius metrics")
def sampling(tier, rng, rep):
    N = 80 if tier == 'thorough' else 16
    rep.rule = ("random centres in the disc of radius 3, radii in [0.1, 2.5]; disks and their complements; general position (boundary circles at distance > 0.05 from tangency); "
                "set-theoretic oracle: membership of 4000 sample points of CP^1 (two charts + infinity); non-trivial = pair involving a disk containing infinity")
    rep.bound = f"{N} rounds x all ordered pairs of 8 disks"
    # dense sample of CP^1 in affine coordinates plus infinity
    g = rng.normal(size=(4000, 2)) * np.array([1.0, 1.0])
    zs = g[:, 0] + 1j * g[:, 1]
    zs = np.concatenate([zs * 0.7, 1 / (zs[:800] * 0.7 + 1e-9), zs * 3])

    def member(c, r, inside, z, at_inf):
        """membership of affine points z (and infinity) in the disk {|z-c|<r} (inside=True) or its complement"""
        m = np.abs(z - c) < r
        return (m, False) if inside else (~m & (np.abs(np.abs(z - c) - r) > 0), True)

    for t in range(N):
        k = 4
        cs = (rng.uniform(-3, 3, k) + 1j * rng.uniform(-3, 3, k))
        rs = rng.uniform(0.1, 2.5, k)
        if t % 2 == 0:      # a centre that is zero up to a rounding residue (cos(pi/2), a sum of roots of unity), or exactly zero
            cs[0] = [np.cos(np.pi / 2) + 0j, 1e-13 * (1 + 1j), np.exp(1j * np.pi) + 1, 0j, 3e-15j, 1e-300 + 0j][(t // 2) % 6]
        disks = cp.CP1Disk(cs.copy(), rs.copy())
        inp = {"centres": [[c.real, c.imag] for c in cs], "radii": rs.tolist()}

        def body():
            ctr, rr = disks.circle_parameters()
            if not np.all(np.abs(ctr[:, 0] + 1j * ctr[:, 1] - cs) <= 1e-7) or not np.all(np.abs(rr - rs) <= 1e-7):
                rep.fail("reports_centre_and_radius", f"{ctr.tolist()} {rr.tolist()}", inp); return
            comp = disks.complement()
            cc = comp.complement()
            # same disk: same circle, interior point on the same side
            c2, r2 = cc.circle_parameters()
            if not np.all(np.abs(c2 - ctr) <= 1e-6) or not np.all(np.abs(r2 - rr) <= 1e-6) or not np.array_equal(cc.center_inside(), disks.center_inside()):
                rep.fail("complement_twice_is_identity", "", inp); return
            if np.any(comp.center_inside()) or not np.all(disks.center_inside()):
                rep.fail("complement_contains_infinity", f"{comp.center_inside()} {disks.center_inside()}", inp); return
            allc = np.concatenate([cs, cs]); allr = np.concatenate([rs, rs]); alli = np.array([True] * k + [False] * k)
            both = cp.CP1Disk(np.concatenate([disks.proj_data, comp.proj_data], axis=0))
            # general position filter
            def generic(i, j):
                d = abs(allc[i] - allc[j])
                return i % k != j % k and abs(d - (allr[i] + allr[j])) > 0.05 and abs(d - abs(allr[i] - allr[j])) > 0.05
            truth_c = np.zeros((2 * k, 2 * k), bool); truth_i = np.zeros((2 * k, 2 * k), bool); ok = np.zeros((2 * k, 2 * k), bool)
            for i in range(2 * k):
                for j in range(2 * k):
                    if not generic(i, j):
                        continue
                    d = abs(allc[i] - allc[j]); ri, rj = allr[i], allr[j]
                    # set-theoretic truth from first principles (open discs D(c,r) and complements of closed discs)
                    if alli[i] and alli[j]:
                        truth_c[i, j] = d + rj < ri; truth_i[i, j] = d < ri + rj
                    elif alli[i] and not alli[j]:            # bounded vs complement of D_j
                        truth_c[i, j] = False; truth_i[i, j] = not (d + ri < rj)
                    elif not alli[i] and alli[j]:            # complement of D_i vs bounded
                        truth_c[i, j] = d > ri + rj; truth_i[i, j] = not (d + rj < ri)
                    else:
                        truth_c[i, j] = d + ri < rj; truth_i[i, j] = True
                    ok[i, j] = True
            got_c = both.contains(both, broadcast="pairwise")
            got_i = both.intersects(both, broadcast="pairwise")
            if got_c.shape != (2 * k, 2 * k) or got_i.shape != (2 * k, 2 * k):
                rep.fail("pairwise_shape", f"{got_c.shape}", inp); return
            for i in range(2 * k):
                for j in range(2 * k):
                    if not ok[i, j]:
                        continue
                    kind = ("bounded" if alli[i] else "unbounded") + "_vs_" + ("bounded" if alli[j] else "unbounded")
                    if got_c[i, j] != truth_c[i, j]:
                        rep.fail("contains_pairwise", f"{kind}: disk {i} contains disk {j}: library {got_c[i, j]}, sample says {truth_c[i, j]}", {**inp, "i": i, "j": j}); return
                    if got_i[i, j] != truth_i[i, j]:
                        rep.fail("intersects_pairwise", f"{kind}: disk {i} meets disk {j}: library {got_i[i, j]}, sample says {truth_i[i, j]}", {**inp, "i": i, "j": j}); return
                    rep.case(key=(t, i, j), nontrivial=not (alli[i] and alli[j]))
            # elementwise: all ordered pairs via rolling
            for sh in range(1, 2 * k):
                idx = (np.arange(2 * k) + sh) % (2 * k)
                oth = cp.CP1Disk(both.proj_data[idx])
                ec, ei = both.contains(oth), both.intersects(oth)
                for i in range(2 * k):
                    j = idx[i]
                    if ok[i, j] and (ec[i] != truth_c[i, j] or ei[i] != truth_i[i, j]):
                        kind = ("bounded" if alli[i] else "unbounded") + "_vs_" + ("bounded" if alli[j] else "unbounded")
                        rep.fail("contains_intersects_elementwise", f"{kind}: i={i} j={j} contains {ec[i]}/{truth_c[i, j]} intersects {ei[i]}/{truth_i[i, j]}", {**inp, "i": i, "j": int(j)}); return
            # Moebius image: interior point of the image is on the image side
            M = rng.normal(size=(2, 2)) + 1j * rng.normal(size=(2, 2))
            # a Moebius map is a matrix up to a non-zero complex scalar: every third round the matrix (and every sixth round
            # also the disks' homogeneous data) carries an arbitrary tiny or large scale
            if t % 3 == 0:
                M = M * (10.0 ** (rng.uniform(-12, -8.5) if t % 2 == 0 else rng.uniform(-6, 3)) * np.exp(1j * rng.uniform(0, 2 * np.pi)))
            E = pr.Transformation(M.copy()) @ disks
            probe = cs + 0.5 * rs                      # a point inside each disk
            wimg = (M[0, 1] + probe * M[1, 1]) / (M[0, 0] + probe * M[1, 0])
            ce, re_ = E.circle_parameters()
            inside_img = np.abs(wimg - (ce[:, 0] + 1j * ce[:, 1])) < re_
            if not np.array_equal(inside_img, E.center_inside()):
                rep.fail("moebius_image_side", "image of an interior point is not on the side of the image's interior point", {**inp, "M_re": M.real.tolist(), "M_im": M.imag.tolist()}); return
            # the image contains the image of the probe point and the double complement of the image is the image
            if not np.all(E.contains(cp.CP1Disk(wimg, np.full(k, 1e-6))) | ~np.isfinite(wimg)):
                rep.fail("moebius_image_side", "the image disk does not contain a small disk around the image of an interior point", {**inp, "M_re": M.real.tolist(), "M_im": M.imag.tolist()}); return
            Ecc = E.complement().complement()
            c2e, r2e = Ecc.circle_parameters()
            if not np.all(np.abs(c2e - ce) <= 1e-6 * (1 + np.abs(ce))) or not np.all(np.abs(r2e - re_) <= 1e-6 * (1 + re_)) or not np.array_equal(Ecc.center_inside(), E.center_inside()):
                rep.fail("double_complement", "of a Moebius image", {**inp, "M_re": M.real.tolist(), "M_im": M.imag.tolist()}); return
            # coordinates given as integers (lists of Python ints, int64 arrays): the same points as for the float packaging
            for coords_, data_ in (("real_affine", [3, 4]), ("real_affine", [-2, 1]), ("spherical", [1, 0, 0]), ("spherical", [0, -1, 0]), ("cx_affine", 2)):
                ref_ = cp.CP1Point(np.array(data_, dtype=float) if coords_ != "cx_affine" else complex(data_), coords=coords_).proj_data
                for pk_, conv_ in (("list_of_ints", lambda d_: d_), ("int64_array", lambda d_: np.array(d_, dtype=np.int64)), ("int32_array", lambda d_: np.array(d_, dtype=np.int32))):
                    try:
                        got_ = cp.CP1Point(conv_(data_), coords=coords_).proj_data
                    except (TypeError, ValueError):
                        continue
                    cr_ = got_[0] * ref_[1] - got_[1] * ref_[0]
                    if not (np.all(np.isfinite(got_)) and np.any(got_ != 0) and abs(cr_) <= 1e-12 * max(1.0, np.max(np.abs(got_)) * np.max(np.abs(ref_)))):
                        rep.fail("integer_coordinates", f"CP1Point({data_}, coords={coords_!r}) given as {pk_}: {got_.tolist()} vs {ref_.tolist()}", {"coords": coords_, "data": data_, "packaging": pk_}); return
            for ctr_, rad_ in (([2, 1], 1), ([0, -3], 2)):
                Df_ = cp.CP1Disk(np.array([complex(*ctr_)]), np.array([float(rad_)]))
                try:
                    Di_ = cp.CP1Disk(np.array([ctr_], dtype=np.int64), np.array([rad_], dtype=np.int64), center_coords="real_affine")
                except (TypeError, ValueError):
                    continue
                (c1_, r1_), (c2_, r2_) = Df_.circle_parameters(), Di_.circle_parameters()
                if not np.all(np.abs(np.asarray(c1_) - np.asarray(c2_)) <= 1e-9) or not np.all(np.abs(np.asarray(r1_) - np.asarray(r2_)) <= 1e-9):
                    rep.fail("integer_coordinates", f"disk with integer centre {ctr_} and radius {rad_}: reports {c2_}, {r2_}", {"centre": ctr_, "radius": rad_}); return
            # the poles of the sphere (where one of the two conversion formulas degenerates) and points next to them
            for sp_, nm_ in ((np.array([0.0, 0.0, 1.0]), "north"), (np.array([0.0, 0.0, -1.0]), "south")):
                zz = cp.spherical_to_projective(sp_.copy())
                big, small = (zz[1], zz[0]) if nm_ == "north" else (zz[0], zz[1])
                if not (abs(small) <= 1e-12 and abs(big) > 1e-6):
                    rep.fail("poles", f"spherical_to_projective({sp_.tolist()}) = {zz.tolist()}", {"spherical": sp_.tolist()}); return
                back_ = cp.CP1Point(zz.copy()).spherical_coords()
                if not np.all(np.abs(back_ - sp_) <= 1e-9):
                    rep.fail("poles", f"round trip of the {nm_} pole: {np.asarray(back_).tolist()}", {"spherical": sp_.tolist()}); return
                for eps_ in (1e-3, 1e-7):
                    u_ = rng.normal(size=2); u_ = u_ / np.linalg.norm(u_) * eps_
                    sq = np.array([u_[0], u_[1], sp_[2] * np.sqrt(1 - eps_ ** 2)])
                    zq = cp.spherical_to_projective(sq.copy())
                    # stereographic projection, written without cancellation on either hemisphere
                    wq = (sq[0] + 1j * sq[1]) / (1 - sq[2]) if nm_ == "south" else (1 + sq[2]) / (sq[0] - 1j * sq[1])
                    if not (abs(zq[1] - wq * zq[0]) <= 1e-12 * max(abs(zq[1]), abs(wq * zq[0]))):
                        rep.fail("poles", f"near the {nm_} pole: {zq.tolist()} vs affine coordinate {wq}", {"spherical": sq.tolist()}); return
                Dp = cp.CP1Disk(sp_[None].copy(), np.array([0.7]), radius_metric="fs", center_coords="spherical")
                if not np.all(np.abs(Dp.fs_diameter() - 1.4) <= 1e-6) or not np.all(np.abs(Dp.fs_center().spherical_coords() - sp_) <= 1e-6):
                    rep.fail("poles", f"Fubini-Study disk centred at the {nm_} pole reports {Dp.fs_diameter().tolist()}, {Dp.fs_center().spherical_coords().tolist()}", {"spherical": sp_.tolist()}); return
            # Fubini-Study: a disk built from spherical centre + FS radius reports them
            sc = rng.normal(size=(k, 3)); sc /= np.linalg.norm(sc, axis=-1, keepdims=True)
            fr = rng.uniform(0.1, 1.4, k)
            Df = cp.CP1Disk(sc.copy(), fr.copy(), radius_metric="fs", center_coords="spherical")
            dia = Df.fs_diameter()
            if not np.all(np.abs(dia - 2 * fr) <= 1e-6):
                rep.fail("fs_diameter", f"{dia.tolist()} vs {(2 * fr).tolist()}", {"spherical_centres": sc.tolist(), "fs_radii": fr.tolist()}); return
            fc = Df.fs_center().spherical_coords()
            if not np.all(np.abs(fc - sc) <= 1e-6):
                rep.fail("fs_center", f"{fc.tolist()} vs {sc.tolist()}", {"spherical_centres": sc.tolist(), "fs_radii": fr.tolist()}); return
            # affine-built disks: FS diameter of disk + complement = pi, between 0 and pi
            da, db = disks.fs_diameter(), comp.fs_diameter()
            if not np.all(np.abs(da + db - np.pi) <= 1e-6) or np.any(da <= 0) or np.any(da >= np.pi):
                rep.fail("fs_diameter_complement", f"{da.tolist()} {db.tolist()}", inp); return
            # the Fubini-Study centre of the complement is the antipode of the Fubini-Study centre (any disk), and a disk / its complement centred EXACTLY at the
            # affine origin (the boundary circle's centre is the float 0.0) or at infinity has its centre at the corresponding pole
            ca_, cb_ = np.asarray(disks.fs_center().spherical_coords(), dtype=float), np.asarray(comp.fs_center().spherical_coords(), dtype=float)
            if not np.all(np.abs(ca_ + cb_) <= 1e-6):
                rep.fail("fs_center_of_complement_is_antipodal", f"{ca_.tolist()} vs {cb_.tolist()}", inp); return
            rad0 = np.array([0.5, 1.0, 2.0, 3.0])
            D0 = cp.CP1Disk(np.zeros(4, dtype=complex), rad0.copy())
            origin_sph = np.asarray(cp.CP1Point(np.array([1.0 + 0j, 0.0])).spherical_coords(), dtype=float)
            inv_ = cp.CP1Transformation(np.array([[0, 1], [1, 0]], dtype=complex)) if hasattr(cp, "CP1Transformation") else None
            variants = {"disk_at_origin": (D0, origin_sph, None), "complement_of_disk_at_origin": (D0.complement(), -origin_sph, None)}
            for nm_, (Dv, want_c, _) in variants.items():
                got_c = np.asarray(Dv.fs_center().spherical_coords(), dtype=float)
                if got_c.shape != (4, 3) or not np.all(np.abs(got_c - want_c) <= 1e-6):
                    rep.fail("fs_center_at_a_pole", f"{nm_} (radii {rad0.tolist()}): Fubini-Study centres {got_c.tolist()}, expected {want_c.tolist()} for each", {"variant": nm_}); return
                dia_ = np.asarray(Dv.fs_diameter(), dtype=float)
                want_d = 4 * np.arctan(rad0) if nm_ == "disk_at_origin" else 2 * np.pi - 4 * np.arctan(rad0)
                # FS metric normalised so that the whole line has diameter pi: a disk |z| < r has FS radius arctan(r)
                if not np.all(np.abs(dia_ - want_d / 2) <= 1e-6):
                    rep.fail("fs_diameter_at_a_pole", f"{nm_}: {dia_.tolist()} vs {(want_d / 2).tolist()}", {"variant": nm_}); return
        rep.attempt("disk_operations_run", inp, body)


@bounded(P, "small_disks_far_from_the_origin", functions=[C + "CP1Disk.circle_parameters", C + "CP1Disk.contains", C + "CP1Disk.intersects", "geometry_tools/utils/core.py:circle_through"],
         note="disks whose radius is tiny compared with the modulus of their centre (|c| / r up to 1e8): the reported centre and radius are those the disk was built from (relative to the "
              "radius), and containment / intersection of nearby small disks agree with the set-theoretic answer")
def small_disks_far_from_the_origin(tier, rng, rep):
    N = 120 if tier == 'thorough' else 30
    rep.rule = "|c| in 10^[1, 5], r in 10^[-3, 0] with |c| / r up to 1e8; pairs: disjoint with a gap of r/2, overlapping by r/2, nested (radius r/3 inside), and the complement of a far disjoint disk containing the other"
    rep.bound = f"{N} centres x 4 configurations"
    for t in range(N):
        cm = 10 ** rng.uniform(1, 5)
        c0 = cm * np.exp(1j * rng.uniform(0, 2 * np.pi))
        r = 10 ** rng.uniform(-3, 0)
        u = np.exp(1j * rng.uniform(0, 2 * np.pi))
        inp = {"centre": [c0.real, c0.imag], "radius": r, "ratio": cm / r}

        def body():
            D = cp.CP1Disk(np.array([c0]), np.array([r]))
            cc, rr = D.circle_parameters()
            cc = np.asarray(cc, dtype=float).reshape(-1); cz = complex(cc[0], cc[1]) if cc.size == 2 else complex(np.asarray(cc).ravel()[0])
            rr = float(np.asarray(rr).ravel()[0])
            if not (abs(rr - r) <= 1e-5 * r and abs(cz - c0) <= 1e-5 * r):
                rep.fail("reports_centre_and_radius", f"|c|/r = {cm / r:.3g}: reported radius {rr} (built with {r}), centre off by {abs(cz - c0):.3g}", inp); return
            cfg = {"disjoint_gap_half_radius": (c0 + 2.5 * r * u, r, False, False), "overlap_half_radius": (c0 + 1.5 * r * u, r, True, False), "nested": (c0 + 0.3 * r * u, r / 3, True, True)}
            for nm, (c1, r1, meets, inside) in cfg.items():
                E_ = cp.CP1Disk(np.array([c1]), np.array([r1]))
                gi = bool(np.asarray(D.intersects(E_)).ravel()[0]); gc = bool(np.asarray(D.contains(E_)).ravel()[0])
                if gi != meets or gc != inside:
                    rep.fail("set_theoretic_answer", f"{nm} at |c|/r = {cm / r:.3g}: intersects={gi} (expected {meets}), contains={gc} (expected {inside})", {**inp, "configuration": nm}); return
            F_ = cp.CP1Disk(np.array([c0 + 10 * r * u]), np.array([r]))
            if not bool(np.asarray(F_.complement().contains(D)).ravel()[0]):
                rep.fail("set_theoretic_answer", f"complement of a disjoint disk does not contain the disk (|c|/r = {cm / r:.3g})", {**inp, "configuration": "complement_contains"})
        rep.attempt("disk_operations_run", inp, body)
        rep.case(key=(t,), nontrivial=cm / r > 1e6, sample=inp if t == 0 else None)
        if len(rep.failures) >= 3:
            return
