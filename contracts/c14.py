"""C14 - circle and sphere parameters describe the true geodesic, segment and horosphere (DESIGN.md section 3, C14)."""
import itertools
import numpy as np
from vf.api import rcontract, bounded
from vf.rrun import _det_obj
from geometry_tools import hyperbolic as h, utils
from contracts import spec

P = "C14"
H = "geometry_tools/hyperbolic.py:"
U = "geometry_tools/utils/core.py:"


def det(m, ctx):
    return _det_obj(np.asarray(m, dtype=object)) if ctx.mode == 'sym' else np.linalg.det(np.asarray(m, dtype=float))


def two_points(ctx, n, ideal=False):
    k = ctx.reals('k', (n,), lambda r: r.uniform(-0.55, 0.55, n))
    l = ctx.reals('l', (n,), lambda r: r.uniform(-0.55, 0.55, n))
    ctx.assume(spec.nsq(k), '<', 1)
    ctx.assume(spec.nsq(l), '<', 1)
    ctx.assume(spec.nsq(k - l), '>', 0)
    return k, l


@rcontract(P, "segment_ideal_endpoints", instances=[dict(n=2), dict(n=3)], thorough=[dict(n=4)], timeout=60.0,
           functions=[H + "Segment.__init__", H + "Segment._compute_aux_data", H + "minkowski"])
def segment_ideal_endpoints(ctx, n):
    """ideal endpoints are lightlike, distinct, and on the Klein line through the endpoints (affine combinations)"""
    k, l = two_points(ctx, n)
    S = h.Segment(h.Point(np.array(k, copy=True), model="klein"), h.Point(np.array(l, copy=True), model="klein"))
    e = S.proj_data
    ib = S.ideal_basis
    ctx.ensure_true('shape', ib.shape == (2, n + 1))
    for i in range(2):
        ctx.ensure_eq(f'ideal{i}_lightlike', spec.mink(ib[i], ib[i]), 0, tol=1e-6)
        st = np.stack([e[0], e[1], ib[i]])
        mins = [det(st[:, list(c)], ctx) for c in itertools.combinations(range(n + 1), 3)]
        ctx.ensure_eq(f'ideal{i}_on_the_line', np.array(mins, dtype=object if ctx.mode == 'sym' else float), 0, tol=1e-6)
        ctx.ensure(f'ideal{i}_in_the_chart', ib[i][0] * ib[i][0], '>', 0)
    ctx.ensure_eq('endpoints_kept', e, np.stack([spec.k2proj(k), spec.k2proj(l)]), proj=True)
    if n == 2:
        cr = _cross(ib[0], ib[1])
        ctx.ensure('ideal_endpoints_distinct', sum(c * c for c in cr), '>', 0)


def _lam(ctx, name):
    l = ctx.real(name, lambda r: r.choice([-1, 1]) * r.uniform(0.3, 3))
    ctx.assume(l * l, '>', 0)
    return l


def _segment(ctx, k, l, hom):
    """hom: arbitrary homogeneous representatives a(1,k), b(1,l) (what an isometry with a translation part, hyperboloid
    coordinates or eigenvector routines produce); otherwise the Klein-coordinate constructor"""
    if hom:
        b = _lam(ctx, 'b')        # only the ratio of the two scales matters to the code (it is homogeneous of degree 0 in a common factor)
        return h.Segment(h.Point(spec.k2proj(k)), h.Point(b * spec.k2proj(l)))
    return h.Segment(h.Point(np.array(k, copy=True), model="klein"), h.Point(np.array(l, copy=True), model="klein"))


def _cross(a, b):
    return [a[i] * b[j] - a[j] * b[i] for i in range(len(a)) for j in range(i + 1, len(a))]


@rcontract(P, "segment_circle_poincare", instances=[dict(n=2, hom=False), dict(n=2, hom=True)], thorough=[dict(n=3, hom=False), dict(n=3, hom=True)], timeout=150.0, max_paths=40,
           functions=[H + "Subspace.sphere_parameters", H + "Subspace.ideal_basis_coords", H + "kleinian_to_poincare", U + "sphere_inversion",
                      H + "Segment._compute_aux_data", H + "PointPair.endpoint_coords"])
def segment_circle_poincare(ctx, n, hom):
    """Poincare model: the reported sphere meets the unit sphere at right angles (|c|^2 = 1 + r^2) and passes through
    both ideal endpoints and both endpoints.  Precondition: the geodesic does not pass through the origin."""
    k, l = two_points(ctx, n)
    cr = _cross(k, l)
    ctx.assume(sum(c * c for c in cr), '>', 0)
    S = _segment(ctx, k, l, hom)
    c, r = S.sphere_parameters(model=h.Model.POINCARE)
    ctx.ensure_eq('orthogonal_to_boundary', spec.nsq(c), 1 + r * r, tol=1e-6)
    ctx.ensure('radius_positive', r, '>', 0)
    ends = S.endpoint_coords("poincare")
    ideal = S.ideal_endpoint_coords("poincare")
    for i in range(2):
        ctx.ensure_eq(f'endpoint{i}_on_circle', spec.nsq(ends[i] - c), r * r, tol=1e-5)
        ctx.ensure_eq(f'ideal{i}_on_circle', spec.nsq(ideal[i] - c), r * r, tol=1e-5)
        ctx.ensure_eq(f'ideal{i}_on_boundary', spec.nsq(ideal[i]), 1, tol=1e-5)


@rcontract(P, "segment_circle_halfspace", instances=[dict(n=2, hom=False), dict(n=2, hom=True)], thorough=[dict(n=3, hom=False), dict(n=3, hom=True)], timeout=150.0, max_paths=40,
           functions=[H + "Subspace.sphere_parameters", H + "poincare_to_halfspace", H + "Point.halfspace_coords"])
def segment_circle_halfspace(ctx, n, hom):
    """half-space model: centre on the boundary (height 0), sphere through the endpoints and the ideal endpoints.
    Precondition: no ideal endpoint is the half-space point at infinity (the Klein line misses e_0)."""
    k, l = two_points(ctx, n)
    e0 = np.zeros(n); e0[0] = 1
    cr = _cross(k - e0, l - e0)
    ctx.assume(sum(c * c for c in cr), '>', 0)
    S = _segment(ctx, k, l, hom)
    c, r = S.sphere_parameters(model=h.Model.HALFSPACE)
    ctx.ensure_eq('centre_on_boundary', c[-1] / (1 + spec.nsq(c) + r * r), 0, tol=1e-6)   # float64: normalised by the chart's amplification
    ends = S.endpoint_coords("halfspace")
    ideal = S.ideal_endpoint_coords("halfspace")
    for i in range(2):
        ctx.ensure_eq(f'endpoint{i}_on_circle', (spec.nsq(ends[i] - c) - r * r) / (1 + spec.nsq(c) + r * r), 0, tol=1e-6)
        ctx.ensure_eq(f'ideal{i}_on_circle', (spec.nsq(ideal[i] - c) - r * r) / (1 + spec.nsq(c) + r * r), 0, tol=1e-6)
        ctx.ensure_eq(f'ideal{i}_height_zero', ideal[i][-1] / (1 + spec.nsq(ideal[i])), 0, tol=1e-6)


def _ideal(ctx, name, n):
    """an ideal point by stereographic parametrisation (all ideal points except -e_1): (1, (1-|u|^2)/(1+|u|^2), 2u/(1+|u|^2))"""
    u = ctx.reals(name, (n - 1,), lambda r: r.uniform(-1.5, 1.5, n - 1))
    d = 1 + spec.nsq(u)
    return np.concatenate([np.array([1 + 0 * d, (1 - spec.nsq(u)) / d], dtype=object if ctx.mode == 'sym' else float), 2 * u / d])


@rcontract(P, "horosphere_sphere", instances=[dict(n=2, model="poincare"), dict(n=2, model="halfspace")],
           thorough=[dict(n=3, model="poincare"), dict(n=3, model="halfspace")], timeout=150.0, max_paths=40,
           functions=[H + "Horosphere.__init__", H + "Horosphere.set_center_ref", H + "Horosphere.sphere_parameters"])
def horosphere_sphere(ctx, n, model):
    """the reported sphere passes through the reference point and is tangent to the boundary at the centre"""
    xi = _ideal(ctx, 'u', n)
    p = ctx.reals('p', (n,), lambda r: r.uniform(-0.55, 0.55, n))
    ctx.assume(spec.nsq(p), '<', 1)
    Hs = h.Horosphere(h.IdealPoint(np.array(xi, copy=True)), h.Point(np.array(p, copy=True), model="klein"))
    if model == "halfspace":
        # the centre is not the point at infinity e_0
        ctx.assume(spec.nsq(xi[1:] - np.eye(n)[0]), '>', 0)
    c, r = Hs.sphere_parameters(model=model)
    ref = h.Point(np.array(p, copy=True), model="klein").coords(model)
    ctx.ensure_eq('through_reference_point', spec.nsq(ref - c), r * r, tol=1e-6)
    ctx.ensure('radius_positive', r, '>', 0)
    if model == "poincare":
        xic = xi[1:] / xi[0]
        ctx.ensure_eq('centre_on_the_ray_to_the_ideal_centre', c, xic * (1 - r), tol=1e-6)    # tangent to the unit sphere at xi
    else:
        xih = h.Point(np.array(xi, copy=True)).coords("halfspace")
        ctx.ensure_eq('centre_above_ideal_centre', c[:-1], xih[:-1], tol=1e-6)
        ctx.ensure_eq('tangent_to_boundary', c[-1], r, tol=1e-6)


@rcontract(P, "geodesic_subspace_sphere", instances=[dict(n=2)], thorough=[dict(n=3)], timeout=150.0, max_paths=40,
           functions=[H + "Geodesic.__init__", H + "Subspace.sphere_parameters", H + "Subspace.ideal_basis_coords"])
def geodesic_subspace_sphere(ctx, n):
    """a geodesic given by two ideal points: the reported Poincare sphere contains both ideal points and is orthogonal
    to the boundary"""
    a, b = _ideal(ctx, 'u', n), _ideal(ctx, 'w', n)
    cr = _cross(a[1:], b[1:])
    ctx.assume(sum(c * c for c in cr), '>', 0)           # not a diameter
    sa, sb = _lam(ctx, 'sa'), _lam(ctx, 'sb')         # arbitrary lightlike representatives of the two ideal points
    G = h.Geodesic(h.IdealPoint(sa * a), h.IdealPoint(sb * b))
    c, r = G.sphere_parameters(model=h.Model.POINCARE)
    ctx.ensure_eq('orthogonal_to_boundary', spec.nsq(c), 1 + r * r, tol=1e-6)
    for i, x in enumerate((a, b)):
        ctx.ensure_eq(f'ideal{i}_on_sphere', spec.nsq(x[1:] / x[0] - c), r * r, tol=1e-6)


@bounded(P, "sampling", functions=[H + "Segment.circle_parameters", H + "Geodesic.circle_parameters", H + "HorosphereArc.circle_parameters",
                                   H + "Subspace.sphere_parameters", H + "Subspace.boundary_sphere_parameters", U + "circle_angles", U + "short_arc", U + "right_to_left"],
         note="angle pairs (degrees/radians) bound exactly the arc between the endpoints inside the model; totally geodesic subspaces of dimension 1..n-1 in dimension 2..4")
def sampling(tier, rng, rep):
    N = 400 if tier == 'thorough' else 80
    rep.rule = ("random and near-degenerate pairs of interior/ideal points in the plane, both conformal models, degrees and radians; every sampled point of "
                "the reported arc is tested for lying on the hyperbolic segment (between the endpoints on the geodesic); subspaces spanned by k ideal points in dimension 3,4; "
                "non-trivial = arc crossing the angle branch cut or near the straight-line limit")
    rep.bound = f"{N} rounds"
    for t in range(N):
        def kl(rmax=0.95):
            v = rng.normal(size=2)
            return v / np.linalg.norm(v) * rng.uniform(0.0, rmax)
        k, l = kl(), kl()
        if t % 5 == 0:
            l = k + (l - k) * 1e-2 + 1e-2
            if np.linalg.norm(l) >= 1: l = k * 0.5
        if t % 7 == 0:
            k = k / np.linalg.norm(k) if np.linalg.norm(k) > 0 else np.array([1.0, 0.0])     # ideal endpoint
        S = h.Segment(h.Point(k.copy(), model="klein"), h.Point(l.copy(), model="klein"))
        if t % 2:       # arbitrary homogeneous representatives of the same two points
            fa, fb = (rng.choice([-1, 1]) * 10 ** rng.uniform(-1, 1) for _ in range(2))
            S = h.Segment(h.Point(fa * spec.k2proj(k)), h.Point(fb * spec.k2proj(l)))
        for model in ("poincare", "halfspace"):
            for degrees in (True, False):
                inp = {"k": k.tolist(), "l": l.tolist(), "model": model, "degrees": degrees}
                res = rep.attempt("circle_parameters_run", inp, lambda: _arc_clauses(rep, inp, k, l, S.circle_parameters(model=model, degrees=degrees), model, degrees, S.endpoint_coords(model)))
                rep.case(key=(t, model, degrees), nontrivial=bool(res is True), sample=inp if t == 0 and degrees else None)
        # bi-infinite geodesics between two ideal points, the model given as the enum member or as its documented string alias
        t1, t2 = rng.uniform(0, 2 * np.pi, 2)
        if abs(np.sin((t1 - t2) / 2)) > 0.05 and min(abs(np.sin(t1 / 2)), abs(np.sin(t2 / 2))) > 0.05:
            ki, li = np.array([np.cos(t1), np.sin(t1)]), np.array([np.cos(t2), np.sin(t2)])
            G = h.Geodesic(h.IdealPoint(spec.k2proj(ki)), h.IdealPoint(spec.k2proj(li)))
            for model, marg in (("poincare", "poincare"), ("poincare", h.Model.POINCARE), ("halfspace", "halfspace"), ("halfspace", h.Model.HALFSPACE), ("halfspace", "halfplane")):
                degrees = bool(t % 2)
                inpg = {"ideal_angles": [t1, t2], "model": str(marg), "degrees": degrees, "object": "Geodesic"}
                rep.attempt("circle_parameters_run", inpg, lambda: _arc_clauses(rep, inpg, ki, li, G.circle_parameters(model=marg, degrees=degrees), model, degrees, G.endpoint_coords(marg)))
                rep.case(key=(t, "geodesic", str(marg)), nontrivial=True)
        if t % 4 == 0:
            # composite segments: the reported parameters of unit j are those of segment j.  Chords crossing the x-axis on
            # either side of the origin: seen from their circle's centre the arc straddles the direction 0 or +-pi, so several
            # units of one composite are reordered by the arc rules
            kk = int(rng.integers(3, 7))
            side = rng.choice([-1.0, 1.0], size=kk)
            ka = np.stack([side * rng.uniform(0.4, 0.85, kk), rng.uniform(0.1, 0.4, kk)], axis=-1)
            kb = ka * np.array([1.0, -1.0]) * rng.uniform(0.9, 1.1, size=(kk, 2))       # nearly mirror-symmetric chords: circle centres near the x-axis
            Sc = h.Segment(h.Point(ka.copy(), model="klein"), h.Point(kb.copy(), model="klein"))
            for model in ("poincare", "halfspace"):
                for degrees in (True, False):
                    inpc = {"klein_a": ka.tolist(), "klein_b": kb.tolist(), "model": model, "degrees": degrees, "composite": True}

                    def comp():
                        c, r, th = Sc.circle_parameters(model=model, degrees=degrees)
                        ends = Sc.endpoint_coords(model)
                        for j in range(kk):
                            if _arc_clauses(rep, {**inpc, "unit": j}, ka[j], kb[j], (c[j], r[j], th[j]), model, degrees, ends[j]) is None:
                                return
                    rep.attempt("circle_parameters_run", inpc, comp)
                    rep.case(key=(t, "composite", model, degrees), nontrivial=True)


def _arc_clauses(rep, inp, k, l, params, model, degrees, ends):
    """the clauses of C14 about the reported arc of ONE segment with Klein endpoints k, l: returns None after a failure,
    "skip" in the straight-line limit, otherwise whether the arc crosses the angle branch cut"""
    c, r, th = params
    if not (np.all(np.isfinite(c)) and np.isfinite(r)):
        return "skip"          # straight-line limit: no finite circle (the drawing code substitutes a line)
    if r > 1e6:
        return "skip"
    tr = np.deg2rad(th) if degrees else th
    a0, a1 = tr
    if a1 < a0:
        a1 += 2 * np.pi
    # both endpoints are the ends of the arc
    pts = np.stack([c + r * np.array([np.cos(a), np.sin(a)]) for a in (a0, a1)])
    d_same = max(np.linalg.norm(pts[0] - ends[0]), np.linalg.norm(pts[1] - ends[1]))
    d_swap = max(np.linalg.norm(pts[0] - ends[1]), np.linalg.norm(pts[1] - ends[0]))
    tolr = 1e-6 * (1 + r + np.max(np.abs(ends))) + 1e-9 * (1 + r) / max(np.sum((k - l) ** 2), 1e-12)   # conditioning of nearly coincident endpoints
    if not (min(d_same, d_swap) <= tolr):
        rep.fail("arc_ends_are_the_endpoints", f"{pts.tolist()} vs {np.asarray(ends).tolist()}", inp)
        return None
    # every sampled point of the ccw arc lies in the model and between the endpoints on the geodesic
    A, B = h.Point(k.copy(), model="klein"), h.Point(l.copy(), model="klein")
    dAB = A.distance(B) if np.linalg.norm(k) < 1 - 1e-12 else None
    for s in np.linspace(0.02, 0.98, 9):
        a = a0 + s * (a1 - a0)
        q = c + r * np.array([np.cos(a), np.sin(a)])
        if model == "poincare" and q @ q >= 1 + 1e-9:
            rep.fail("arc_inside_model", f"sample {q} outside the disc", inp); return None
        if model == "halfspace" and q[-1] <= -1e-9:
            rep.fail("arc_inside_model", f"sample {q} below the boundary", inp); return None
        if dAB is not None and dAB > 1e-6 and min(q @ q if model == "poincare" else 1, 1) < 1 - 1e-9:
            Q = h.Point(q.copy(), model=model)
            if not (abs(A.distance(Q) + Q.distance(B) - dAB) <= 1e-5 * (1 + dAB)):
                rep.fail("arc_points_on_segment", f"sample at s={s} not between the endpoints", inp); return None
    return bool(tr[1] < tr[0])


def _subspace_check(rng, rep, N, kmin, kmax):
    for t in range(N):
        n = int(rng.integers(max(3, kmin), 5))
        kdim = int(rng.integers(kmin, min(kmax, n) + 1))
        ideal = rng.normal(size=(kdim, n)); ideal /= np.linalg.norm(ideal, axis=-1, keepdims=True)
        scale = 10 ** rng.uniform(-1, 1, size=(kdim, 1)) * rng.choice([-1, 1], size=(kdim, 1)) if t % 2 else np.ones((kdim, 1))
        Sub = h.Subspace(h.IdealPoint(scale * np.concatenate([np.ones((kdim, 1)), ideal], axis=1)))
        inp = {"n": n, "ideal_points": ideal.tolist(), "representative_scales": scale.ravel().tolist()}

        def sub():
            c, r = Sub.sphere_parameters(model=h.Model.POINCARE)
            d = np.linalg.norm(ideal - c, axis=-1)
            if not np.all(np.abs(d - r) <= 1e-6 * (1 + r)):
                rep.fail("subspace_sphere_contains_ideal_points", f"distances {d} radius {r}", inp)
            if not (abs(c @ c - 1 - r * r) <= 1e-6 * (1 + r * r)):
                rep.fail("subspace_sphere_orthogonal", f"|c|^2 = {c @ c}, 1 + r^2 = {1 + r * r}", inp)
        rep.attempt("subspace_sphere_runs", inp, sub)
        rep.case(key=(t, kdim), sample=inp if t == 0 else None)


@bounded(P, "subspace_sphere_lines", functions=[H + "Subspace.sphere_parameters"], note="geodesics (2 ideal points) in dimension 3, 4")
def subspace_sphere_lines(tier, rng, rep):
    rep.rule = "random pairs of ideal points in dimension 3,4"; rep.bound = "60 / 300 cases"
    _subspace_check(rng, rep, 300 if tier == 'thorough' else 60, 2, 2)


@bounded(P, "subspace_sphere_planes", functions=[H + "Subspace.sphere_parameters"], note="subspaces spanned by >= 3 ideal points in dimension 3, 4 (known finding)")
def subspace_sphere_planes(tier, rng, rep):
    rep.rule = "random triples / quadruples of ideal points in dimension 3,4"; rep.bound = "40 / 200 cases"
    _subspace_check(rng, rep, 200 if tier == 'thorough' else 40, 3, 4)


@bounded(P, "segment_spheres_higher_dimensions", functions=[H + "Subspace.sphere_parameters", H + "poincare_to_halfspace", H + "kleinian_to_poincare", H + "Segment._compute_aux_data"],
         note="segments in dimension 3, 4 (both conformal models): the reported sphere passes through the endpoints and ideal endpoints given by the closed-form chart maps and meets the boundary at right angles")
def segment_spheres_higher_dimensions(tier, rng, rep):
    N = 200 if tier == 'thorough' else 40
    rep.rule = "random pairs of interior points in dimension 3, 4, arbitrary homogeneous representatives; endpoints / ideal endpoints mapped by contracts/spec.py (independent of the library's conversions)"
    rep.bound = f"{N} segments x 2 models"
    for t in range(N):
        n = 3 + t % 2
        def kl():
            v = rng.normal(size=n)
            return v / np.linalg.norm(v) * rng.uniform(0.05, 0.9)
        k, l = kl(), kl()
        fa, fb = (rng.choice([-1, 1]) * 10 ** rng.uniform(-1, 1) for _ in range(2))
        S = h.Segment(h.Point(fa * spec.k2proj(k)), h.Point(fb * spec.k2proj(l)))
        # ideal endpoints of the Klein chord, independently: roots of |k + s (l - k)|^2 = 1
        d = l - k
        A_, B_, C_ = d @ d, 2 * k @ d, k @ k - 1
        ss = [(-B_ + sg * np.sqrt(B_ * B_ - 4 * A_ * C_)) / (2 * A_) for sg in (1, -1)]
        ideal = [k + s_ * d for s_ in ss]
        for model in ("poincare", "halfspace"):
            inp = {"n": n, "k": k.tolist(), "l": l.tolist(), "model": model}

            def body():
                c, r = S.sphere_parameters(model=model)
                if not (np.all(np.isfinite(c)) and np.isfinite(r)) or r > 1e5:
                    return
                conv = (lambda q: spec.k2p(q)) if model == "poincare" else (lambda q: spec.p2h(spec.k2p(q)))
                with np.errstate(all='ignore'):
                    pts = [conv(k), conv(l)] + [conv(q / np.linalg.norm(q)) for q in ideal]
                sc = 1 + r + max(np.max(np.abs(q)) for q in pts)
                if not np.all(np.isfinite(np.array(pts))) or sc > 1e4:
                    return
                for nm, q in zip(("endpoint0", "endpoint1", "ideal0", "ideal1"), pts):
                    if not (abs(np.linalg.norm(q - c) - r) <= 1e-5 * sc):
                        rep.fail("sphere_through_endpoints", f"{nm}: |q - c| = {np.linalg.norm(q - c)}, r = {r}", inp); return
                orth = (c @ c - 1 - r * r) if model == "poincare" else c[-1]
                if not (abs(orth) <= 1e-5 * sc * sc):
                    rep.fail("sphere_orthogonal_to_boundary", f"{orth}", inp)
            rep.attempt("sphere_runs", inp, body)
            rep.case(key=(t, model), nontrivial=True, sample=inp if t == 0 else None)


@bounded(P, "horospheres_all_dimensions", functions=[H + "Horosphere.sphere_parameters", H + "HorosphereArc.circle_parameters"],
         note="horospheres in dimension 2..4, both conformal models, composite shapes; horosphere arcs in the plane")
def horospheres_all_dimensions(tier, rng, rep):
    N = 200 if tier == 'thorough' else 50
    rep.rule = "random ideal centres and interior reference points, n=2..4, shapes (), (3,); the reported sphere passes through the reference point and is tangent to the boundary at the centre; non-trivial = n >= 3"
    rep.bound = f"{N} rounds x 2 models"
    for t in range(N):
        n = int(rng.integers(2, 5))
        shape = [(), (3,)][t % 2]
        xi = rng.normal(size=shape + (n,)); xi /= np.linalg.norm(xi, axis=-1, keepdims=True)
        p = rng.normal(size=shape + (n,)); p = p / np.linalg.norm(p, axis=-1, keepdims=True) * rng.uniform(0.05, 0.9, size=shape + (1,))
        Hs = h.Horosphere(h.IdealPoint(np.concatenate([np.ones(shape + (1,)), xi], axis=-1)), h.Point(p.copy(), model="klein"))
        for model in ("poincare", "halfspace"):
            inp = {"n": n, "ideal_centre": xi.tolist(), "reference_klein": p.tolist(), "model": model}

            def body():
                c, r = Hs.sphere_parameters(model=model)
                # reference point and ideal centre in the model, by the closed-form chart maps (not by the library's own conversion)
                ref = spec.k2p(p) if model == "poincare" else spec.p2h(spec.k2p(p))
                with np.errstate(all='ignore'):
                    ctr = xi if model == "poincare" else spec.p2h(xi)
                if not np.all(np.abs(h.Point(p.copy(), model="klein").coords(model) - ref) <= 1e-7 * (1 + np.abs(ref))):
                    rep.fail("horosphere_through_reference_point", "the reference point's own coordinates in the model differ from the chart formula", inp); return
                if model == "halfspace" and np.max(np.abs(ctr)) > 1e6:
                    return
                sc = 1 + np.abs(r)
                if np.max(np.abs(np.linalg.norm(ref - c, axis=-1) - r) / sc) > 1e-6:
                    rep.fail("horosphere_through_reference_point", f"|ref - c| = {np.linalg.norm(ref - c, axis=-1)}, r = {r}", inp); return
                if model == "poincare":
                    if not np.all(np.abs(c - xi * (1 - np.asarray(r)[..., None])) <= 1e-6):
                        rep.fail("horosphere_tangent_at_centre", "centre not on the ray to the ideal centre at distance 1 - r", inp); return
                else:
                    if np.max(np.abs(c[..., :-1] - ctr[..., :-1]) / sc[..., None] if np.ndim(sc) else np.abs(c[..., :-1] - ctr[..., :-1]) / sc) > 1e-6 or np.max(np.abs(c[..., -1] - r) / sc) > 1e-6:
                        rep.fail("horosphere_tangent_at_centre", "half-space: centre not above the ideal centre at height r", inp); return
            rep.attempt("horosphere_runs", inp, body)
            rep.case(key=(t, model), nontrivial=n >= 3, sample=inp if t == 0 else None)


@bounded(P, "composite_arrays_of_segments", functions=[H + "Subspace.sphere_parameters", H + "Segment.circle_parameters", H + "Geodesic.circle_parameters", "geometry_tools/utils/core.py:sphere_inversion",
                                                        "geometry_tools/utils/core.py:sphere_through"],
         note="segments and geodesics stored as composite arrays with one, two and three array axes (square, cubic and rectangular): entry [i, j, ...] of every reported parameter is the "
              "parameter of segment [i, j, ...], and passes through that segment's endpoints (closed-form chart maps)")
def composite_arrays_of_segments(tier, rng, rep):
    N = 10 if tier == 'thorough' else 2
    shapes = [(3,), (3, 3), (2, 2, 2), (2, 3), (1, 4), (4, 1)]
    rep.rule = "Segment and Geodesic arrays of shapes (3,), (3,3), (2,2,2), (2,3), (1,4), (4,1); n = 2, 3, 4; Poincare and half-space; sphere_parameters, and circle_parameters for n = 2 (radians and degrees)"
    rep.bound = f"{N} rounds x 6 shapes x 3 dimensions x 2 classes x 2 models"
    for t in range(N):
        for shape in shapes:
            for n in (2, 3, 4):
                d = rng.normal(size=shape + (2, n))
                k = d / np.linalg.norm(d, axis=-1, keepdims=True) * rng.uniform(0.1, 0.9, size=shape + (2, 1))
                for cls in ("Segment", "Geodesic"):
                    kk = k / np.linalg.norm(k, axis=-1, keepdims=True) if cls == "Geodesic" else k
                    for model in ("poincare", "halfspace"):
                        inp = {"class": cls, "shape": list(shape), "n": n, "model": model, "klein_endpoints": kk.tolist()}

                        def body():
                            mk = h.Segment if cls == "Segment" else h.Geodesic
                            S = mk(h.Point(spec.k2proj(kk)))
                            if S.shape != shape:
                                rep.fail("composite_shape", f"{S.shape}", inp); return
                            with np.errstate(all='ignore'):
                                c, r = S.sphere_parameters(model=model)
                                c, r = np.asarray(c, dtype=float), np.asarray(r, dtype=float)
                                if c.shape != shape + (n,) or r.shape != shape:
                                    rep.fail("parameter_shapes", f"centres {c.shape}, radii {r.shape} for {shape} segments in dimension {n}", inp); return
                                conv = (lambda q: spec.k2p(q)) if model == "poincare" else (lambda q: spec.p2h(spec.k2p(q)))
                                e = conv(kk)
                                for idx in np.ndindex(*shape):
                                    if not (np.all(np.isfinite(c[idx])) and np.isfinite(r[idx]) and r[idx] < 1e4 and np.all(np.isfinite(e[idx])) and np.max(np.abs(e[idx])) < 1e4):
                                        continue            # a (near-)diameter, or an endpoint at infinity of the half-space
                                    sc = 1 + r[idx] + np.max(np.abs(e[idx]))
                                    for j in (0, 1):
                                        if not abs(np.linalg.norm(e[idx][j] - c[idx]) - r[idx]) <= 1e-6 * sc * sc:
                                            rep.fail("sphere_through_endpoints", f"segment {idx}, endpoint {j}: |p - c| = {np.linalg.norm(e[idx][j] - c[idx])} but r = {r[idx]}", {**inp, "index": list(idx)}); return
                                    cu, ru = S[idx].sphere_parameters(model=model)
                                    if not (np.all(np.abs(np.asarray(cu, dtype=float).reshape(n) - c[idx]) <= 1e-7 * sc) and abs(float(np.asarray(ru).reshape(())) - r[idx]) <= 1e-7 * sc):
                                        rep.fail("entry_is_the_parameter_of_that_segment", f"segment {idx}", {**inp, "index": list(idx)}); return
                                if n == 2:
                                    for deg in (False, True):
                                        cc, rr, th = S.circle_parameters(model=model, degrees=deg)
                                        th = np.asarray(th, dtype=float)
                                        if th.shape != shape + (2,):
                                            rep.fail("parameter_shapes", f"angles {th.shape}", inp); return
                                        for idx in np.ndindex(*shape):
                                            cu, ru, tu = S[idx].circle_parameters(model=model, degrees=deg)
                                            tu = np.asarray(tu, dtype=float).reshape(2)
                                            if np.all(np.isfinite(tu)) and np.isfinite(r[idx]) and r[idx] < 1e4 and not np.all(np.abs(tu - th[idx]) <= 1e-6 * (57.3 if deg else 1)):
                                                rep.fail("entry_is_the_parameter_of_that_segment", f"angles of segment {idx}: {th[idx]} vs {tu}", {**inp, "index": list(idx), "degrees": deg}); return
                        rep.attempt("sphere_runs", inp, body)
                        rep.case(key=(t, shape, n, cls, model), nontrivial=len(shape) >= 2, sample=inp if (t, shape, n, cls, model) == (0, (3, 3), 2, "Segment", "poincare") else None)
                        if len(rep.failures) >= 3:
                            return


@bounded(P, "subspace_boundary_spheres", functions=[H + "Subspace.boundary_sphere_parameters", H + "Subspace.ideal_basis_coords", H + "Hyperplane.__init__", "geometry_tools/utils/core.py:sphere_through"],
         note="the sphere in the boundary R^(n-1) of the half-space model reported for a totally geodesic subspace (from k ideal points, or a hyperplane from its normal) contains the "
              "subspace's ideal points: the spanning points and further lightlike vectors in their span, mapped to the boundary by the closed-form chart maps")
def subspace_boundary_spheres(tier, rng, rep):
    N = 200 if tier == 'thorough' else 40
    rep.rule = "n = 2, 3, 4; hyperplane as Subspace from n random ideal points (arbitrary representatives), Hyperplane from a random spacelike normal; 6 further ideal points of the subspace each"
    rep.bound = f"{N} subspaces"

    def bdry(v):
        """boundary coordinates (half-space model, height dropped) of the ideal point with lightlike representative v"""
        k = v[1:] / v[0]
        hs = spec.p2h(k)             # an ideal point has equal Klein and Poincare coordinates
        return hs[:-1]
    for t in range(N):
        n = 2 + t % 3
        from_normal = t % 4 == 3
        if from_normal:
            while True:
                nv = rng.normal(size=n + 1)
                if spec.mink(nv, nv) > 0.2:
                    break
            S = h.Hyperplane(nv.copy())
            basis = np.asarray(S.ideal_basis, dtype=float) if hasattr(S, "ideal_basis") else None
            kdim = n
        else:
            kdim = n          # sphere_through needs n points in R^(n-1): the library computes boundary spheres of hyperplanes only and refuses the rest (GeometryError)
            ideal = rng.normal(size=(kdim, n)); ideal /= np.linalg.norm(ideal, axis=-1, keepdims=True)
            scale = 10 ** rng.uniform(-1, 1, size=(kdim, 1)) * rng.choice([-1, 1], size=(kdim, 1)) if t % 2 else np.ones((kdim, 1))
            basis = scale * np.concatenate([np.ones((kdim, 1)), ideal], axis=1)
            S = h.Subspace(h.IdealPoint(basis.copy()))
            nv = None
        inp = {"n": n, "from_normal": bool(from_normal), "normal": None if nv is None else nv.tolist(), "ideal_points": None if from_normal else basis.tolist()}

        def body():
            with np.errstate(all='ignore'):
                c, r = S.boundary_sphere_parameters()
            c, r = np.asarray(c, dtype=float).reshape(-1), float(np.asarray(r).reshape(()))
            if not (np.all(np.isfinite(c)) and np.isfinite(r)) or r > 1e4:
                return                   # the subspace passes through the half-space's point at infinity: its boundary is a plane
            # ideal points of the subspace, independently
            pts = []
            if from_normal:
                # lightlike vectors orthogonal to the normal: x = w + s e with w, e orthogonal to nv
                Jn = nv * np.array([-1.0] + [1.0] * n)
                for _ in range(8):
                    a_, b_ = rng.normal(size=n + 1), rng.normal(size=n + 1)
                    a_ = a_ - nv * (a_ @ Jn) / (nv @ Jn); b_ = b_ - nv * (b_ @ Jn) / (nv @ Jn)
                    A_, B_, C_ = spec.mink(b_, b_), 2 * spec.mink(a_, b_), spec.mink(a_, a_)
                    disc = B_ * B_ - 4 * A_ * C_
                    if disc > 1e-9 and abs(A_) > 1e-9:
                        pts.append(a_ + ((-B_ + np.sqrt(disc)) / (2 * A_)) * b_)
            else:
                pts = [b for b in basis]
                for _ in range(6):
                    a_, b_ = rng.normal(size=kdim) @ basis, rng.normal(size=kdim) @ basis
                    A_, B_, C_ = spec.mink(b_, b_), 2 * spec.mink(a_, b_), spec.mink(a_, a_)
                    disc = B_ * B_ - 4 * A_ * C_
                    if disc > 1e-9 and abs(A_) > 1e-9:
                        pts.append(a_ + ((-B_ + np.sqrt(disc)) / (2 * A_)) * b_)
            for v in pts:
                with np.errstate(all='ignore'):
                    bq = bdry(v)
                if not np.all(np.isfinite(bq)) or np.max(np.abs(bq)) > 1e3:
                    continue
                d = np.linalg.norm(bq - c)
                if not abs(d - r) <= 1e-5 * (1 + r + np.max(np.abs(bq))) ** 2:
                    rep.fail("boundary_sphere_contains_ideal_points", f"an ideal point of the subspace at distance {d} from the centre, radius {r}", {**inp, "ideal_point": np.asarray(v).tolist()}); return
        rep.attempt("subspace_sphere_runs", inp, body)
        rep.case(key=(t,), nontrivial=kdim >= 3, sample=inp if t == 1 else None)
        if len(rep.failures) >= 3:
            return


@bounded(P, "segments_after_shared_histories", functions=[H + "Segment.circle_parameters", H + "Subspace.sphere_parameters", H + "Segment._compute_aux_data", "geometry_tools/projective.py:ProjectiveObject.set",
                                                           "geometry_tools/projective.py:ProjectiveObject.__setitem__", "geometry_tools/projective.py:ProjectiveObject.flatten_to_unit"],
         note="the statement for every segment AS IT STANDS after histories involving other objects: a copy of it was item-assigned, a flattened view of it was item-assigned, the caller "
              "re-used the array it was built from; the reported circle / sphere passes through the segment's current endpoints and its ideal endpoints lie on the Klein line through them")
def segments_after_shared_histories(tier, rng, rep):
    N = 60 if tier == 'thorough' else 15
    rep.rule = "composites of 3 segments, n = 2, 3, 4; histories: copy then set item on the copy; flatten then set item on the flattened object; caller overwrites its own array after construction; both conformal models"
    rep.bound = f"{N} rounds x 3 histories x 2 models"

    def seg_msg(S, model):
        p = np.asarray(S.proj_data, dtype=float)
        kl = p[..., 1:] / p[..., :1]
        if np.any(np.sum(kl * kl, axis=-1) >= 1):
            return None
        ide = np.asarray(S.ideal_endpoint_coords("klein"), dtype=float)
        for idx in np.ndindex(*S.shape):
            a, b = kl[idx]
            for e in ide[idx]:
                if abs(e @ e - 1) > 1e-6:
                    return f"segment {idx}: an ideal endpoint is not on the unit sphere"
                if np.linalg.matrix_rank(np.stack([b - a, e - a]), tol=1e-6) > 1:
                    return f"segment {idx}: an ideal endpoint is not on the Klein line through the current endpoints"
        with np.errstate(all='ignore'):
            c, r = S.sphere_parameters(model=model)
        c, r = np.asarray(c, dtype=float), np.asarray(r, dtype=float)
        conv = (lambda q: spec.k2p(q)) if model == "poincare" else (lambda q: spec.p2h(spec.k2p(q)))
        e_ = conv(kl)
        for idx in np.ndindex(*S.shape):
            if not (np.all(np.isfinite(c[idx])) and np.isfinite(r[idx]) and r[idx] < 1e3):
                continue
            for j in (0, 1):
                if abs(np.linalg.norm(e_[idx][j] - c[idx]) - r[idx]) > 1e-6 * (1 + r[idx]) ** 2:
                    return f"segment {idx}: the reported sphere misses endpoint {j} (|p - c| = {np.linalg.norm(e_[idx][j] - c[idx])}, r = {r[idx]})"
        return None
    for t in range(N):
        n = 2 + t % 3
        def kl(shape):
            v = rng.normal(size=shape + (2, n))
            return v / np.linalg.norm(v, axis=-1, keepdims=True) * rng.uniform(0.1, 0.9, size=shape + (2, 1))
        base, other = spec.k2proj(kl((3,))), spec.k2proj(kl(()))
        for hist in ("copy_then_setitem", "flatten_then_setitem", "caller_reuses_its_array"):
            for model in ("poincare", "halfspace"):
                inp = {"n": n, "history": hist, "model": model, "segments": base.tolist(), "assigned": other.tolist()}

                def body():
                    buf = base.copy()
                    S = h.Segment(h.Point(buf)) if hist != "caller_reuses_its_array" else h.Segment(buf)
                    if hist == "copy_then_setitem":
                        Cp = h.Segment(S)
                        Cp[1] = h.Segment(h.Point(other.copy()))
                        objs = {"original": S, "copy": Cp}
                    elif hist == "flatten_then_setitem":
                        Fl = S.flatten_to_unit()
                        Fl[0] = h.Segment(h.Point(other.copy()))
                        objs = {"original": S, "flattened": Fl}
                    else:
                        buf[1] = other
                        buf[0, 0, 1:] *= 0.5
                        objs = {"segment": S}
                    for nm, o in objs.items():
                        msg = seg_msg(o, model)
                        if msg:
                            rep.fail("circle_describes_the_segment_as_it_stands", f"{nm} after {hist}: {msg}", inp); return
                rep.attempt("sphere_runs", inp, body)
                rep.case(key=(t, hist, model), nontrivial=True, sample=inp if (t, hist, model) == (0, "copy_then_setitem", "poincare") else None)
                if len(rep.failures) >= 3:
                    return


@bounded(P, "geodesic_of_a_segment", functions=[H + "Segment.geodesic", H + "Geodesic.circle_parameters", H + "Subspace.sphere_parameters", H + "Segment._compute_aux_data"],
         note="the bi-infinite geodesic obtained from a segment (Segment.geodesic()): its endpoints are lightlike and lie on the Klein line through the segment's endpoints; its circle / sphere "
              "is the segment's, passes through the segment's endpoints and meets the boundary at right angles; its arc contains the segment's arc")
def geodesic_of_a_segment(tier, rng, rep):
    N = 120 if tier == 'thorough' else 30
    rep.rule = "n = 2, 3, 4; segments between interior points, from an interior to an ideal point, between ideal points; arbitrary representatives; single and composite (3,); both conformal models"
    rep.bound = f"{N} segments x 2 models"
    for t in range(N):
        n = 2 + t % 3
        shape = () if t % 2 else (3,)
        d_ = rng.normal(size=shape + (2, n))
        rad = rng.uniform(0.1, 0.9, size=shape + (2, 1))
        if t % 5 == 1:
            rad[..., 1, :] = 1.0
        if t % 5 == 2:
            rad[...] = 1.0
        k = d_ / np.linalg.norm(d_, axis=-1, keepdims=True) * rad
        sc = rng.choice([1.0, -2.0, 0.5], size=shape + (2, 1))
        data = sc * spec.k2proj(k)
        J = spec.J(n + 1)
        for model in ("poincare", "halfspace"):
            inp = {"n": n, "shape": list(shape), "model": model, "segment_data": data.tolist()}

            def body():
                S = h.Segment(h.Point(data.copy()))
                G = S.geodesic()
                e = np.asarray(G.proj_data, dtype=float)
                if e.shape != data.shape:
                    rep.fail("geodesic_endpoints", f"shape {e.shape}", inp); return
                q = np.einsum('...i,ij,...j->...', e, J, e) / np.einsum('...i,...i->...', e, e)
                if not np.all(np.abs(q) <= 1e-7):
                    rep.fail("ideal_endpoints_lightlike", f"<e, e> / |e|^2 = {np.asarray(q).tolist()}", inp); return
                for idx in np.ndindex(*shape):
                    if np.linalg.matrix_rank(np.concatenate([data[idx], e[idx]]), tol=1e-7) > 2:
                        rep.fail("ideal_endpoints_on_the_line_through_the_endpoints", f"segment {idx}", inp); return
                with np.errstate(all='ignore'):
                    cg, rg = G.sphere_parameters(model=model)
                    cs, rs = S.sphere_parameters(model=model)
                cg, rg, cs, rs = (np.asarray(x_, dtype=float) for x_ in (cg, rg, cs, rs))
                conv = (lambda q_: spec.k2p(q_)) if model == "poincare" else (lambda q_: spec.p2h(spec.k2p(q_)))
                with np.errstate(all='ignore'):
                    em = conv(k)
                for idx in np.ndindex(*shape):
                    if not (np.all(np.isfinite(cg[idx])) and np.isfinite(rg[idx]) and rg[idx] < 1e3 and np.all(np.isfinite(em[idx])) and np.max(np.abs(em[idx])) < 1e3):
                        continue
                    scl = (1 + rg[idx]) ** 2
                    if not (np.all(np.abs(cg[idx] - cs[idx]) <= 1e-6 * scl) and abs(rg[idx] - rs[idx]) <= 1e-6 * scl):
                        rep.fail("geodesic_circle_is_the_segment_circle", f"segment {idx}: geodesic centre {cg[idx].tolist()} radius {rg[idx]}, segment centre {cs[idx].tolist()} radius {rs[idx]}", inp); return
                    for j in (0, 1):
                        if abs(np.linalg.norm(em[idx][j] - cg[idx]) - rg[idx]) > 1e-6 * scl:
                            rep.fail("sphere_through_endpoints", f"segment {idx}: the geodesic's sphere misses endpoint {j} of the segment", inp); return
                    orth = (cg[idx] @ cg[idx] - 1 - rg[idx] ** 2) if model == "poincare" else cg[idx][-1]
                    if abs(orth) > 1e-5 * scl:
                        rep.fail("sphere_orthogonal_to_boundary", f"segment {idx}: {orth}", inp); return
            rep.attempt("sphere_runs", inp, body)
            rep.case(key=(t, model), nontrivial=True, sample=inp if (t, model) == (0, "poincare") else None)
            if len(rep.failures) >= 3:
                return


@bounded(P, "images_of_segments_under_arrays_of_isometries", functions=["geometry_tools/projective.py:Transformation.apply", H + "Segment._compute_aux_data", H + "Subspace.sphere_parameters", H + "Segment.ideal_endpoint_coords"],
         note="the statement for the segments obtained by applying k isometries to m segments elementwise, pairwise and pairwise_reversed (k = m and k != m): for every image segment the ideal "
              "endpoints are lightlike and on the Klein line through ITS endpoints, and the reported sphere passes through its endpoints")
def images_of_segments_under_arrays_of_isometries(tier, rng, rep):
    N = 40 if tier == 'thorough' else 10
    rep.rule = "n = 2, 3, 4; k, m in {1, 2, 3}; broadcast elementwise (k = m), pairwise, pairwise_reversed; random interior endpoints; conjugated rotations / loxodromics; both conformal models"
    rep.bound = f"{N} rounds x 3 broadcast rules"
    for t in range(N):
        n = 2 + t % 3
        k, m = [(2, 2), (3, 2), (2, 3), (3, 3), (1, 3)][t % 5]
        J = spec.J(n + 1)
        d_ = rng.normal(size=(m, 2, n))
        kl = d_ / np.linalg.norm(d_, axis=-1, keepdims=True) * rng.uniform(0.1, 0.85, size=(m, 2, 1))
        isos = []
        for _ in range(k):
            C = h.Point((lambda w: w / np.linalg.norm(w) * rng.uniform(0.1, 0.7))(rng.normal(size=n)), model="klein").origin_to()
            isos.append(np.asarray((C @ h.Isometry.standard_rotation(rng.uniform(0, 6), dimension=n) @ h.Isometry.standard_loxodromic(n, rng.uniform(0.6, 1.8))).proj_data, dtype=float))
        Mi = np.array(isos)
        for mode in ("elementwise", "pairwise", "pairwise_reversed"):
            if mode == "elementwise" and k != m:
                continue
            inp = {"n": n, "isometries": k, "segments": m, "broadcast": mode, "klein_endpoints": kl.tolist()}

            def body():
                S = h.Segment(h.Point(kl.copy(), model="klein"))
                T = h.Isometry(Mi.copy())
                Im = T.apply(S, broadcast=mode)
                want_shape = {"elementwise": (m,), "pairwise": (m, k), "pairwise_reversed": (k, m)}[mode]
                if Im.shape != want_shape:
                    rep.fail("composite_shape", f"{Im.shape} expected {want_shape}", inp); return
                p = np.asarray(Im.proj_data, dtype=float)
                ide = np.asarray(Im.ideal_endpoint_coords("klein"), dtype=float)
                if ide.shape[:-2] != want_shape:
                    rep.fail("ideal_endpoints_shape", f"ideal endpoints of shape {ide.shape} for image segments of shape {want_shape}", inp); return
                kk_ = p[..., 1:] / p[..., :1]
                for model in ("poincare", "halfspace"):
                    with np.errstate(all='ignore'):
                        c, r = Im.sphere_parameters(model=model)
                    c, r = np.asarray(c, dtype=float), np.asarray(r, dtype=float)
                    conv = (lambda q_: spec.k2p(q_)) if model == "poincare" else (lambda q_: spec.p2h(spec.k2p(q_)))
                    with np.errstate(all='ignore'):
                        em = conv(kk_)
                    for idx in np.ndindex(*want_shape):
                        a_, b_ = kk_[idx]
                        for e in ide[idx]:
                            if abs(e @ e - 1) > 1e-6 or np.linalg.matrix_rank(np.stack([b_ - a_, e - a_]), tol=1e-6) > 1:
                                rep.fail("ideal_endpoints_on_the_line_through_the_endpoints", f"image segment {idx} ({mode})", inp); return
                        if np.all(np.isfinite(c[idx])) and np.isfinite(r[idx]) and r[idx] < 1e3 and np.all(np.isfinite(em[idx])) and np.max(np.abs(em[idx])) < 1e3:
                            for j in (0, 1):
                                if abs(np.linalg.norm(em[idx][j] - c[idx]) - r[idx]) > 1e-6 * (1 + r[idx]) ** 2:
                                    rep.fail("sphere_through_endpoints", f"image segment {idx} ({mode}, {model})", inp); return
            rep.attempt("sphere_runs", inp, body)
            rep.case(key=(t, mode), nontrivial=mode != "elementwise", sample=inp if (t, mode) == (0, "pairwise_reversed") else None)
            if len(rep.failures) >= 3:
                return
