"""Engine P contracts for the mutators of FSA (C09): the representation invariant Inv(F) of DESIGN.md appendix A.4 is
preserved, and the effect on the abstract edge set is the set-based model's."""
import z3
from vf.pcontract import pcontract, Spec
from vf import pyvc
from vf.pyvc import Atom, Loc, Mat, I, B, VAtom, VInt, VBool, VWord, VOpt, VNone, VObj, VDict, VTuple, VFunc, VOpaque, VMat, Outcome, Refuse, fresh, heap_loop

FSA_PY = "geometry_tools/automata/fsa.py"
LIST_D = ('ddlist', 'atom', 'list')
OUT_T = ('dict', 'atom', ('dictref', LIST_D))
IN_T = ('dddict', 'atom', ('dictref', ('dyn', 'atom', 'list')))
GRAPH_T = ('dict', 'atom', ('dictref', ('dict', 'atom', 'atom')))


class FSAVocab(Spec):
    timeout = 20.0

    def __init__(self):
        super().__init__()
        self.out, self.inn, self.graph = z3.Consts("out_loc in_loc graph_loc", Loc)

    def fsa_obj(self):
        return VObj({"_out_dict": VDict(self.out, OUT_T), "_in_dict": VDict(self.inn, IN_T), "_graph_dict": VDict(self.graph, GRAPH_T)}, "FSA")

    # views --------------------------------------------------------------------------------------------
    def V(self, st, v): return st.heap["present"][self.out][v]
    def og(self, st, v): return st.heap["valL"][self.out][v]
    def ig(self, st, w): return st.heap["valL"][self.inn][w]
    def gg(self, st, v): return st.heap["valL"][self.graph][v]
    def outP(self, st, v, w): return st.heap["present"][self.og(st, v)][w]
    def inP(self, st, w, v): return z3.And(st.heap["present"][self.inn][w], st.heap["present"][self.ig(st, w)][v])
    def ol(self, st, v, w): return st.heap["valL"][self.og(st, v)][w]
    def il(self, st, w, v): return st.heap["valL"][self.ig(st, w)][v]
    def outC(self, st, v, w, l): return st.heap["cnt"][self.ol(st, v, w)][l]
    def inC(self, st, w, v, l): return st.heap["cnt"][self.il(st, w, v)][l]
    def Gdef(self, st, v, l): return z3.And(st.heap["present"][self.graph][v], st.heap["present"][self.gg(st, v)][l])
    def Gval(self, st, v, l): return st.heap["valA"][self.gg(st, v)][l]

    def inv(self, st):
        """Inv(F): the three views describe the same labelled edges on the same vertex set, no label twice, plain label
        view, and the objects involved are pairwise distinct (separation)"""
        v, w, v2, w2 = z3.Consts("v_ w_ v2_ w2_", Atom)
        l = z3.Const("l_", Atom)
        P, K, AL = st.heap["present"], st.heap["kind"], st.heap["alloc"]
        out, inn, graph = self.out, self.inn, self.graph
        c = []
        c.append(z3.And(K[out] == 0, K[graph] == 0, K[inn] == 2, AL[out], AL[inn], AL[graph], z3.Distinct(out, inn, graph)))
        c.append(z3.ForAll([v], P[graph][v] == P[out][v]))
        c.append(z3.ForAll([v], z3.Implies(P[inn][v], P[out][v])))
        # kinds and allocation of the inner objects
        c.append(z3.ForAll([v], z3.Implies(P[out][v], z3.And(K[self.og(st, v)] == 1, K[self.gg(st, v)] == 0, AL[self.og(st, v)], AL[self.gg(st, v)]))))
        c.append(z3.ForAll([v], z3.Implies(P[inn][v], z3.And(AL[self.ig(st, v)], z3.Or(K[self.ig(st, v)] == 0, K[self.ig(st, v)] == 1)))))
        # label view <-> outgoing view
        c.append(z3.ForAll([v, w, l], z3.Implies(z3.And(self.V(st, v), self.outP(st, v, w), self.outC(st, v, w, l) >= 1),
                                                 z3.And(self.Gdef(st, v, l), self.Gval(st, v, l) == w))))
        c.append(z3.ForAll([v, l], z3.Implies(self.Gdef(st, v, l),
                                              z3.And(self.outP(st, v, self.Gval(st, v, l)), self.outC(st, v, self.Gval(st, v, l), l) >= 1))))
        c.append(z3.ForAll([v, w, l], z3.Implies(z3.And(self.V(st, v), self.outP(st, v, w)), z3.And(self.outC(st, v, w, l) >= 0, self.outC(st, v, w, l) <= 1))))
        # outgoing view <-> incoming view, targets are vertices
        c.append(z3.ForAll([v, w], z3.Implies(z3.And(self.V(st, v), self.outP(st, v, w)), z3.And(self.V(st, w), self.inP(st, w, v)))))
        c.append(z3.ForAll([v, w], z3.Implies(self.inP(st, w, v), z3.And(self.V(st, v), self.outP(st, v, w)))))
        c.append(z3.ForAll([v, w, l], z3.Implies(z3.And(self.V(st, v), self.outP(st, v, w)), self.inC(st, w, v, l) == self.outC(st, v, w, l))))
        c.append(z3.ForAll([v, w], z3.Implies(z3.And(self.V(st, v), self.outP(st, v, w)), z3.And(AL[self.ol(st, v, w)], AL[self.il(st, w, v)]))))
        # separation: inner dictionaries and label lists are pairwise distinct objects
        top = [out, inn, graph]
        c.append(z3.ForAll([v, v2], z3.Implies(z3.And(P[out][v], P[out][v2]),
                                               z3.And(z3.Implies(v != v2, z3.And(self.og(st, v) != self.og(st, v2), self.gg(st, v) != self.gg(st, v2))),
                                                      self.og(st, v) != self.gg(st, v2),
                                                      *[z3.And(self.og(st, v) != t, self.gg(st, v) != t) for t in top]))))
        c.append(z3.ForAll([v, v2], z3.Implies(z3.And(P[inn][v], P[inn][v2]),
                                               z3.And(z3.Implies(v != v2, self.ig(st, v) != self.ig(st, v2)),
                                                      *[self.ig(st, v) != t for t in top]))))
        c.append(z3.ForAll([v, v2], z3.Implies(z3.And(P[inn][v], P[out][v2]), z3.And(self.ig(st, v) != self.og(st, v2), self.ig(st, v) != self.gg(st, v2)))))
        c.append(z3.ForAll([v, w, v2, w2], z3.Implies(z3.And(self.V(st, v), self.outP(st, v, w), self.V(st, v2), self.outP(st, v2, w2)),
                                                      z3.And(z3.Implies(z3.Or(v != v2, w != w2), z3.And(self.ol(st, v, w) != self.ol(st, v2, w2), self.il(st, w, v) != self.il(st, w2, v2))),
                                                             self.ol(st, v, w) != self.il(st, w2, v2)))))
        return z3.And(*c)

    def same_edges(self, s1, s0):
        v, l = z3.Consts("v_ l_", Atom)
        return z3.ForAll([v, l], z3.And(self.Gdef(s1, v, l) == self.Gdef(s0, v, l), z3.Implies(self.Gdef(s0, v, l), self.Gval(s1, v, l) == self.Gval(s0, v, l))))


@pcontract("C09", "add_vertices", FSA_PY, "FSA.add_vertices")
class AddVertices(FSAVocab):
    """requires Inv; ensures Inv, the vertex set grows exactly by the given vertices, the labelled edges are unchanged"""

    def setup(self, ip, st, fd):
        self.vs = VWord(z3.Const("vs", z3.ArraySort(I, Atom)), z3.Int("nvs"))
        st.env.update({"self": self.fsa_obj(), "vertices": self.vs})
        self.axioms = []

        def inv(ip_, s, g, entry):
            return z3.And(self.inv(s), self.effect(s, entry, g.i))
        self.loops = {0: heap_loop(inv, ["v"])}
        return {}

    def effect(self, s, s0, upto):
        v, k = z3.Const("v_", Atom), z3.Int("k_")
        return z3.And(
            z3.ForAll([v], z3.Implies(self.V(s0, v), self.V(s, v))),
            z3.ForAll([v], z3.Implies(self.V(s, v), z3.Or(self.V(s0, v), z3.Exists([k], z3.And(k >= 0, k < upto, self.vs.arr[k] == v))))),
            z3.ForAll([k], z3.Implies(z3.And(k >= 0, k < upto), self.V(s, self.vs.arr[k]))),
            self.same_edges(s, s0))

    def requires(self, ip, st, ctx):
        return [self.vs.n >= 0, self.inv(st)]

    def post(self, ip, o, st0, ctx):
        if o.kind == 'return' and isinstance(o.value, VNone):
            return [("invariant_preserved", self.inv(o.state)), ("vertex_set_and_edges_as_in_the_set_model", self.effect(o.state, st0, self.vs.n))]
        return [("no_exception", z3.BoolVal(False))]


from vf.pyvc import VRecords, VMSet, havoc_heap


class AddEdgesBase(FSAVocab):
    elist = False
    timeout = 30.0

    def setup(self, ip, st, fd):
        AI = z3.ArraySort(I, Atom)
        self.tails, self.heads = z3.Const("tails", AI), z3.Const("heads", AI)
        self.n = z3.Int("nedges")
        if self.elist:
            self.labels = z3.Const("labelsets", z3.ArraySort(I, z3.ArraySort(Atom, I)))
            cols = [('atom', self.tails), ('atom', self.heads), ('mset', self.labels)]
        else:
            self.labels = z3.Const("labels", AI)
            cols = [('atom', self.tails), ('atom', self.heads), ('atom', self.labels)]
        st.env.update({"self": self.fsa_obj(), "edges": VRecords(cols, self.n), "elist": VBool(z3.BoolVal(self.elist)),
                       "ignore_redundant": VBool(z3.BoolVal(True))})
        self.axioms = []

        def add_vertices(ip_, s, base, args, kwargs, line):
            # callee contract (AddVertices): requires Inv; ensures Inv, V' = V u {given}, edges unchanged
            vs = args[0]
            if not isinstance(vs, VTuple):
                raise Refuse("add_vertices argument")
            ip_.oblige(f"callee_precondition_add_vertices@{line}", s, self.inv(s), line)
            old = s.fork()
            havoc_heap(s, "av")
            v = z3.Const("v_", Atom)
            given = lambda x: z3.Or(*[x == ip_.as_atom(a, line) for a in vs.items])
            s.pc.append(self.inv(s))
            s.pc.append(z3.ForAll([v], self.V(s, v) == z3.Or(self.V(old, v), given(v))))
            s.pc.append(self.same_edges(s, old))
            return [('val', s, VNone())]
        self.callees = {"FSA.add_vertices": add_vertices}
        self.loops = {0: heap_loop(lambda ip_, s, g, entry: z3.And(self.inv(s), self.effect(s, entry, g.i)), ["e", "tail", "head", "label", "l"])}
        if self.elist:
            # inner loop `for l in label:` over the (filtered) label list: handled by its own invariant
            self.loops[1] = self.inner_loop()
        return {}

    def new_edge(self, k, v, l):
        if self.elist:
            return z3.And(self.tails[k] == v, self.labels[k][l] >= 1)
        return z3.And(self.tails[k] == v, self.labels[k] == l)

    def effect(self, s, s0, upto):
        """set model: Edges = Edges_0 u {edges[k] : k < upto}; vertices = V_0 u endpoints"""
        v, l, k = z3.Const("v_", Atom), z3.Const("l_", Atom), z3.Int("k_")
        rng = lambda kk: z3.And(kk >= 0, kk < upto)
        return z3.And(
            z3.ForAll([v, l], self.Gdef(s, v, l) == z3.Or(self.Gdef(s0, v, l), z3.Exists([k], z3.And(rng(k), self.new_edge(k, v, l))))),
            z3.ForAll([v, l], z3.Implies(self.Gdef(s0, v, l), self.Gval(s, v, l) == self.Gval(s0, v, l))),
            z3.ForAll([k, l], z3.Implies(z3.And(rng(k), self.new_edge(k, self.tails[k], l)), self.Gval(s, self.tails[k], l) == self.heads[k])),
            z3.ForAll([v], z3.Implies(self.V(s0, v), self.V(s, v))),
            z3.ForAll([v], z3.Implies(self.V(s, v), z3.Or(self.V(s0, v), z3.Exists([k], z3.And(rng(k), z3.Or(self.tails[k] == v, self.heads[k] == v)))))),
            z3.ForAll([k], z3.Implies(rng(k), z3.And(self.V(s, self.tails[k]), self.V(s, self.heads[k])))))

    def requires(self, ip, st, ctx):
        k, k2, l = z3.Int("k_"), z3.Int("k2_"), z3.Const("l_", Atom)
        rng = lambda kk: z3.And(kk >= 0, kk < self.n)
        det = [
            # the class's own contract (module docstring): adding the edges keeps the automaton deterministic
            z3.ForAll([k, l], z3.Implies(z3.And(rng(k), self.new_edge(k, self.tails[k], l), self.Gdef(st, self.tails[k], l)), self.Gval(st, self.tails[k], l) == self.heads[k])),
            z3.ForAll([k, k2, l], z3.Implies(z3.And(rng(k), rng(k2), self.new_edge(k, self.tails[k], l), self.new_edge(k2, self.tails[k], l)), self.heads[k] == self.heads[k2])),
        ]
        if self.elist:
            det.append(z3.ForAll([k, l], z3.Implies(rng(k), z3.And(self.labels[k][l] >= 0, self.labels[k][l] <= 1))))    # no label twice within one list
        return [self.n >= 0, self.inv(st)] + det

    def post(self, ip, o, st0, ctx):
        if o.kind == 'return' and isinstance(o.value, VNone):
            return [("invariant_preserved", self.inv(o.state)), ("edges_and_vertices_as_in_the_set_model", self.effect(o.state, st0, self.n))]
        return [("no_exception", z3.BoolVal(False))]


@pcontract("C09", "add_edges_single_labels", FSA_PY, "FSA.add_edges")
class AddEdgesSingle(AddEdgesBase):
    """add_edges(edges) with one label per edge (elist=False, ignore_redundant=True): requires Inv and that the new edges keep
    the automaton deterministic; ensures Inv and Edges' = Edges u new (set model)"""
    elist = False

    def list_comprehension(self, ip, n, st):
        raise Refuse("list comprehension unreachable for elist=False")

    def setup(self, ip, st, fd):
        r = super().setup(ip, st, fd)
        # the elist branch is dead code for this instance; its inner loop never runs
        self.loops[1] = lambda ip_, n, s, it, ordinal: (_ for _ in ()).throw(Refuse("inner loop reached with elist=False"))
        return r


@pcontract("C09", "build_in_dict", FSA_PY, "FSA._build_in_dict")
class BuildInDict(FSAVocab):
    """given a well-formed outgoing view, the incoming view built from it mirrors it entry by entry with FRESH label lists
    (no list object is shared between the views, nor between two entries)"""
    timeout = 30.0

    def out_wf(self, st):
        """well-formedness of the outgoing view alone"""
        v, w, v2, w2 = z3.Consts("v_ w_ v2_ w2_", Atom)
        P, K, AL = st.heap["present"], st.heap["kind"], st.heap["alloc"]
        out = self.out
        return z3.And(
            K[out] == 0, AL[out],
            z3.ForAll([v], z3.Implies(P[out][v], z3.And(AL[self.og(st, v)], self.og(st, v) != out))),
            z3.ForAll([v, v2], z3.Implies(z3.And(P[out][v], P[out][v2], v != v2), self.og(st, v) != self.og(st, v2))),
            z3.ForAll([v, w], z3.Implies(z3.And(self.V(st, v), self.outP(st, v, w)), z3.And(AL[self.ol(st, v, w)], self.ol(st, v, w) != out))),
            z3.ForAll([v, w, v2], z3.Implies(z3.And(self.V(st, v), self.outP(st, v, w), P[out][v2]), self.ol(st, v, w) != self.og(st, v2))),
            z3.ForAll([v, w, v2, w2], z3.Implies(z3.And(self.V(st, v), self.outP(st, v, w), self.V(st, v2), self.outP(st, v2, w2), z3.Or(v != v2, w != w2)),
                                                 self.ol(st, v, w) != self.ol(st, v2, w2))))

    def setup(self, ip, st, fd):
        obj = VObj({"_out_dict": VDict(self.out, OUT_T)}, "FSA")
        st.env.update({"self": obj})
        self.var_kinds = {"in_dict": ('dddict', 'atom', ('dictref', ('dict', 'atom', 'list')))}
        self.axioms = []
        self.ind = None

        def mirror(s, entry, indloc, cond):
            """for all (v, w) with cond(v, w): in[w][v] is present, is a fresh list equal (as a multiset) to out[v][w]"""
            v, w, l, v2, w2 = z3.Consts("v_ w_ l_ v2_ w2_", Atom)
            P, Lm, C, AL = s.heap["present"], s.heap["valL"], s.heap["cnt"], s.heap["alloc"]
            ig = lambda x: Lm[indloc][x]
            il = lambda x, y: Lm[ig(x)][y]
            inP = lambda x, y: z3.And(P[indloc][x], P[ig(x)][y])
            ent = lambda x, y: z3.And(self.V(entry, x), self.outP(entry, x, y))
            return z3.And(
                z3.ForAll([v, w], z3.Implies(z3.And(ent(v, w), cond(v, w)), inP(w, v))),
                z3.ForAll([v, w, l], z3.Implies(z3.And(ent(v, w), cond(v, w)), C[il(w, v)][l] == self.outC(entry, v, w, l))),
                z3.ForAll([v, w], z3.Implies(inP(w, v), z3.And(ent(v, w), cond(v, w)))),
                # freshness / separation of the new lists and inner dicts
                z3.ForAll([v, w], z3.Implies(inP(w, v), z3.And(z3.Not(entry.heap["alloc"][il(w, v)]), AL[il(w, v)]))),
                z3.ForAll([w], z3.Implies(P[indloc][w], z3.And(z3.Not(entry.heap["alloc"][ig(w)]), AL[ig(w)], s.heap["kind"][ig(w)] == 0))),
                z3.ForAll([w, w2], z3.Implies(z3.And(P[indloc][w], P[indloc][w2], w != w2), ig(w) != ig(w2))),
                z3.ForAll([v, w, v2, w2], z3.Implies(z3.And(inP(w, v), inP(w2, v2), z3.Or(v != v2, w != w2)), il(w, v) != il(w2, v2))),
                z3.ForAll([v, w, w2], z3.Implies(z3.And(inP(w, v), P[indloc][w2]), il(w, v) != ig(w2))),
                z3.Not(entry.heap["alloc"][indloc]), AL[indloc], s.heap["kind"][indloc] == 2,
                z3.ForAll([w], z3.Implies(P[indloc][w], ig(w) != indloc)),
                z3.ForAll([v, w], z3.Implies(inP(w, v), il(w, v) != indloc)))
        self.mirror = mirror

        def frame(s, entry):
            """objects allocated at entry are untouched"""
            x = z3.Const("x_", Loc)
            return z3.And(*[z3.ForAll([x], z3.Implies(entry.heap["alloc"][x], s.heap[f][x] == entry.heap[f][x])) for f in ("present", "valA", "valL", "cnt", "kind")],
                          z3.ForAll([x], z3.Implies(entry.heap["alloc"][x], s.heap["alloc"][x])))
        self.frame = frame

        def outer_inv(ip_, s, g, entry):
            ind = s.env["in_dict"].loc
            return z3.And(frame(s, self.entry0), mirror(s, self.entry0, ind, lambda v, w: g.done[v]))

        def inner_inv(ip_, s, g, entry):
            ind = s.env["in_dict"].loc
            g0, _ = s.ghost[0]
            vcur = s.env["v"].t
            return z3.And(frame(s, self.entry0), mirror(s, self.entry0, ind, lambda v, w: z3.Or(g0.done[v], z3.And(v == vcur, g.done[w]))),
                          s.env["neighbors_out"].loc == self.og(self.entry0, vcur), g0.snap[vcur], z3.Not(g0.done[vcur]))
        self.loops = {0: heap_loop(outer_inv, ["v", "neighbors_out", "w", "labels"]), 1: heap_loop(inner_inv, ["w", "labels"])}
        return {}

    def requires(self, ip, st, ctx):
        self.entry0 = st.fork()
        return [self.out_wf(st)]

    def post(self, ip, o, st0, ctx):
        if o.kind == 'return' and isinstance(o.value, VNone):
            obj = o.state.env["self"]
            ind = obj.fields.get("_in_dict")
            if not isinstance(ind, VDict):
                return [("in_dict_assigned", z3.BoolVal(False))]
            return [("incoming_view_mirrors_outgoing_view_with_fresh_lists", self.mirror(o.state, self.entry0, ind.loc, lambda v, w: z3.BoolVal(True))),
                    ("outgoing_view_untouched", self.frame(o.state, self.entry0))]
        return [("no_exception", z3.BoolVal(False))]
