"""C19 - what is drawn is the object: paths pass through the vertices along geodesics (DESIGN.md section 3, C19).

matplotlib's Path.arc / Arc / collections are externals whose internals no contract here reaches; what they do with the
arc data is checked only by the labelled bounded stand-in, on real artists created on an Agg canvas.  The arc data itself
(the centre, radius and pair of angles that draw_geodesic / get_polygon_arcpath pass to Arc / Path.arc) is under an
Engine R contract: the circle arc they describe starts and ends at the segment's two endpoints.  Assumed contract of the
externals: Arc(c, 2r, 2r, theta1, theta2) and Path.arc(theta1, theta2) scaled by r and translated by c trace the circle
|x - c| = r from c + r e^{i theta1} to c + r e^{i theta2}."""
import os
os.environ.setdefault("MPLBACKEND", "Agg")
import numpy as np
from vf.api import bounded, rcontract
from geometry_tools import hyperbolic as h
from contracts import spec

P = "C19"
D = "geometry_tools/drawtools.py:"
F_ALL = [D + "HyperbolicDrawing.preprocess_object", D + "ProjectiveDrawing.preprocess_object", D + "HyperbolicDrawing.get_circle_arcpath", D + "HyperbolicDrawing.get_straight_arcpath",
         D + "HyperbolicDrawing.get_polygon_arcpath", D + "HyperbolicDrawing.draw_polygon", D + "HyperbolicDrawing.get_vertical_segment", D + "HyperbolicDrawing.draw_geodesic",
         D + "HyperbolicDrawing.draw_point", D + "HyperbolicDrawing.draw_horosphere", D + "HyperbolicDrawing.draw_horoarc", D + "ProjectiveDrawing.draw_point",
         D + "ProjectiveDrawing.draw_proj_segment", D + "ProjectiveDrawing.draw_polygon"]

HY = "geometry_tools/hyperbolic.py:"
UC = "geometry_tools/utils/core.py:"


@rcontract(P, "arc_data_ends_at_the_endpoints", instances=[dict(model="halfspace")], thorough=[dict(model="poincare")], timeout=240.0, max_paths=80,
           functions=[HY + "Segment.circle_parameters", HY + "Subspace.sphere_parameters", HY + "PointPair.endpoint_coords", UC + "circle_angles", UC + "short_arc",
                      UC + "right_to_left", D + "HyperbolicDrawing.draw_geodesic", D + "HyperbolicDrawing.get_polygon_arcpath"])
def arc_data_ends_at_the_endpoints(ctx, model):
    """the (centre, radius, angles) triple that draw_geodesic hands to Arc and get_polygon_arcpath hands to get_circle_arcpath:
    the two arc ends c + r (cos th_i, sin th_i) are the two endpoints of the segment (in either order: the angles are reported
    counterclockwise; stated through the symmetric functions sum / product per coordinate and the mixed sum x0 y0 + x1 y1).  Preconditions: distinct interior endpoints; Poincare: geodesic not through the
    origin; half-space: the Klein line misses the half-space point at infinity e_0 (otherwise the straight substitute is drawn)."""
    n = 2
    k = ctx.reals('k', (n,), lambda r: r.uniform(-0.55, 0.55, n))
    l = ctx.reals('l', (n,), lambda r: r.uniform(-0.55, 0.55, n))
    ctx.assume(spec.nsq(k), '<', 1)
    ctx.assume(spec.nsq(l), '<', 1)
    ctx.assume(spec.nsq(k - l), '>', 0)
    if model == "poincare":
        cr = k[0] * l[1] - k[1] * l[0]
    else:
        cr = (k[0] - 1) * l[1] - k[1] * (l[0] - 1)
    ctx.assume(cr * cr, '>', 0)
    S = h.Segment(h.Point(np.array(k, copy=True), model="klein"), h.Point(np.array(l, copy=True), model="klein"))
    c, r, th = S.circle_parameters(model=model, degrees=False)
    ends = S.endpoint_coords(model)
    scale = 1 + spec.nsq(c) + r * r
    arc_end = [np.array([c[0] + r * np.cos(th[i]), c[1] + r * np.sin(th[i])], dtype=object) for i in range(2)]
    # order-independent (the angles are reported counterclockwise, so either arc end may be either endpoint)
    u = [np.array([np.cos(th[i]), np.sin(th[i])], dtype=object) for i in range(2)]
    cross = lambda a_, b_: a_[0] * b_[1] - a_[1] * b_[0]
    E, F = ends[0] - c, ends[1] - c
    for i in range(2):
        ctx.ensure_eq(f'arc_end{i}_points_at_an_endpoint', cross(u[i], E) * cross(u[i], F) / (scale * scale), 0, tol=1e-6)
    ctx.ensure('radius_positive', r, '>', 0)


def _k2model(k, model):
    return spec.from_klein(np.asarray(k, dtype=float), model)


def _cosh_d(model, a, b):
    return {"poincare": spec.cosh_d_poincare, "halfspace": spec.cosh_d_halfspace, "klein": spec.cosh_d_klein}[model](a, b)


def _on_segment(model, q, a, b, tol=2e-3):
    """q (model coordinates) lies on the hyperbolic segment [a,b]: d(a,q) + d(q,b) = d(a,b)"""
    with np.errstate(all='ignore'):
        dab = np.arccosh(max(_cosh_d(model, a, b), 1.0))
        daq = np.arccosh(max(_cosh_d(model, a, q), 1.0))
        dqb = np.arccosh(max(_cosh_d(model, q, b), 1.0))
    return np.isfinite(daq + dqb) and abs(daq + dqb - dab) <= tol * (1 + dab)


def _edge_radius(model, a, b):
    """Euclidean radius of the circle carrying the hyperbolic geodesic through a, b (inf for a straight line)"""
    with np.errstate(all='ignore'):
        if model == "halfspace":
            if abs(b[0] - a[0]) < 1e-12:
                return np.inf
            cx = (b @ b - a @ a) / (2 * (b[0] - a[0]))
            return float(np.hypot(a[0] - cx, a[1]))
        A = np.array([2 * a, 2 * b]); rhs = np.array([a @ a + 1, b @ b + 1])
        if abs(np.linalg.det(A)) < 1e-14:
            return np.inf
        c = np.linalg.solve(A, rhs)
        return float(np.sqrt(max(c @ c - 1, 0)))


def _on_chord(q, a, b, tol):
    """q within tol of the Euclidean segment [a, b]"""
    d = b - a
    L2 = d @ d
    s = 0.0 if L2 == 0 else min(1.0, max(0.0, (q - a) @ d / L2))
    return np.linalg.norm(q - (a + s * d)) <= tol


def _inside(model, q, eps=1e-7):
    return (q @ q < 1 + eps) if model in ("poincare", "klein") else (q[-1] > -eps)


@bounded(P, "hyperbolic_artists", functions=F_ALL, note="polygons with 3..8 vertices (convex or not, vertices at / edges through the origin, nearly straight arcs), segments, points, horospheres; "
                                                        "models Poincare / half-plane / Klein; drawing transforms; real matplotlib artists on an Agg canvas")
def hyperbolic_artists(tier, rng, rep):
    import matplotlib
    matplotlib.use("Agg")
    import matplotlib.pyplot as plt
    from matplotlib.patches import PathPatch, Arc
    from matplotlib.collections import PolyCollection, LineCollection
    from geometry_tools import hyperbolic as h, drawtools, projective as pr
    from geometry_tools.base import GeometryError
    N = 60 if tier == 'thorough' else 14
    rep.rule = ("random polygons with 3..8 vertices in the disc of Klein radius 0.9 (every 4th: a vertex at the origin; every 5th: an edge through the origin; every 6th: nearly collinear vertices, "
                "arc radius above the threshold), three models, identity and random drawing transforms; the closed path is flattened and every sample must lie on an edge of the transformed polygon "
                "and the vertices must be visited in order; segments: Arc centre / radius / angles vs the geodesic through the endpoints; non-trivial = special position or non-identity transform")
    rep.bound = f"{N} rounds x 3 models x 3 transforms (none, an isometry M, the same isometry as -M)"
    for t in range(N):
        m = int(rng.integers(3, 9))
        ang = np.sort(rng.uniform(0, 2 * np.pi, m))
        rad = rng.uniform(0.2, 0.9, m)
        if t % 3 == 1:
            rad = rad * rng.uniform(0.3, 1.0, m)         # non-convex
        k = np.stack([rad * np.cos(ang), rad * np.sin(ang)], axis=-1)
        special = None
        if t % 4 == 0:
            k[0] = 0.0; special = "vertex_at_origin"
        elif t % 5 == 0:
            k[1] = -k[0] * rng.uniform(0.3, 1.0); special = "edge_through_origin"
        elif t % 6 == 0:
            k[1] = (k[0] + k[2]) / 2 + 1e-4 * rng.normal(size=2); special = "nearly_straight"
        elif t % 7 in (1, 3):
            # an edge lying EXACTLY on a diameter (axis-aligned, dyadic coordinates): radial or through the origin, first edge or not
            e0, e1 = (np.array([0.25, 0.0]), np.array([0.75, 0.0])) if t % 7 == 1 else (np.array([0.0, -0.5]), np.array([0.0, 0.5]))
            j0 = 0 if t % 2 else 1
            k[j0], k[(j0 + 1) % m] = e0, e1
            special = "edge_exactly_on_a_diameter"
        for model in ("poincare", "halfspace", "klein"):
            for use_tf in (False, True, "negated"):
                if use_tf:
                    v = rng.normal(size=2); v = v / np.linalg.norm(v) * rng.uniform(0.1, 0.7)
                    T = h.Point(v, model="klein").origin_to() @ h.Isometry.standard_rotation(rng.uniform(-3, 3))
                    if use_tf == "negated":         # the same isometry given by the matrix -M (images get negative time coordinates)
                        T = h.Isometry(-T.proj_data)
                else:
                    T = None
                inp = {"klein_vertices": k.tolist(), "model": model, "transform": None if T is None else T.proj_data.tolist(), "special": special}

                def body():
                    fig, ax = plt.subplots(figsize=(3, 3))
                    try:
                        dr = drawtools.HyperbolicDrawing(model=model, fig=fig, ax=ax, transform=T)
                        poly = h.Polygon(h.Point(k.copy(), model="klein"))
                        if use_tf == "negated" or (t % 2 and not use_tf):
                            # vertices given by arbitrary homogeneous representatives (either sign, any scale)
                            sg = rng.choice([-1.0, 1.0], size=(m, 1)) * 10.0 ** rng.uniform(-1, 1, size=(m, 1))
                            poly = h.Polygon(h.Point(sg * spec.k2proj(k)))
                        n0 = len(ax.patches) + len(ax.collections)
                        dr.draw_polygon(poly)
                        kt = ((T @ h.Point(k.copy(), model="klein")) if T is not None else h.Point(k.copy(), model="klein")).coords("klein")
                        vm = _k2model(kt, model)
                        if len(ax.patches) + len(ax.collections) != n0 + 1:
                            rep.fail("one_artist_added", f"{len(ax.patches) + len(ax.collections) - n0} artists", inp); return
                        if model == "klein":
                            col = ax.collections[-1]
                            if not isinstance(col, PolyCollection):
                                rep.fail("klein_polygon_artist", type(col).__name__, inp); return
                            pv = col.get_paths()[0].vertices
                            if not np.all(np.abs(pv[:m] - kt) <= 1e-9):
                                rep.fail("klein_polygon_at_model_coordinates", "", inp); return
                        else:
                            patch = ax.patches[-1]
                            if not isinstance(patch, PathPatch):
                                rep.fail("polygon_artist_is_a_path", type(patch).__name__, inp); return
                            path = patch.get_path()
                            polys = path.to_polygons(closed_only=False)
                            if len(polys) != 1:
                                rep.fail("one_continuous_path", f"{len(polys)} pieces", inp); return
                            pts = polys[0]
                            if model == "halfspace" and (np.max(np.abs(vm)) > 50):
                                return "skip"
                            scale = 1 + np.max(np.abs(vm))
                            # half-plane: an edge whose circle exceeds the radius threshold is deliberately drawn as the vertical segment at
                            # one endpoint's abscissa; when that is the closing edge the path ends at the start vertex's height but at the
                            # other abscissa (within the documented straight-segment approximation)
                            gap_ok = 1e-3 * scale
                            if model == "halfspace" and not (_edge_radius(model, vm[-1], vm[0]) < drawtools.RADIUS_THRESHOLD):
                                gap_ok += abs(vm[-1][0] - vm[0][0])
                            if not (np.linalg.norm(pts[0] - pts[-1]) <= gap_ok):
                                rep.fail("path_is_closed", f"{pts[0]} vs {pts[-1]}", inp); return
                            # visits the vertices in order (cyclically, either orientation)
                            idx = [int(np.argmin(np.linalg.norm(pts - v_, axis=1))) for v_ in vm]
                            if max(np.linalg.norm(pts[i] - v_) for i, v_ in zip(idx, vm)) > 1e-3 * scale:
                                rep.fail("passes_through_the_vertices", "", inp); return
                            j0 = idx.index(min(idx))
                            rot = idx[j0:] + idx[:j0]
                            if not (all(rot[i] <= rot[i + 1] for i in range(m - 1)) or all(rot[i] >= rot[i + 1] for i in range(1, m - 1))):
                                rep.fail("vertices_in_order", f"{idx}", inp); return
                            # every sampled point lies on an edge, inside the model
                            for q in pts[:: max(1, len(pts) // 120)]:
                                if not _inside(model, q):
                                    rep.fail("path_inside_model", f"{q}", inp); return
                                if not any(_on_segment(model, q, vm[i], vm[(i + 1) % m]) for i in range(m)):
                                    # the deliberate straight-segment substitute for arcs above the radius threshold
                                    big = [i for i in range(m) if not (_edge_radius(model, vm[i], vm[(i + 1) % m]) < drawtools.RADIUS_THRESHOLD)]
                                    def near_substitute(i):
                                        a_, b_ = vm[i], vm[(i + 1) % m]
                                        if _on_chord(q, a_, b_, 1e-6 * scale):
                                            return True
                                        # half-plane: the substitute is the vertical segment at one endpoint's abscissa
                                        lo, hi = np.minimum(a_, b_) - 1e-6 * scale, np.maximum(a_, b_) + 1e-6 * scale
                                        return model == "halfspace" and bool(np.all(q >= lo) and np.all(q <= hi))
                                    if not any(near_substitute(i) for i in big):
                                        rep.fail("path_points_on_hyperbolic_edges", f"sample {q} is on no edge", inp); return
                        # points
                        dr.draw_point(h.Point(k[1].copy(), model="klein"))
                        line = ax.lines[-1]
                        xy = np.array(line.get_xydata())[0]
                        if not np.all(np.abs(xy - vm[1]) <= 1e-9 * (1 + np.max(np.abs(vm[1])))):
                            rep.fail("point_at_model_coordinates", f"{xy} vs {vm[1]}", inp); return
                        # a segment / geodesic arc
                        if model != "klein":
                            seg = h.Segment(h.Point(k[1].copy(), model="klein"), h.Point(k[2].copy(), model="klein"))
                            npat = len(ax.patches)
                            dr.draw_geodesic(seg)
                            if len(ax.patches) != npat + 1:
                                rep.fail("one_artist_added", "geodesic", inp); return
                            art = ax.patches[-1]
                            a_, b_ = vm[1], vm[2]
                            if isinstance(art, Arc):
                                c = np.array(art.center); r = art.width / 2
                                if not (abs(art.width - art.height) <= 1e-12) or not (abs(np.linalg.norm(a_ - c) - r) <= 1e-6 * (1 + r)) or not (abs(np.linalg.norm(b_ - c) - r) <= 1e-6 * (1 + r)):
                                    rep.fail("arc_through_endpoints", f"centre {c} radius {r}", inp); return
                                orth = (c @ c - 1 - r * r) if model == "poincare" else c[1]
                                # half-plane: the centre's height is the mean height of the computed ideal endpoints, which are
                                # sqrt(|1 - |k|^2|)-conditioned at the boundary (1e-8 .. 2e-5 in float64), amplified by the chart
                                tol_o = 1e-6 * (1 + r * r) + (5e-5 * (1 + abs(c[0]) + r) if model == "halfspace" else 0.0)
                                if not (abs(orth) <= tol_o):
                                    rep.fail("arc_orthogonal_to_boundary", f"{orth}", inp); return
                                t1, t2 = np.deg2rad(art.theta1), np.deg2rad(art.theta2)
                                if t2 < t1:
                                    t2 += 2 * np.pi
                                for s in np.linspace(0, 1, 7):
                                    q = c + r * np.array([np.cos(t1 + s * (t2 - t1)), np.sin(t1 + s * (t2 - t1))])
                                    if not _on_segment(model, q, a_, b_, tol=1e-4):
                                        rep.fail("arc_angular_extent", f"point at parameter {s} not on the segment", inp); return
                            elif isinstance(art, PathPatch):
                                pv = art.get_path().vertices
                                sc_ = 1 + max(np.max(np.abs(a_)), np.max(np.abs(b_)))
                                lo, hi = np.minimum(a_, b_) - 1e-6 * sc_, np.maximum(a_, b_) + 1e-6 * sc_
                                for q in pv:
                                    ok_ = _on_chord(q, a_, b_, 1e-6 * sc_) or (model == "halfspace" and bool(np.all(q >= lo) and np.all(q <= hi)))
                                    if np.all(np.isfinite(q)) and not ok_:
                                        rep.fail("straight_substitute_on_segment", f"{q}", inp); return
                                if not (_edge_radius(model, a_, b_) > drawtools.RADIUS_THRESHOLD or not np.isfinite(_edge_radius(model, a_, b_))):
                                    rep.fail("straight_substitute_only_above_threshold", f"radius {_edge_radius(model, a_, b_)}", inp); return
                            else:
                                rep.fail("geodesic_artist", type(art).__name__, inp); return
                    finally:
                        plt.close(fig)
                res = rep.attempt("drawing_runs", inp, body)
                rep.case(key=(t, model, use_tf), nontrivial=bool(special) or use_tf, sample={k_: inp[k_] for k_ in ("model", "special")} if t == 0 else None)
                if len(rep.failures) >= 3:
                    return
    # wrong dimension is rejected
    for cls, kw in ((drawtools.HyperbolicDrawing, {"model": "poincare"}), (drawtools.ProjectiveDrawing, {})):
        fig, ax = plt.subplots(figsize=(2, 2))
        try:
            dr = cls(fig=fig, ax=ax, **kw)
            obj = h.Point([0.1, 0.2, 0.3], model="klein") if cls is drawtools.HyperbolicDrawing else pr.Point([1., 0.1, 0.2, 0.3])
            try:
                dr.draw_point(obj)
                rep.fail("wrong_dimension_rejected", cls.__name__, {"class": cls.__name__})
            except GeometryError:
                pass
            except Exception as e:
                rep.fail("wrong_dimension_rejected", f"{cls.__name__}: {type(e).__name__} instead of GeometryError", {"class": cls.__name__})
        finally:
            plt.close(fig)
        rep.case(key=("dim", cls.__name__))


@bounded(P, "halfplane_point_at_infinity", functions=F_ALL + ["geometry_tools/hyperbolic.py:poincare_to_halfspace"],
         note="half-plane drawings of objects with a vertex / endpoint exactly at the model's point at infinity: edges to infinity are vertical rays")
def halfplane_point_at_infinity(tier, rng, rep):
    import matplotlib
    matplotlib.use("Agg")
    import matplotlib.pyplot as plt
    from matplotlib.patches import PathPatch
    from geometry_tools import hyperbolic as h, drawtools
    N = 40 if tier == 'thorough' else 10
    rep.rule = ("half-plane model, identity transform: polygons with one vertex at the ideal point (1,1,0) = infinity and 2..4 further interior / ideal vertices; geodesics and segments "
                "from infinity to an ideal / interior point; every path point must lie on the geodesic between consecutive finite vertices or, for the two edges to infinity, on the "
                "vertical line above the adjacent vertex, and the path must leave the view at the top on both of them")
    rep.bound = f"{N} rounds"
    inf = np.array([1.0, 1.0, 0.0])

    def hs(x):      # half-plane coordinates of a finite point given in projective coordinates
        return np.asarray(h.Point(np.array(x, dtype=float)).coords("halfspace"), dtype=float)

    def flat(patch):
        polys = patch.get_path().to_polygons(closed_only=False)
        return polys

    def on_finite_edge(q, a, b, tol):
        if abs(a[0] - b[0]) < 1e-12:
            return abs(q[0] - a[0]) <= tol and min(a[1], b[1]) - tol <= q[1] <= max(a[1], b[1]) + tol
        c = (b @ b - a @ a) / (2 * (b[0] - a[0]))
        r = np.hypot(a[0] - c, a[1])
        # the flattened Bezier approximation of the arc is coarse (a few chords per arc): 3% of the radius
        return abs(np.hypot(q[0] - c, q[1]) - r) <= 3e-2 * r + tol and min(a[0], b[0]) - tol <= q[0] <= max(a[0], b[0]) + tol

    for t in range(N):
        m = int(rng.integers(2, 5))
        ang = np.sort(rng.uniform(0.6, 2 * np.pi - 0.6, m))          # directions away from angle 0 (= infinity)
        rad = np.where(rng.random(m) < 0.4, 1.0, rng.uniform(0.3, 0.9, m))       # some ideal vertices
        fin = np.stack([np.ones(m), rad * np.cos(ang), rad * np.sin(ang)], axis=-1)
        V = np.concatenate([inf[None], fin], axis=0)
        inp = {"projective_vertices": V.tolist()}

        def body():
            fig, ax = plt.subplots(figsize=(3, 3))
            try:
                # default view, or a view the caller chose (wider and taller than the default: "off-screen" must follow the view in use)
                view = {} if t % 2 == 0 else {"xlim": (-25.0, 25.0), "ylim": (-1.0, 40.0)}
                dr = drawtools.HyperbolicDrawing(model="halfspace", fig=fig, ax=ax, **view)
                top = ax.get_ylim()[1]
                if view and abs(top - 40.0) > 1e-9:
                    rep.fail("view_limits", f"ylim {ax.get_ylim()}", inp); return
                vf = np.array([hs(x) for x in fin])
                n0 = len(ax.patches)
                dr.draw_polygon(h.Polygon(h.Point(V.copy())))
                if len(ax.patches) != n0 + 1 or not isinstance(ax.patches[-1], PathPatch):
                    rep.fail("polygon_artist_is_a_path", f"{len(ax.patches) - n0} patches", inp); return
                polys = flat(ax.patches[-1])
                if len(polys) != 1:
                    rep.fail("one_continuous_path", f"{len(polys)} pieces", inp); return
                pts = polys[0]
                tol = 2e-3 * (1 + np.max(np.abs(vf)))
                for q in pts:
                    ok = any(on_finite_edge(q, vf[i], vf[i + 1], tol) for i in range(m - 1))
                    ok = ok or any(abs(q[0] - v_[0]) <= tol and q[1] >= v_[1] - tol for v_ in (vf[0], vf[-1]))
                    if not ok:
                        rep.fail("path_points_on_edges", f"path point {q.tolist()} is on no edge (finite vertices {vf.tolist()})", inp); return
                for v_ in (vf[0], vf[-1]):
                    if not any(abs(q[0] - v_[0]) <= tol and q[1] >= top for q in pts):
                        rep.fail("edge_to_infinity_is_a_vertical_ray", f"no path point above the view on x = {v_[0]}", inp); return
                for v_ in vf:
                    if not (np.min(np.linalg.norm(pts - v_, axis=1)) <= tol):
                        rep.fail("visits_vertices", f"{v_.tolist()}", inp); return
                # geodesic / segment from infinity to the first finite vertex
                for kind in ("geodesic", "segment"):
                    tgt = fin[0] if kind == "segment" or rad[0] == 1.0 else np.array([1.0, np.cos(ang[0]), np.sin(ang[0])])
                    obj = h.Segment(h.Point(inf.copy()), h.Point(tgt.copy())) if kind == "segment" else h.Geodesic(h.IdealPoint(inf.copy()), h.IdealPoint(tgt.copy()))
                    n1 = len(ax.patches)
                    dr.draw_geodesic(obj)
                    new = ax.patches[n1:]
                    if len(new) != 1 or not isinstance(new[0], PathPatch):
                        rep.fail("geodesic_to_infinity_is_a_vertical_line", f"{[type(a).__name__ for a in new]}", {**inp, "kind": kind}); return
                    w = hs(tgt)
                    gp = np.concatenate(flat(new[0]), axis=0)
                    if not np.all(np.abs(gp[:, 0] - w[0]) <= tol) or not np.any(gp[:, 1] >= top) or not (np.min(gp[:, 1]) <= w[1] + tol) or np.any(gp[:, 1] < w[1] - tol):
                        rep.fail("geodesic_to_infinity_is_a_vertical_line", f"{kind}: path {gp.tolist()} vs the vertical ray above {w.tolist()}", {**inp, "kind": kind}); return
            finally:
                plt.close(fig)
        rep.attempt("drawing_runs", inp, body)
        rep.case(key=(t,), nontrivial=True, sample=inp if t == 0 else None)
        if len(rep.failures) >= 3:
            return


@bounded(P, "projective_artists", functions=F_ALL, note="projective points, segments, polygons in every affine chart after the drawing transform")
def projective_artists(tier, rng, rep):
    import matplotlib
    matplotlib.use("Agg")
    import matplotlib.pyplot as plt
    from geometry_tools import drawtools, projective as pr
    N = 30 if tier == 'thorough' else 8
    rep.rule = "random projective polygons (3..6 vertices, composite shape (2,)) with all chart coordinates positive, charts 0..2, random invertible drawing transforms close to the identity"
    rep.bound = f"{N} rounds x 3 charts"
    for t in range(N):
        m = int(rng.integers(3, 7))
        X = rng.uniform(0.5, 2.0, size=(2, m, 3))
        M = np.eye(3) + 0.1 * rng.normal(size=(3, 3))
        for chart in range(3):
            inp = {"vertices": X.tolist(), "chart": chart, "transform": M.tolist()}

            def body():
                fig, ax = plt.subplots(figsize=(2, 2))
                try:
                    dr = drawtools.ProjectiveDrawing(transform=pr.Transformation(M.copy()), chart_index=chart, fig=fig, ax=ax)
                    dr.draw_polygon(pr.Polygon(X.copy()))
                    Y = X @ M
                    want = np.delete(Y / Y[..., chart:chart + 1], chart, axis=-1)
                    paths = ax.collections[-1].get_paths()
                    if len(paths) != 2:
                        rep.fail("one_path_per_polygon", f"{len(paths)}", inp); return
                    for i in range(2):
                        if not np.all(np.abs(paths[i].vertices[:m] - want[i]) <= 1e-9 * (1 + np.max(np.abs(want)))):
                            rep.fail("projective_polygon_at_chart_coordinates", f"polygon {i}", inp); return
                    dr.draw_point(pr.Point(X[0].copy()))
                    xy = np.array(ax.lines[-1].get_xydata())
                    if not np.all(np.abs(xy - want[0]) <= 1e-9 * (1 + np.max(np.abs(want)))):
                        rep.fail("projective_points_at_chart_coordinates", "", inp); return
                    dr.draw_proj_segment(pr.PointPair(X[0, 0].copy(), X[0, 1].copy()))
                    sv = ax.collections[-1].get_segments()[0]
                    if not np.all(np.abs(np.array(sv) - want[0, :2]) <= 1e-9 * (1 + np.max(np.abs(want)))):
                        rep.fail("projective_segment_at_chart_coordinates", "", inp); return
                finally:
                    plt.close(fig)
            rep.attempt("drawing_runs", inp, body)
            rep.case(key=(t, chart), nontrivial=True, sample={"chart": chart} if t == 0 else None)


@bounded(P, "horosphere_artists", functions=[D + "HyperbolicDrawing.draw_horosphere", D + "HyperbolicDrawing.preprocess_object", "geometry_tools/hyperbolic.py:Horosphere.sphere_parameters"],
         note="single horospheres and composites of them (mixed: ordinary circles, and in the half-plane horospheres centred at the model's point at infinity, in every position of the array): "
              "each circle artist is tangent to the boundary at the horosphere's centre and passes through its reference point; a horosphere centred at infinity is the region above the "
              "horizontal line through ITS reference point")
def horosphere_artists(tier, rng, rep):
    import matplotlib
    matplotlib.use("Agg")
    import matplotlib.pyplot as plt
    from matplotlib.collections import EllipseCollection
    from matplotlib.patches import Rectangle
    from geometry_tools import hyperbolic as h, drawtools
    N = 60 if tier == 'thorough' else 12
    rep.rule = "Poincare disk and half-plane; composites of 1..5 horospheres, random ideal centres and interior reference points; in the half-plane a random subset is centred at infinity (angle 0)"
    rep.bound = f"{N} composites x 2 models"
    for t in range(N):
        k = int(rng.integers(1, 6))
        ang = rng.uniform(0.5, 2 * np.pi - 0.5, k)
        for model in ("poincare", "halfspace"):
            a = ang.copy()
            at_inf = np.zeros(k, dtype=bool)
            if model == "halfspace" and t % 3 != 2:
                at_inf = rng.random(k) < 0.4
                if t % 3 == 1 and k >= 2:
                    at_inf[0], at_inf[-1] = False, True          # an ordinary horosphere first, one centred at infinity last
                a[at_inf] = 0.0
            kp = rng.normal(size=(k, 2)); kp = kp / np.linalg.norm(kp, axis=-1, keepdims=True) * rng.uniform(0.05, 0.8, size=(k, 1))
            inp = {"model": model, "centre_angles": a.tolist(), "reference_klein": kp.tolist()}

            def body():
                fig, ax = plt.subplots(figsize=(3, 3))
                try:
                    dr = drawtools.HyperbolicDrawing(model=model, fig=fig, ax=ax)
                    H = h.Horosphere(h.IdealPoint.from_angle(a.copy()), h.Point(kp.copy(), model="klein"))
                    if k == 1 and t % 2:
                        H = H[0]
                    nc, npatch = len(ax.collections), len(ax.patches)
                    dr.draw_horosphere(H)
                    circles = []
                    for c in ax.collections[nc:]:
                        if not isinstance(c, EllipseCollection):
                            rep.fail("horosphere_artist_kind", type(c).__name__, inp); return
                        off = np.asarray(c.get_offsets(), dtype=float)
                        wd, ht = 2 * np.asarray(c._widths, dtype=float), 2 * np.asarray(c._heights, dtype=float)
                        if not np.all(np.abs(wd - ht) <= 1e-12):
                            rep.fail("horosphere_is_a_circle", "width != height", inp); return
                        circles += [(o, w_ / 2) for o, w_ in zip(off, wd)]
                    rects = [p_ for p_ in ax.patches[npatch:] if isinstance(p_, Rectangle)]
                    pm = spec.from_klein(kp, model)                     # reference points in the model
                    xi = np.stack([np.cos(a), np.sin(a)], axis=-1)
                    want_c, want_r = [], []
                    for j in range(k):
                        if at_inf[j]:
                            continue
                        if model == "poincare":
                            r_ = (1 - 2 * pm[j] @ xi[j] + pm[j] @ pm[j]) / (2 * (1 - pm[j] @ xi[j]))
                            want_c.append((1 - r_) * xi[j]); want_r.append(r_)
                        else:
                            x0 = spec.p2h(xi[j])[0]
                            r_ = ((pm[j][0] - x0) ** 2 + pm[j][1] ** 2) / (2 * pm[j][1])
                            want_c.append(np.array([x0, r_])); want_r.append(r_)
                    if len(circles) != len(want_c):
                        rep.fail("one_circle_per_horosphere", f"{len(circles)} circles drawn for {len(want_c)} horospheres with a finite centre", inp); return
                    for (o, r_), wc, wr in zip(circles, want_c, want_r):
                        if wr > 50:
                            continue
                        if not (np.all(np.abs(o - wc) <= 1e-6 * (1 + wr)) and abs(r_ - wr) <= 1e-6 * (1 + wr)):
                            rep.fail("horosphere_circle_geometry", f"drawn circle centre {o.tolist()} radius {r_}; the horosphere is the circle centre {wc.tolist()} radius {wr}", inp); return
                    heights = sorted(float(pm[j][1]) for j in range(k) if at_inf[j])
                    got_h = sorted(float(p_.get_y()) for p_ in rects)
                    if len(got_h) != len(heights) or not np.all(np.abs(np.array(got_h) - np.array(heights)) <= 1e-7 * (1 + np.array(heights))):
                        rep.fail("horosphere_at_infinity_is_a_horizontal_line_through_its_reference_point", f"lines drawn at heights {got_h}; reference points at heights {heights}", inp); return
                    top = ax.get_ylim()[1]
                    for p_ in rects:
                        if p_.get_y() + p_.get_height() < top or p_.get_x() > ax.get_xlim()[0] or p_.get_x() + p_.get_width() < ax.get_xlim()[1]:
                            rep.fail("horosphere_at_infinity_fills_the_view_above_the_line", f"rectangle {p_.get_xy()} {p_.get_width()} x {p_.get_height()}", inp); return
                finally:
                    plt.close(fig)
            rep.attempt("drawing_runs", inp, body)
            rep.case(key=(t, model), nontrivial=bool(at_inf.any()) and not bool(at_inf.all()), sample=inp if (t, model) == (1, "halfspace") else None)
            if len(rep.failures) >= 3:
                return


@bounded(P, "arcs_across_the_branch_cut", functions=[D + "HyperbolicDrawing.draw_geodesic", D + "HyperbolicDrawing.draw_polygon", D + "HyperbolicDrawing.get_circle_arcpath", "geometry_tools/utils/core.py:short_arc",
                                                      "geometry_tools/utils/core.py:right_to_left", "geometry_tools/utils/core.py:circle_angles"],
         note="segments whose endpoint angles, seen from the centre of their circle, straddle the +-pi branch cut of arctan2 in either order (chords crossing a ray from the origin, given "
              "top-to-bottom and bottom-to-top, in all four quadrant rotations), and clockwise / counter-clockwise triangles built on them: every sampled point of the drawn arc / path is on the segment")
def arcs_across_the_branch_cut(tier, rng, rep):
    import matplotlib
    matplotlib.use("Agg")
    import matplotlib.pyplot as plt
    from matplotlib.patches import Arc, PathPatch
    from geometry_tools import hyperbolic as h, drawtools
    N = 200 if tier == 'thorough' else 50
    rep.rule = "Poincare disk and half-plane; chord through (x, +-y) rotated by 0, 90, 180, 270 degrees and by a random angle; x in [0.3, 0.9], y in [0.05, 0.4]; both endpoint orders; triangles with a third vertex near the origin in both orientations"
    rep.bound = f"{N} chords x 2 orders x 2 models"
    fig, ax = plt.subplots(figsize=(3, 3))
    try:
        drs = {m: drawtools.HyperbolicDrawing(model=m, fig=fig, ax=ax) for m in ("poincare", "halfspace")}
        for t in range(N):
            x, y1, y2 = rng.uniform(0.3, 0.9), rng.uniform(0.05, 0.4), rng.uniform(0.05, 0.4)
            while x * x + max(y1, y2) ** 2 >= 0.98:
                x *= 0.9
            phi = [0.0, np.pi / 2, np.pi, 3 * np.pi / 2, float(rng.uniform(0, 2 * np.pi))][t % 5]
            Rm = np.array([[np.cos(phi), -np.sin(phi)], [np.sin(phi), np.cos(phi)]])
            top, bot = Rm @ np.array([x, y1]), Rm @ np.array([x, -y2])
            for order in ("top_to_bottom", "bottom_to_top"):
                ka, kb = (top, bot) if order == "top_to_bottom" else (bot, top)
                for model, dr in drs.items():
                    inp = {"model": model, "klein_a": ka.tolist(), "klein_b": kb.tolist(), "order": order}
                    a_, b_ = spec.from_klein(ka, model), spec.from_klein(kb, model)

                    def body():
                        npat = len(ax.patches)
                        dr.draw_geodesic(h.Segment(h.Point(ka.copy(), model="klein"), h.Point(kb.copy(), model="klein")))
                        new = ax.patches[npat:]
                        if len(new) != 1:
                            rep.fail("one_artist_added", f"{len(new)}", inp); return
                        art = new[0]
                        if isinstance(art, Arc):
                            c = np.array(art.center); r = art.width / 2
                            t1, t2 = np.deg2rad(art.theta1), np.deg2rad(art.theta2)
                            if t2 < t1:
                                t2 += 2 * np.pi
                            for s in np.linspace(0, 1, 9):
                                q = c + r * np.array([np.cos(t1 + s * (t2 - t1)), np.sin(t1 + s * (t2 - t1))])
                                if not _on_segment(model, q, a_, b_, tol=1e-4):
                                    rep.fail("arc_angular_extent", f"the drawn arc (centre {c.tolist()}, radius {r}, {art.theta1:.2f}..{art.theta2:.2f} degrees) leaves the segment at parameter {s:.3f}", inp); return
                        # a triangle on this chord, third vertex near the origin, in this orientation
                        kc = -0.1 * (ka + kb)
                        npat = len(ax.patches)
                        dr.draw_polygon(h.Polygon(h.Point(np.array([ka, kb, kc]), model="klein")))
                        pp = [p_ for p_ in ax.patches[npat:] if isinstance(p_, PathPatch)]
                        if len(pp) != 1:
                            rep.fail("polygon_artist_is_a_path", f"{len(pp)}", inp); return
                        vm = [a_, b_, spec.from_klein(kc, model)]
                        for poly_ in pp[0].get_path().to_polygons(closed_only=False):
                            for q in poly_:
                                # (the flattened Bezier approximation of an arc is coarse: a few chords per arc)
                                if not any(_on_segment(model, q, vm[i], vm[(i + 1) % 3], tol=5e-2) for i in range(3)) and _inside(model, q):
                                    rep.fail("path_points_on_edges", f"polygon path point {q.tolist()} lies on no edge", inp); return
                                if not _inside(model, q, eps=-1e-6):
                                    rep.fail("path_points_on_edges", f"polygon path point {q.tolist()} lies outside the model", inp); return
                        for p_ in ax.patches[:]:
                            p_.remove()
                    rep.attempt("drawing_runs", inp, body)
                    rep.case(key=(t, order, model), nontrivial=True, sample=inp if (t, order, model) == (0, "top_to_bottom", "poincare") else None)
                    if len(rep.failures) >= 3:
                        return
    finally:
        plt.close(fig)


@bounded(P, "transform_histories", functions=[D + "Drawing.set_transform", D + "Drawing.add_transform", D + "Drawing.precompose_transform", D + "HyperbolicDrawing.draw_point", D + "ProjectiveDrawing.draw_point",
                                               D + "HyperbolicDrawing.draw_polygon", D + "ProjectiveDrawing.draw_polygon"],
         note="the drawing's transform after a history of constructor transform / set_transform / add_transform (a further map applied AFTER the current one) / precompose_transform (a map applied "
              "BEFORE the current one): points and Klein / projective polygon vertices are placed at the model coordinates of the object moved by the maps in that order")
def transform_histories(tier, rng, rep):
    import matplotlib
    matplotlib.use("Agg")
    import matplotlib.pyplot as plt
    from geometry_tools import hyperbolic as h, drawtools, projective as pr
    N = 40 if tier == 'thorough' else 10
    rep.rule = "histories of 2..4 steps from {constructor, set, add, precompose} with non-commuting isometries (rotation, loxodromic conjugates) / projective maps; hyperbolic drawings in 3 models, projective drawings in charts 0..2"
    rep.bound = f"{N} histories x (3 models + 3 charts)"

    def iso():
        C = h.Point((lambda w: w / np.linalg.norm(w) * rng.uniform(0.2, 0.7))(rng.normal(size=2)), model="klein").origin_to()
        return C @ h.Isometry.standard_rotation(rng.uniform(0.5, 2.5)) @ h.Isometry.standard_loxodromic(2, rng.uniform(1.3, 2.5))
    for t in range(N):
        steps = [str(rng.choice(["add", "precompose", "set"])) for _ in range(int(rng.integers(1, 4)))]
        if t % 2 == 0:
            steps[-1] = "add"
        k = rng.normal(size=(4, 2)); k = k / np.linalg.norm(k, axis=-1, keepdims=True) * rng.uniform(0.1, 0.8, size=(4, 1))
        for kind in ("poincare", "halfspace", "klein", "chart0", "chart1", "chart2"):
            hyp = not kind.startswith("chart")
            maps = [iso() if hyp else pr.Transformation(rng.normal(size=(3, 3)) + 2 * np.identity(3)) for _ in range(len(steps) + 1)]
            inp = {"kind": kind, "steps": ["constructor"] + steps, "matrices": [np.asarray(m.proj_data).tolist() for m in maps], "klein_points": k.tolist()}

            def body():
                fig, ax = plt.subplots(figsize=(3, 3))
                try:
                    dr = drawtools.HyperbolicDrawing(model=kind, transform=maps[0], fig=fig, ax=ax) if hyp else drawtools.ProjectiveDrawing(transform=maps[0], chart_index=int(kind[-1]), fig=fig, ax=ax)
                    # the composite the history denotes, as a plain matrix acting on column vectors (independent of the library's operator)
                    col = lambda T: np.asarray(T.proj_data, dtype=float).T
                    total = col(maps[0])
                    for st, T in zip(steps, maps[1:]):
                        if st == "add":
                            dr.add_transform(T); total = col(T) @ total
                        elif st == "precompose":
                            dr.precompose_transform(T); total = total @ col(T)
                        else:
                            dr.set_transform(T); total = col(T)
                    X = spec.k2proj(k[0])
                    img = total @ X
                    if hyp:
                        want = spec.from_klein(img[1:] / img[0], kind)
                        dr.draw_point(h.Point(k[0].copy(), model="klein"))
                    else:
                        ci = int(kind[-1])
                        want = np.delete(img, ci) / img[ci]
                        dr.draw_point(pr.Point(X.copy()))
                    xy = np.array(ax.lines[-1].get_xydata())[0]
                    if not np.all(np.abs(xy - want) <= 1e-7 * (1 + np.max(np.abs(want)))):
                        rep.fail("placed_after_the_drawing_transform", f"after {['constructor'] + steps}: point drawn at {xy.tolist()}, the object moved by the maps in that order is at {want.tolist()}", inp); return
                    if hyp and kind != "klein":
                        # a segment whose IMAGE under the drawing's transform is straight in the model (a diameter of the disk / a vertical line of the half-plane):
                        # the straight substitute must join the transformed endpoints
                        from matplotlib.patches import PathPatch, Arc
                        if kind == "poincare":
                            u_ = rng.normal(size=2); u_ /= np.linalg.norm(u_)
                            ends_m = np.array([0.7 * u_, -0.4 * u_])
                            ends_k = spec.p2k(ends_m)
                        else:
                            x0 = float(rng.uniform(-1.5, 1.5))
                            ends_m = np.array([[x0, 0.4], [x0, 2.2]])
                            ends_k = spec.p2k(spec.h2p(ends_m))
                        pre = (np.linalg.inv(total) @ spec.k2proj(ends_k).T).T
                        npat = len(ax.patches)
                        dr.draw_geodesic(h.Segment(h.Point(pre.copy())))
                        newp = ax.patches[npat:]
                        if len(newp) != 1:
                            rep.fail("one_artist_added", f"{len(newp)}", inp); return
                        if isinstance(newp[0], PathPatch):
                            pv = np.asarray(newp[0].get_path().vertices, dtype=float)
                            pv = pv[np.all(np.isfinite(pv), axis=1)]
                            tol_ = 1e-5 * (1 + np.max(np.abs(ends_m)))
                            for q_ in pv:
                                if not _on_chord(q_, ends_m[0], ends_m[1], tol_):
                                    rep.fail("straight_substitute_on_segment", f"after {['constructor'] + steps}: path vertex {q_.tolist()} of the straight substitute is not on the transformed segment {ends_m.tolist()}", inp); return
                            if not all(np.min(np.linalg.norm(pv - e_, axis=1)) <= tol_ for e_ in ends_m):
                                rep.fail("straight_substitute_on_segment", f"after {['constructor'] + steps}: the straight substitute does not reach the transformed endpoints {ends_m.tolist()}", inp); return
                        elif isinstance(newp[0], Arc):
                            c_ = np.array(newp[0].center); r_ = newp[0].width / 2
                            if not all(abs(np.linalg.norm(e_ - c_) - r_) <= 1e-4 * (1 + r_) for e_ in ends_m):
                                rep.fail("arc_through_endpoints", f"after {['constructor'] + steps}", inp); return
                    if kind == "klein" or not hyp:
                        V = np.array([spec.k2proj(q) for q in k])
                        if hyp:
                            dr.draw_polygon(h.Polygon(h.Point(k.copy(), model="klein")))
                        else:
                            dr.draw_polygon(pr.Polygon(V.copy()))
                        imgs = (total @ V.T).T
                        wantv = imgs[:, 1:] / imgs[:, :1] if hyp else np.delete(imgs, int(kind[-1]), axis=1) / imgs[:, [int(kind[-1])]]
                        got = None
                        for coll in list(ax.collections)[::-1] + list(ax.patches)[::-1]:
                            try:
                                pv = coll.get_paths()[0].vertices if hasattr(coll, "get_paths") else coll.get_path().vertices
                            except Exception:
                                continue
                            got = np.asarray(pv, dtype=float)
                            break
                        if got is None or not all(np.min(np.linalg.norm(got - w_, axis=1)) <= 1e-6 * (1 + np.max(np.abs(wantv))) for w_ in wantv):
                            rep.fail("placed_after_the_drawing_transform", f"after {['constructor'] + steps}: polygon vertices are not at the coordinates of the moved vertices", inp); return
                finally:
                    plt.close(fig)
            rep.attempt("drawing_runs", inp, body)
            rep.case(key=(t, kind), nontrivial="add" in steps, sample=inp if (t, kind) == (0, "poincare") else None)
            if len(rep.failures) >= 3:
                return
