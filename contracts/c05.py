"""C05 - representations are word homomorphisms; derived ones commute with evaluation (DESIGN.md section 3, C05)."""
import itertools
import numpy as np
from vf.api import rcontract, bounded
from vf.rrun import _det_obj
from geometry_tools import representation as rp_mod, projective as pr, hyperbolic as h, lie, utils
from geometry_tools.representation import Representation
from geometry_tools.utils import words as W
import contracts.p_words  # Engine P contracts (registered on import)

P = "C05"
R = "geometry_tools/representation.py:"
F_WORD = [R + "Representation._word_value", R + "Representation.parse_word", R + "Representation.element", R + "Representation.elements", R + "Representation.__getitem__",
          R + "Representation._set_generator", R + "Representation.__setitem__", "geometry_tools/utils/words.py:invert_gen", "geometry_tools/utils/words.py:simplify_word",
          "geometry_tools/utils/words.py:formal_inverse", "geometry_tools/utils/core.py:invert", "geometry_tools/utils/core.py:identity"]


def det(m, ctx):
    return _det_obj(np.asarray(m, dtype=object)) if ctx.mode == 'sym' else np.linalg.det(np.asarray(m, dtype=complex if np.iscomplexobj(m) else float))


def gl(ctx, name, n, cplx=False):
    A = ctx.complexes(name, (n, n)) if cplx else ctx.reals(name, (n, n))
    d = det(A, ctx)
    if cplx:
        dd = d * (np.conjugate(d) if ctx.mode == 'num' else d.conjugate())
        ctx.assume(dd.real if ctx.mode == 'num' else dd.re_im()[0], '>', 0)
    else:
        ctx.assume(d * d, '>', 0)
    return A


def all_words(letters, maxlen):
    for n in range(maxlen + 1):
        for w in itertools.product(letters, repeat=n):
            yield "".join(w)


def spec_image(mats, word, one):
    M = one
    for ch in word:
        M = M @ mats[ch]
    return M


def base_rep(ctx, n, cplx=False):
    A, B = gl(ctx, 'A', n, cplx), gl(ctx, 'B', n, cplx)
    rep = Representation()
    rep["a"] = np.array(A, copy=True)
    rep["b"] = np.array(B, copy=True)
    mats = {"a": A, "b": B, "A": np.linalg.inv(A), "B": np.linalg.inv(B)}
    return rep, mats


@rcontract(P, "word_homomorphism", instances=[dict(n=1, cplx=False), dict(n=2, cplx=False), dict(n=1, cplx=True)], thorough=[dict(n=3, cplx=False), dict(n=2, cplx=True)],
           timeout=120.0, functions=F_WORD)
def word_homomorphism(ctx, n, cplx):
    """for symbolic generator matrices: the image of every word of length <= 3 is the ordered product of the letters'
    matrices (inverse letters = inverse matrices, empty word = identity); hence images of concatenations are products;
    free reduction does not change the image"""
    rep, mats = base_rep(ctx, n, cplx)
    one = ctx.const(np.identity(n))
    L = 3 if n <= 2 else 2
    for w in all_words("abAB", L):
        ctx.ensure_eq(f'image_{w or "empty"}', rep[w], spec_image(mats, w, one), tol=1e-6)
    ctx.ensure_eq('inverse_letter_is_inverse_matrix', rep["A"] @ rep["a"], one, tol=1e-6)
    for u, v in (("ab", "A"), ("aB", "bA"), ("", "ab"), ("abA", "aB"), ("BB", "b")):
        ctx.ensure_eq(f'concatenation_{u}_{v}', rep[u + v], rep[u] @ rep[v], tol=1e-6)
    for w in ("aAb", "abBA", "aBbAab", "AaBb", "abAaB"):
        ctx.ensure_eq(f'free_reduction_{w}', rep[W.simplify_word(w)], rep[w], tol=1e-6)
        ctx.ensure_eq(f'formal_inverse_{w}', rep[W.formal_inverse(w)] @ rep[w], one, tol=1e-6)
    batch = rep.elements(["ab", "", "bA"])
    ctx.ensure_eq('elements_batch', batch, np.stack([mats["a"] @ mats["b"], one, mats["b"] @ mats["A"]]), tol=1e-6)
    # re-assignment: the inverse letter follows
    C = gl(ctx, 'C', n, cplx)
    rep["a"] = np.array(C, copy=True)
    ctx.ensure_eq('after_reassignment_inverse', rep["A"] @ C, one, tol=1e-6)
    ctx.ensure_eq('after_reassignment_word', rep["bA"], mats["b"] @ np.linalg.inv(C), tol=1e-6)


@rcontract(P, "multi_character_names", instances=[dict(n=2)], functions=F_WORD)
def multi_character_names(ctx, n):
    A, B = gl(ctx, 'A', n), gl(ctx, 'B', n)
    rep = Representation(parse_simple=False)
    rep["s1"] = np.array(A, copy=True)
    rep["t22"] = np.array(B, copy=True)
    one = ctx.const(np.identity(n))
    Ai, Bi = np.linalg.inv(A), np.linalg.inv(B)
    ctx.ensure_eq('word', rep["s1*t22*S1"], A @ B @ Ai, tol=1e-6)
    ctx.ensure_eq('inverse_names', rep["T22"] @ B, one, tol=1e-6)
    ctx.ensure_eq('single', rep["t22"], B, tol=1e-6)
    ctx.ensure_eq('formal_inverse', rep.element(W.formal_inverse(["s1", "t22"], simple=False), parse_simple=False), Bi @ Ai, tol=1e-6)


DERIVED = ["copy", "conjugate", "dual", "compose", "tensor_product", "tensor_product_two_factors", "symmetric_square", "gln_adjoint", "sln_adjoint", "subgroup", "subgroup_no_inverse",
           "projective", "hyperbolic"]


def _sym2(M, n):
    """textbook Sym^2 on the basis of unordered pairs ordered by sym_index"""
    idx = {}
    for i in range(n):
        for j in range(i, n):
            idx[rp_mod.sym_index(i, j, n)] = (i, j)
    m = len(idx)
    out = np.empty((m, m), dtype=object)
    for r in range(m):
        i, j = idx[r]
        for c in range(m):
            k, l = idx[c]
            # coefficient of e_i e_j in  (M e_k)(M e_l)
            val = M[i, k] * M[j, l] + (M[j, k] * M[i, l] if i != j else 0)
            if k == l:
                val = val if i == j else M[i, k] * M[j, k] * 2 if False else val
            out[r, c] = val
    return out


@rcontract(P, "derived_representations", instances=[dict(kind=k, n=2) for k in DERIVED], thorough=[dict(kind=k, n=3) for k in ("conjugate", "dual", "tensor_product", "symmetric_square", "subgroup")],
           timeout=150.0,
           functions=[R + "Representation._compose", R + "Representation.compose", R + "Representation.conjugate", R + "Representation._conjugate", R + "Representation.dual",
                      R + "Representation.tensor_product", R + "Representation.symmetric_square", R + "Representation.gln_adjoint", R + "Representation.sln_adjoint",
                      R + "Representation.subgroup", R + "Representation.__init__", R + "symmetric_inclusion", R + "symmetric_projection", R + "sym_index",
                      R + "tensor_index", R + "tensor_pos", "geometry_tools/lie/hom.py:_wrap_hom"])
def derived_representations(ctx, kind, n):
    """every derived representation sends each word to the corresponding function F of the original image
    (checked on every generator letter, inverse letters included, and on all words of length 2)"""
    rep, mats = base_rep(ctx, n)
    one = ctx.const(np.identity(n))
    words = ["", "a", "b", "A", "B"] + ["".join(w) for w in itertools.product("abAB", repeat=2)]
    inv = np.linalg.inv
    # history: the original representation has been used (every word evaluated) before the derived one is created; the derived
    # representation must not depend on that
    for w in words:
        ctx.ensure_eq(f'original_word_{w or "empty"}', rep[w], spec_image(mats, w, one), tol=1e-6)
    if kind == "copy":
        new, F = Representation(rep), (lambda M: M)
    elif kind == "conjugate":
        C = gl(ctx, 'C', n)
        new, F = rep.conjugate(np.array(C, copy=True)), (lambda M: inv(C) @ M @ C)
    elif kind == "dual":
        new, F = rep.dual(), (lambda M: inv(M).T)
    elif kind == "compose":
        new, F = rep.compose(lambda M: lie.block_include(M, n + 1)), (lambda M: lie.block_include(M, n + 1))
    elif kind == "tensor_product":
        new = rep.tensor_product(rep)
        F = lambda M: np.array([[M[i // n, k // n] * M[i % n, k % n] for k in range(n * n)] for i in range(n * n)], dtype=object if ctx.mode == 'sym' else float)
    elif kind == "tensor_product_two_factors":
        # a second representation of the same group whose generators were assigned in the other order (b before a)
        C2, D2 = gl(ctx, 'C', n), gl(ctx, 'D', n)
        rep2 = Representation()
        rep2["b"] = np.array(D2, copy=True)
        rep2["a"] = np.array(C2, copy=True)
        mats2 = {"a": C2, "b": D2, "A": inv(C2), "B": inv(D2)}
        new = rep.tensor_product(rep2)
        for w in words:
            M1, M2 = spec_image(mats, w, one), spec_image(mats2, w, one)
            want = np.array([[M1[i // n, k // n] * M2[i % n, k % n] for k in range(n * n)] for i in range(n * n)], dtype=object if ctx.mode == 'sym' else float)
            ctx.ensure_eq(f'tensor_word_{w or "empty"}', new[w], want, tol=1e-6)
        return
    elif kind == "symmetric_square":
        new = rep.symmetric_square()
        F = None
    elif kind == "gln_adjoint":
        new, F = rep.gln_adjoint(), (lambda M: lie.gln_adjoint(M))
    elif kind == "sln_adjoint":
        new, F = rep.sln_adjoint(), (lambda M: lie.sln_adjoint(M))
    elif kind in ("subgroup", "subgroup_no_inverse"):
        sub = rep.subgroup(["ab", "bA"], compute_inverse=(kind == "subgroup"))
        img = {"a": mats["a"] @ mats["b"], "b": mats["b"] @ mats["A"]}
        img["A"], img["B"] = inv(img["a"]), inv(img["b"])
        for w in words:
            ctx.ensure_eq(f'subgroup_word_{w or "empty"}', sub[w], spec_image(img, w, one), tol=1e-6)
        return
    elif kind in ("projective", "hyperbolic"):
        cls, wrap = (pr.ProjectiveRepresentation, pr.Transformation) if kind == "projective" else (h.HyperbolicRepresentation, h.Isometry)
        new = cls(rep)
        for w in words:
            obj = new[w]
            ctx.ensure_true(f'wrapped_type_{w or "empty"}', type(obj) is wrap)
            ctx.ensure_eq(f'wrapped_word_{w or "empty"}', obj.proj_data, spec_image(mats, w, one).T, tol=1e-6)
        return
    if kind == "symmetric_square":
        # F = Sym^2: multiplicative, F(1) = 1, and it is the induced action on symmetric tensors:
        # incl . Sym2(M) = (M (x) M) . incl  on the symmetric subspace
        incl = rp_mod.symmetric_inclusion(n)
        for w in words:
            M = spec_image(mats, w, one)
            T = np.array([[M[i // n, k // n] * M[i % n, k % n] for k in range(n * n)] for i in range(n * n)], dtype=object if ctx.mode == 'sym' else float)
            ctx.ensure_eq(f'sym2_is_induced_action_{w or "empty"}', ctx.const(incl) @ new[w], T @ ctx.const(incl), tol=1e-6)
        ctx.ensure_true('dimension', new["a"].shape == (n * (n + 1) // 2,) * 2)
        return
    for w in words:
        ctx.ensure_eq(f'derived_word_{w or "empty"}', new[w], F(spec_image(mats, w, one)), tol=1e-6)


@rcontract(P, "fox_calculus", instances=[dict(n=2, L=3)], thorough=[dict(n=2, L=4)], timeout=150.0,
           functions=[R + "Representation._differential", R + "Representation.differential", R + "Representation.coboundary_matrix", R + "Representation.cocycle_matrix",
                      "geometry_tools/utils/words.py:fox_word_derivative", "geometry_tools/utils/words.py:act_left", "geometry_tools/utils/words.py:zmod_sum",
                      "geometry_tools/utils/words.py:simplify"])
def fox_calculus(ctx, n, L):
    """fundamental formula of Fox calculus for every word w of length 1..L over a, b and their inverses:
       sum_g rho(D_g w) (rho(g) - I) = rho(w) - I,  i.e.  differential(w) @ coboundary_matrix() = I - rho(w);
    generators assigned in non-alphabetical order (b before a)"""
    A, B = gl(ctx, 'A', n), gl(ctx, 'B', n)
    rep = Representation(dtype=np.dtype('O') if ctx.mode == 'sym' else 'float64')
    rep["b"] = np.array(B, copy=True)
    rep["a"] = np.array(A, copy=True)
    one = ctx.const(np.identity(n))
    cob = rep.coboundary_matrix()
    for w in all_words("abAB", L):
        if not w:
            continue
        d = rep.differential(w)
        ctx.ensure_eq(f'fundamental_formula_{w}', d @ cob, one - rep[w], tol=1e-6)
    # consequence: a satisfied relation gives a cocycle row annihilating the coboundary matrix
    rel = Representation(relations=["abAB"], dtype=np.dtype('O') if ctx.mode == 'sym' else 'float64')
    D1 = np.array([[A[0, 0], 0 * A[0, 0]], [0 * A[0, 0], A[1, 1]]], dtype=object if ctx.mode == 'sym' else float)
    D2 = np.array([[B[0, 0], 0 * A[0, 0]], [0 * A[0, 0], B[1, 1]]], dtype=object if ctx.mode == 'sym' else float)
    ctx.assume((A[0, 0] * A[1, 1] * B[0, 0] * B[1, 1]) ** 2, '>', 0)
    rel["a"] = D1
    rel["b"] = D2          # commuting diagonal matrices: the relation abAB holds
    ctx.ensure_eq('cocycle_times_coboundary_is_zero', rel.cocycle_matrix() @ rel.coboundary_matrix(), 0 * one, tol=1e-6)


@bounded(P, "sampling", functions=F_WORD + [R + "Representation.astype", R + "sym_index", R + "tensor_index", R + "tensor_pos", R + "symmetric_inclusion", R + "symmetric_projection"],
         note="n = 1..5, real / complex / exact integer matrices, up to 4 generators, random long words, dtype changes, index bijections")
def sampling(tier, rng, rep):
    N = 200 if tier == 'thorough' else 40
    rep.rule = ("random GL(n) generators n=1..5 (real, complex, integer unimodular), 1..4 generators assigned in random order with re-assignments; words exhaustively to length 3 and random to length 30; "
                "astype round trips; sym_index / tensor_index / tensor_pos bijections exhaustively for n <= 12; non-trivial = >= 2 generators and a word with an inverse letter")
    rep.bound = f"{N} rounds"
    # index maps
    for n in range(1, 13):
        seen = {}
        for i in range(n):
            for j in range(n):
                s = rp_mod.sym_index(i, j, n)
                if s != rp_mod.sym_index(j, i, n) or not (0 <= s < n * (n + 1) // 2):
                    rep.fail("sym_index_symmetric_in_range", f"n={n} ({i},{j}) -> {s}", {"n": n, "i": i, "j": j}); return
                if s in seen and seen[s] != (min(i, j), max(i, j)):
                    rep.fail("sym_index_injective_on_unordered_pairs", f"n={n}: {seen[s]} and {(i, j)} -> {s}", {"n": n}); return
                seen[s] = (min(i, j), max(i, j))
                if rp_mod.tensor_pos(rp_mod.tensor_index(i, j, n), n) != (i, j):
                    rep.fail("tensor_pos_inverts_tensor_index", f"n={n} ({i},{j})", {"n": n, "i": i, "j": j}); return
        if len(seen) != n * (n + 1) // 2:
            rep.fail("sym_index_onto", f"n={n}", {"n": n}); return
        if n <= 5:
            incl, proj = rp_mod.symmetric_inclusion(n), rp_mod.symmetric_projection(n)
            if not np.all(np.abs(proj @ incl - np.eye(n * (n + 1) // 2)) <= 1e-12):
                rep.fail("projection_after_inclusion_is_identity", f"n={n}", {"n": n}); return
        rep.case(key=("idx", n))
    for t in range(N):
        n = int(rng.integers(1, 6)); k = int(rng.integers(1, 5)); kind = ["real", "complex", "integer"][t % 3]
        names = list("abcd")[:k]
        order = list(rng.permutation(names))

        def gen():
            if kind == "integer":
                M = np.eye(n, dtype=int)
                for _ in range(4):
                    i, j = rng.integers(0, n, 2)
                    if i != j:
                        E = np.eye(n, dtype=int); E[i, j] = int(rng.integers(-2, 3)); M = M @ E
                return M
            M = rng.normal(size=(n, n)) + (1j * rng.normal(size=(n, n)) if kind == "complex" else 0)
            return M + np.eye(n) * 0.5
        mats = {}
        r = Representation()
        hist = []
        for g in order + ([order[0]] if t % 4 == 0 else []):
            M = gen(); r[g] = M.copy(); mats[g] = M.astype(complex if kind == "complex" else float); hist.append(g)
        for g in names:
            mats[g.upper()] = np.linalg.inv(mats[g])
        inp = {"n": n, "kind": kind, "assignment_order": hist, "generators": {g: [np.real(mats[g]).tolist(), np.imag(mats[g]).tolist()] for g in names}}
        letters = names + [g.upper() for g in names]

        def body():
            ws = list(all_words("".join(letters), 2 if k > 2 else 3)) + ["".join(rng.choice(letters, size=int(rng.integers(4, 31)))) for _ in range(6)]
            for w in ws:
                want = np.eye(n)
                for ch in w:
                    want = want @ mats[ch]
                got = np.asarray(r[w], dtype=complex)
                scale = max(1.0, np.max(np.abs(want)))
                if got.shape != (n, n) or not np.all(np.abs(got - want) <= 1e-7 * scale * max(1, len(w)) ** 2):
                    rep.fail("word_image_is_product", f"word {w!r}", {**inp, "word": w}); return
                red = W.simplify_word(w)
                if not np.all(np.abs(np.asarray(r[red], dtype=complex) - got) <= 1e-6 * scale * max(1, len(w)) ** 2):
                    rep.fail("free_reduction_keeps_image", f"{w!r} -> {red!r}", {**inp, "word": w}); return
            # the caller owns what a lookup returns: editing it in place does not change the representation
            for w in letters[:2] + [""]:
                got = r[w]
                keep = np.array(got, copy=True)
                try:
                    got[...] = 0
                except (TypeError, ValueError):
                    continue
                if not np.all(np.abs(np.asarray(r[w], dtype=complex) - keep) <= 1e-12 * max(1.0, np.max(np.abs(keep)))):
                    rep.fail("word_image_is_product", f"the image of {w!r} changed after the caller edited the matrix an earlier lookup returned", {**inp, "word": w}); return
            batch = np.asarray(r.elements(ws[:5]), dtype=complex)
            for i_, w in enumerate(ws[:5]):
                if not np.all(np.abs(batch[i_] - np.asarray(r[w], dtype=complex)) <= 1e-9 * max(1.0, np.max(np.abs(batch[i_])))):
                    rep.fail("elements_agrees_with_indexing", f"{w!r}", {**inp, "word": w}); return
            # change of dtype
            tgt = 'complex128' if kind != "complex" else 'complex128'
            r2 = r.astype(tgt)
            for w in ws[:8]:
                if not np.all(np.abs(np.asarray(r2[w]) - np.asarray(r[w], dtype=complex)) <= 1e-9 * max(1.0, np.max(np.abs(np.asarray(r[w], dtype=complex))))):
                    rep.fail("astype_commutes_with_evaluation", f"{w!r}", {**inp, "word": w}); return
            if kind == "integer":
                r3 = r.astype('float64')
                for w in ws[:8]:
                    if not np.all(np.abs(np.asarray(r3[w]) - np.asarray(r[w], dtype=float)) <= 1e-9 * max(1.0, np.max(np.abs(np.asarray(r[w], dtype=float))))):
                        rep.fail("astype_commutes_with_evaluation", f"int->float {w!r}", {**inp, "word": w}); return
            # Fox formula with generators assigned in this (possibly non-alphabetical) order
            if k <= 3 and n <= 3 and kind != "integer":
                cob = r.coboundary_matrix()
                for w in ws[1:12]:
                    if w:
                        dlt = r.differential(w) @ cob - (np.eye(n) - np.asarray(r[w]))
                        if not np.all(np.abs(dlt) <= 1e-6 * max(1.0, np.max(np.abs(np.asarray(r[w])))) * len(w) ** 2):
                            rep.fail("fox_fundamental_formula", f"{w!r}", {**inp, "word": w}); return
        rep.attempt("representation_runs", inp, body)
        rep.case(key=(t,), nontrivial=k >= 2, sample={k_: inp[k_] for k_ in ("n", "kind", "assignment_order")} if t == 0 else None)
        if len(rep.failures) >= 3:
            return


from vf.pcontract import lean_lemmas
lean_lemmas(P, "word_hom_lemma", "lean/Glue.lean", ["word_hom"], note="list-level statement of the concatenation lemma (any monoid)")


@bounded(P, "adjoint_representations_of_complex_representations", functions=[R + "Representation.gln_adjoint", R + "Representation.sln_adjoint", "geometry_tools/lie/core.py:gln_adjoint",
                                                                            "geometry_tools/lie/core.py:sln_adjoint", "geometry_tools/lie/hom.py:_wrap_hom"],
         note="the adjoint representations of representations with genuinely complex generators, against basis-independent facts about X -> g X g^-1 (not against the library's own adjoint): "
              "its eigenvalues are the quotients lambda_i / lambda_j of the eigenvalues of g (one eigenvalue 1 less for sl(n)), hence trace = tr(g) tr(g^-1)")
def adjoint_representations_of_complex_representations(tier, rng, rep):
    N = 60 if tier == 'thorough' else 15
    rep.rule = "n = 1, 2, 3; complex generators a, b with eigenvalues of distinct moduli and arguments; all words to length 3 over a, b, A, B plus random words to length 6; real generators as a control"
    rep.bound = f"{N} representations x 2 adjoints"
    for t in range(N):
        n = 1 + t % 3
        cplx = t % 4 != 3
        gens = {}
        for g in "ab":
            Pm = rng.normal(size=(n, n)) + (1j * rng.normal(size=(n, n)) if cplx else 0) + 2 * np.identity(n)
            lam = rng.uniform(0.6, 1.8, n) * (np.exp(1j * rng.uniform(-1.2, 1.2, n)) if cplx else 1.0)
            gens[g] = np.linalg.inv(Pm) @ np.diag(lam) @ Pm
        R_ = Representation()
        for g, M in gens.items():
            R_[g] = M.copy()
        mats = {**gens, "A": np.linalg.inv(gens["a"]), "B": np.linalg.inv(gens["b"])}
        words = [w for w in all_words("abAB", 2) if w] + ["".join(rng.choice(list("abAB"), size=int(rng.integers(3, 7)))) for _ in range(4)]
        inp = {"n": n, "complex": cplx, "a_re": np.real(gens["a"]).tolist(), "a_im": np.imag(gens["a"]).tolist(), "b_re": np.real(gens["b"]).tolist(), "b_im": np.imag(gens["b"]).tolist()}

        def body():
            for which in ("gln", "sln"):
                if which == "sln" and n == 1:
                    continue
                Ad = R_.gln_adjoint() if which == "gln" else R_.sln_adjoint()
                for w in words:
                    g = np.identity(n, dtype=complex)
                    for ch in w:
                        g = g @ mats[ch]
                    M = np.asarray(Ad[w], dtype=complex)
                    dim = n * n - (1 if which == "sln" else 0)
                    if M.shape != (dim, dim):
                        rep.fail("adjoint_dimension", f"{which}: {M.shape}", {**inp, "word": w}); return
                    ev = np.linalg.eigvals(g)
                    want = np.array([a / b for a in ev for b in ev])
                    got = np.linalg.eigvals(M)
                    if which == "sln":
                        # remove one eigenvalue 1 (the centre) from the expected multiset
                        want = np.delete(want, int(np.argmin(np.abs(want - 1))))
                    # multiset comparison by greedy matching
                    rem = list(got)
                    ok = True
                    for x in want:
                        j = int(np.argmin([abs(x - y) for y in rem]))
                        if abs(x - rem[j]) > 1e-6 * (1 + abs(x)) * np.linalg.cond(g) ** 2:
                            ok = False; break
                        rem.pop(j)
                    tr_want = np.trace(g) * np.trace(np.linalg.inv(g)) - (1 if which == "sln" else 0)
                    if not ok or abs(np.trace(M) - tr_want) > 1e-7 * (1 + abs(tr_want)) * np.linalg.cond(g) ** 2:
                        rep.fail("adjoint_is_conjugation_on_matrices", f"{which}_adjoint of the word {w!r}: trace {np.trace(M)}, conjugation by the image has trace {tr_want}", {**inp, "word": w, "adjoint": which}); return
        rep.attempt("adjoint_runs", inp, body)
        rep.case(key=(t,), nontrivial=cplx, sample=inp if t == 0 else None)
        if len(rep.failures) >= 3:
            return


@bounded(P, "multi_character_generator_names", functions=["geometry_tools/utils/words.py:asym_gens", "geometry_tools/utils/words.py:invert_gen", R + "Representation.coboundary_matrix",
                                                          R + "Representation.differential", R + "Representation.tensor_product", R + "Representation.compose", R + "Representation.element"],
         note="representations with parse_simple=False whose generator names are multi-character: 'b1', 'gen', names starting with a digit or an underscore ('1a', '_d', '2xy'): every generator "
              "is a generator for num_gens, the coboundary matrix (one block I - rho(g) each), tensor products and composed representations; inverse letters map to inverses")
def multi_character_generator_names(tier, rng, rep):
    N = 40 if tier == 'thorough' else 10
    pools = [["a", "b1"], ["1a", "2b"], ["_d", "x"], ["gen", "1a", "_d"], ["a1", "2xy", "b"]]
    rep.rule = f"name sets {pools}; n = 2, 3; random integer matrices with non-zero determinant; words written with '*' separators"
    rep.bound = f"{N} rounds x {len(pools)} name sets"
    inv_name = lambda g: g.upper() if g.lower() == g else g.lower()
    for t in range(N):
        n = 2 + t % 2
        for names in pools:
            def rmat():
                while True:
                    M = rng.integers(-2, 3, size=(n, n)).astype(float)
                    if abs(np.linalg.det(M)) > 0.5:
                        return M
            m1, m2 = {g: rmat() for g in names}, {g: rmat() for g in names}
            inp = {"names": names, "n": n, "matrices": {g: m1[g].tolist() for g in names}}

            def body():
                R1, R2 = Representation(parse_simple=False), Representation(parse_simple=False)
                for g in names:
                    R1[g] = m1[g].copy(); R2[g] = m2[g].copy()
                I = np.identity(n)
                if R1.num_gens != len(names):
                    rep.fail("every_name_is_a_generator", f"num_gens = {R1.num_gens} for the names {names}", inp); return
                for g in names:
                    if not np.allclose(R1.element(inv_name(g), parse_simple=False), np.linalg.inv(m1[g])) or not np.allclose(R1.element(g + "*" + inv_name(g), parse_simple=False), I):
                        rep.fail("inverse_letter_is_inverse_matrix", g, inp); return
                cob = np.asarray(R1.coboundary_matrix(), dtype=float)
                want = np.concatenate([I - m1[g] for g in R1.generators if g in names], axis=0)
                if cob.shape != want.shape or not np.allclose(cob, want):
                    rep.fail("coboundary_matrix_blocks", f"shape {cob.shape}, expected one block I - rho(g) for each of {names} (shape {want.shape})", inp); return
                T = R1.tensor_product(R2)
                C = R1.compose(lambda M: np.linalg.inv(M).T, compute_inverses=True)
                for g in names:
                    for letter, a, b in ((g, m1[g], m2[g]), (inv_name(g), np.linalg.inv(m1[g]), np.linalg.inv(m2[g]))):
                        if not np.allclose(T.element(letter, parse_simple=False), np.kron(a, b)):
                            rep.fail("tensor_product_of_every_generator", f"{letter}", inp); return
                        if not np.allclose(C.element(letter, parse_simple=False), np.linalg.inv(a).T):
                            rep.fail("composed_representation_of_every_generator", f"{letter}", inp); return
            rep.attempt("representation_runs", inp, body)
            rep.case(key=(t, tuple(names)), nontrivial=any(not g[0].isalpha() for g in names), sample=inp if (t, tuple(names)) == (0, ("1a", "2b")) else None)
            if len(rep.failures) >= 3:
                return
