"""C12 - results are independent of number packaging and of homogeneous rescaling (DESIGN.md section 3, C12)."""
import copy
import numpy as np
from vf.api import rcontract, bounded
from geometry_tools import hyperbolic as h, projective as pr, utils, coxeter
from contracts import spec
from contracts.c02 import timelike, tangent, spacelike

P = "C12"
H = "geometry_tools/hyperbolic.py:"
U = "geometry_tools/utils/core.py:"


def lam(ctx, name):
    l = ctx.real(name, lambda r: r.choice([-1, 1]) * r.uniform(0.2, 5))
    ctx.assume(l * l, '>', 0)
    return l


def pt(x):
    return h.Point(np.array(x, copy=True))


@rcontract(P, "rescaling_point_outputs", instances=[dict(n=1), dict(n=2)], thorough=[dict(n=3)], timeout=150.0, max_paths=80,
           functions=[H + "Point.coords", H + "Point.distance", "geometry_tools/projective.py:affine_coords", U + "normalize"])
def rescaling_point_outputs(ctx, n):
    """model coordinates and distances do not depend on the homogeneous representatives (negative factors included)"""
    x, y = timelike(ctx, 'x', n, 1), timelike(ctx, 'y', n, 1)
    a, b = lam(ctx, 'a'), lam(ctx, 'b')
    for m in ("klein", "poincare", "halfspace"):
        if m == "halfspace":
            ctx.assume(spec.nsq(x[1:] - x[0] * np.eye(n)[0]), '>', 0)      # not the half-space point at infinity
        ctx.ensure_eq(f'coords_{m}', pt(a * x).coords(m), pt(x).coords(m), tol=1e-6)
    ctx.ensure_eq('coords_hyperboloid_same_point', pt(a * x).coords("hyperboloid")[None], pt(x).coords("hyperboloid")[None], proj=True, tol=1e-6)
    ctx.ensure_eq('distance', pt(a * x).distance(pt(b * y)), pt(x).distance(pt(y)), tol=1e-6)


@rcontract(P, "rescaling_segment", instances=[], thorough=[dict(n=2)], timeout=150.0, max_paths=80,
           functions=[H + "Segment._compute_aux_data", H + "Subspace.sphere_parameters", H + "Segment.__init__"])
def rescaling_segment(ctx, n):
    """segments: ideal endpoints (as an unordered pair) and Poincare circle parameters are independent of the representatives"""
    k = ctx.reals('k', (n,), lambda r: r.uniform(-0.55, 0.55, n)); l = ctx.reals('l', (n,), lambda r: r.uniform(-0.55, 0.55, n))
    ctx.assume(spec.nsq(k), '<', 1); ctx.assume(spec.nsq(l), '<', 1); ctx.assume(spec.nsq(k - l), '>', 0)
    cr = k[0] * l[1] - k[1] * l[0]
    ctx.assume(cr * cr, '>', 0)
    a, b = lam(ctx, 'a'), lam(ctx, 'b')
    x, y = spec.k2proj(k), spec.k2proj(l)
    d_ = a * x - b * y
    ctx.assume(spec.mink(d_, d_) ** 2, '>', 0)        # the quadratic for the ideal endpoints is non-degenerate for these representatives
    S0 = h.Segment(pt(x), pt(y))
    S1 = h.Segment(pt(a * x), pt(b * y))
    i0, i1 = S0.ideal_endpoint_coords("klein"), S1.ideal_endpoint_coords("klein")
    # unordered pair: symmetric functions of the two Klein endpoints agree
    ctx.ensure_eq('ideal_endpoints_sum', i1[0] + i1[1], i0[0] + i0[1], tol=1e-6)
    ctx.ensure_eq('ideal_endpoints_product', i1[0] * i1[1], i0[0] * i0[1], tol=1e-6)
    c0, r0 = S0.sphere_parameters(model=h.Model.POINCARE)
    c1, r1 = S1.sphere_parameters(model=h.Model.POINCARE)
    ctx.ensure_eq('circle_centre', c1, c0, tol=1e-6)
    ctx.ensure_eq('circle_radius', r1 * r1, r0 * r0, tol=1e-6)


@rcontract(P, "rescaling_unit_tangent", instances=[dict(n=2)], thorough=[dict(n=3)], timeout=150.0, max_paths=120,
           functions=[H + "Point.unit_tangent_towards", H + "TangentVector.normalized", H + "TangentVector._compute_aux_data"])
def rescaling_unit_tangent(ctx, n):
    """the unit tangent at p towards q is the same tangent DIRECTION for all representatives of p and q"""
    x, y = timelike(ctx, 'x', n, 1), timelike(ctx, 'y', n, 1)
    cr = x[0] * y[1] - x[1] * y[0]
    ctx.assume(cr * cr, '>', 0)
    a, b = lam(ctx, 'a'), lam(ctx, 'b')
    tv0 = pt(x).unit_tangent_towards(pt(y))
    tv1 = pt(a * x).unit_tangent_towards(pt(b * y))
    ctx.ensure_eq('same_basepoint', tv1.point[None], tv0.point[None], proj=True, tol=1e-6)
    ctx.ensure_eq('parallel_vectors', tv1.vector[None], tv0.vector[None], proj=True, tol=1e-6)
    ctx.ensure('same_direction', (tv1.point * tv0.point).sum() * (tv1.vector * tv0.vector).sum(), '>', 0)
    # towards q: the direction has positive component along the projection of q (on p's sheet)
    yy = y * (-1 if False else 1)
    toward = spec.mink(tv0.vector, y) * spec.mink(x, y)      # <v, q> and <p, q> have opposite signs when v points to q ... (<p,q> < 0 on one sheet)
    ctx.ensure('points_towards_q', toward, '<', 0)


@rcontract(P, "rescaling_tangent", instances=[], thorough=[dict(n=2)], timeout=150.0, max_paths=120,
           functions=[H + "Point.unit_tangent_towards", H + "TangentVector.point_along", H + "TangentVector.origin_to", H + "TangentVector.normalized"])
def rescaling_tangent(ctx, n):
    """tangent directions and the points reached along them: p.unit_tangent_towards(q).point_along(t) has the same Klein
    coordinates for all representatives; TangentVector.origin_to is the same matrix for (x, v) and (c x, c v)"""
    x, y = timelike(ctx, 'x', n, 1), timelike(ctx, 'y', n, 1)
    cr = x[0] * y[1] - x[1] * y[0]
    ctx.assume(cr * cr, '>', 0)
    a, b = lam(ctx, 'a'), lam(ctx, 'b')
    t = ctx.real('t', lambda r: r.uniform(0.3, 1.5))
    tv0 = pt(x).unit_tangent_towards(pt(y))
    tv1 = pt(a * x).unit_tangent_towards(pt(b * y))
    z0 = tv0.point_along(t).coords("klein")
    z1 = tv1.point_along(t).coords("klein")
    ctx.ensure_eq('point_reached_along_the_direction', z1, z0, tol=1e-6)
    # reuse after the first query (the object must still denote the same tangent vector)
    z2 = tv1.normalized().point_along(t).coords("klein")
    ctx.ensure_eq('point_reached_when_reused', z2, z0, tol=1e-6)
    M0 = tv0.origin_to().proj_data
    M1 = h.TangentVector(a * tv0.point, a * tv0.vector).origin_to().proj_data
    ctx.ensure_eq('origin_to_same_isometry', M1, M0, tol=1e-6)


@rcontract(P, "rescaling_reflection_and_apply", instances=[], thorough=[dict(n=2)], timeout=150.0, max_paths=80,
           functions=[H + "Subspace.reflection_across", H + "Hyperplane.__init__", "geometry_tools/projective.py:Transformation.apply"])
def rescaling_reflection_and_apply(ctx, n):
    v = spacelike(ctx, 'v', n)
    a = ctx.real('a', lambda r: r.uniform(0.2, 5))       # positive and negative factor separately (sign paths)
    ctx.assume(a, '>', 0)
    R0 = h.Hyperplane(np.array(v, copy=True)).reflection_across().proj_data
    R1 = h.Hyperplane(np.array(a * v, copy=True)).reflection_across().proj_data
    R2 = h.Hyperplane(np.array(-a * v, copy=True)).reflection_across().proj_data
    ctx.ensure_eq('reflection_positive_factor', R1, R0, tol=1e-6)
    ctx.ensure_eq('reflection_negative_factor', R2, R0, tol=1e-6)
    x = timelike(ctx, 'x', n, 1)
    b = lam(ctx, 'b')
    img0, img1 = (h.Isometry(R0) @ pt(x)).coords("klein"), (h.Isometry(R0) @ pt(b * x)).coords("klein")
    ctx.ensure_eq('image_under_transformation', img1, img0, tol=1e-6)


# ------------------------------------------------------------------------------------------------ packaging
def _packagings(v):
    """the same real number supplied in every packaging"""
    out = {"python_float": float(v), "np_float64": np.float64(v), "np_float32": np.float32(v), "zero_d_array": np.array(float(v)),
           "zero_d_float32": np.array(v, dtype=np.float32)}
    if float(v) == int(v):
        out.update({"python_int": int(v), "np_int64": np.int64(int(v)), "np_int32": np.int32(int(v)), "zero_d_int_array": np.array(int(v))})
        if v >= 0:       # unsigned packagings (np.uint8 is left out: NumPy itself evaluates cos(np.uint8(1)) in float16)
            out.update({"np_uint32": np.uint32(int(v)), "np_uint16": np.uint16(int(v)), "zero_d_uint32_array": np.array(int(v), dtype=np.uint32), "np_uint64": np.uint64(int(v))})
    return out


@bounded(P, "packaging", functions=["geometry_tools/utils/types.py:is_linalg_type", "geometry_tools/utils/types.py:inexact_type", U + "check_type", U + "number",
                                    U + "array_like", U + "zeros", U + "identity", U + "rotation_matrix", H + "Isometry.standard_rotation", H + "Isometry.elliptic",
                                    H + "sl2_iso", H + "IdealPoint.from_angle", H + "Polygon.regular_polygon", "geometry_tools/coxeter.py:CoxeterGroup.bilinear_form"],
         note="finite case analysis: every packaging of the same numeric value x every documented entry point, on the installed NumPy (>= 2)")
def packaging(tier, rng, rep):
    rep.rule = ("packagings {Python int/float, np.float32/64, np.int32/64, 0-d arrays, nested lists, ndarrays of each dtype} x entry points; result must be a floating "
                "dtype, numerically equal across packagings (float32 inputs to 1e-6), and the library's inverse / eig / cos must succeed on it; non-trivial = non-float64 packaging")
    rep.exhaustive = True
    rep.bound = "exhaustive over the listed packagings for the listed values"
    values = [0.3, 1.0, 2.0, -1.0, 3.0]

    def floating(a, what, inp):
        a = np.asarray(a)
        if a.dtype.kind not in "fc":
            rep.fail("floating_dtype", f"{what}: dtype {a.dtype}", inp)
            return False
        return True

    def compare(results, what, tol=1e-6):
        ref_name, ref = next(iter(results.items()))
        for nm, r in results.items():
            if r is None:
                continue
            if np.shape(r) != np.shape(ref) or not np.all(np.abs(np.asarray(r, dtype=complex) - np.asarray(ref, dtype=complex)) <= tol * (1 + np.max(np.abs(np.asarray(ref, dtype=complex))))):
                rep.fail("same_result_across_packagings", f"{what}: {nm} differs from {ref_name}", {"entry": what, "packaging": nm})

    for v in values:
        packs = _packagings(v)
        entries = {
            "rotation_matrix": lambda a: utils.rotation_matrix(a),
            "standard_rotation": lambda a: h.Isometry.standard_rotation(a).proj_data,
            "standard_rotation_dim3": lambda a: h.Isometry.standard_rotation(a, dimension=3).proj_data,
            "elliptic": lambda a: h.Isometry.elliptic(2, utils.rotation_matrix(a)).proj_data,
            "from_angle": lambda a: h.IdealPoint.from_angle(a).proj_data,
            "number": lambda a: np.asarray(utils.number(a)),
            "zeros_like": lambda a: utils.zeros((2,), like=a, integer_type=False),
            "identity_like": lambda a: utils.identity(2, like=a, integer_type=False),
            "array_like": lambda a: utils.array_like([[a, 0], [0, 1]]),
            "standard_loxodromic": (lambda a: h.Isometry.standard_loxodromic(2, a).proj_data) if v > 0 else None,
            "regular_polygon_angle": (lambda a: h.Polygon.regular_polygon(5, angle=a).proj_data) if 0 < v < 1.8 else None,
            "regular_polygon_radius": (lambda a: h.Polygon.regular_polygon(4, radius=a).proj_data) if v > 0 else None,
            "klein_point": lambda a: h.Point([a * 0.1, 0.2], model="klein").proj_data if not isinstance(a, np.ndarray) else h.Point(np.array([float(a) * 0.1, 0.2]), model="klein").proj_data,
        }
        for ename, f in entries.items():
            if f is None:
                continue
            results = {}
            for pname, a in packs.items():
                inp = {"entry": ename, "value": v, "packaging": pname}
                r = rep.attempt("entry_point_runs", inp, lambda: f(a))
                rep.case(key=(ename, v, pname), nontrivial=(pname != "python_float" and pname != "np_float64"), sample=inp if (ename, pname) == ("standard_rotation", "python_int") else None)
                if r is None:
                    continue
                if ename not in ("number",):
                    if not floating(r, ename, inp):
                        continue
                results[pname] = np.asarray(r, dtype=float if np.asarray(r).dtype.kind != 'c' else complex)
                if ename in ("rotation_matrix", "standard_rotation", "standard_rotation_dim3", "elliptic", "standard_loxodromic"):
                    def lin():
                        m = np.asarray(r)
                        utils.invert(m); utils.eig(m); utils.cos(m)
                    rep.attempt("own_linear_algebra_succeeds", inp, lin)
            if results:
                compare(results, f"{ename}({v})", tol=1e-6)
    # matrices / coordinates as nested lists, int arrays, float32 arrays
    M = [[2, 1], [1, 1]]
    res = {}
    for pname, a in {"nested_list": M, "int_array": np.array(M), "float_array": np.array(M, dtype=float), "float32_array": np.array(M, dtype=np.float32),
                     "int32_array": np.array(M, dtype=np.int32), "uint8_array": np.array(M, dtype=np.uint8), "uint32_array": np.array(M, dtype=np.uint32)}.items():
        inp = {"entry": "sl2_iso", "packaging": pname}
        r = rep.attempt("entry_point_runs", inp, lambda: h.sl2_iso(a).proj_data)
        rep.case(key=("sl2_iso", pname), nontrivial=pname != "float_array")
        if r is not None and floating(r, "sl2_iso", inp):
            res[pname] = r
            rep.attempt("own_linear_algebra_succeeds", inp, lambda: (utils.invert(r), utils.eig(r)))
    compare(res, "sl2_iso")
    res = {}
    for pname, a in {"nested_list": [[1, 0, 0], [0, 0, 1], [0, 1, 0]], "int_array": np.array([[1, 0, 0], [0, 0, 1], [0, 1, 0]]),
                     "float_array": np.array([[1., 0, 0], [0, 0, 1], [0, 1, 0]])}.items():
        inp = {"entry": "Transformation", "packaging": pname}
        r = rep.attempt("entry_point_runs", inp, lambda: (pr.Transformation(np.array(a)) @ pr.Point([1, 2, 3])).proj_data)
        rep.case(key=("Transformation", pname))
        if r is not None:
            res[pname] = np.asarray(r, dtype=float)
    compare(res, "Transformation")
    # coordinates of points / normals as nested lists of Python ints, integer arrays, float arrays: the queries succeed and agree
    coords = {"point_2d": ([5, 3, 0], [2, 0, 1]), "point_3d": ([4, 1, -2, 0], [3, 0, 1, 1])}
    for cname, (x, y) in coords.items():
        queries = {
            "coords_klein": lambda a, b: h.Point(a).coords("klein"), "coords_poincare": lambda a, b: h.Point(a).coords("poincare"),
            "coords_halfspace": lambda a, b: h.Point(a).coords("halfspace"), "coords_hyperboloid": lambda a, b: h.Point(a).coords("hyperboloid"),
            "distance": lambda a, b: h.Point(a).distance(h.Point(b)), "origin_to": lambda a, b: h.Point(a).origin_to().proj_data,
            "unit_tangent": lambda a, b: h.Point(a).unit_tangent_towards(h.Point(b)).point_along(0.5).coords("klein"),
            "segment_ideal_endpoints": lambda a, b: h.Segment(h.Point(a), h.Point(b)).ideal_endpoint_coords("klein"),
            "rotated": lambda a, b: (h.Isometry.standard_rotation(1, dimension=len(x) - 1) @ h.Point(a)).coords("klein"),
        }
        for qname, f in queries.items():
            res = {}
            for pname, cv in {"float_array": lambda v: np.array(v, dtype=float), "nested_list_of_ints": lambda v: list(v), "int64_array": lambda v: np.array(v, dtype=np.int64),
                              "int32_array": lambda v: np.array(v, dtype=np.int32), "list_of_floats": lambda v: [float(c) for c in v]}.items():
                inp = {"entry": f"Point.{qname}", "coordinates": [x, y], "packaging": pname}
                r = rep.attempt("entry_point_runs", inp, lambda: f(cv(x), cv(y)))
                rep.case(key=(cname, qname, pname), nontrivial=pname != "float_array")
                if r is not None and floating(r, f"Point.{qname}", inp):
                    res[pname] = np.asarray(r, dtype=float)
            compare(res, f"Point.{qname} on {cname}")
    # coordinates in the other models and tangent vectors given with integer values (nested lists of Python ints, int arrays)
    model_inputs = {"halfspace_2d": ("halfspace", [0, 2]), "halfspace_2d_b": ("halfspace", [3, 1]), "halfspace_3d": ("halfspace", [1, -2, 3]), "poincare_origin": ("poincare", [0, 0]),
                    "klein_origin": ("klein", [0, 0, 0]), "hyperboloid_origin": ("hyperboloid", [1, 0, 0])}
    for cname, (mod_, x) in model_inputs.items():
        for out_model in ("klein", "halfspace", "poincare", "hyperboloid"):
            res = {}
            for pname, cv in {"float_array": lambda v: np.array(v, dtype=float), "nested_list_of_ints": lambda v: list(v), "int64_array": lambda v: np.array(v, dtype=np.int64),
                              "int32_array": lambda v: np.array(v, dtype=np.int32), "list_of_floats": lambda v: [float(c) for c in v]}.items():
                inp = {"entry": f"Point(model={mod_}).coords({out_model})", "coordinates": x, "packaging": pname}
                r = rep.attempt("entry_point_runs", inp, lambda: h.Point(cv(x), model=mod_).coords(out_model))
                rep.case(key=(cname, out_model, pname), nontrivial=pname != "float_array")
                if r is not None and floating(r, inp["entry"], inp):
                    res[pname] = np.asarray(r, dtype=float)
            compare(res, f"Point({x}, model={mod_}).coords({out_model})")
    for base, vec in (([2, 1, 0], [0, 0, 1]), ([3, 1, -1], [1, 2, 0]), ([2, 0, 1, 0], [0, 1, 0, 1])):
        for tt in (0.7, -0.3, 1):
            res = {}
            for pname, cv in {"float_array": lambda v: np.array(v, dtype=float), "int64_array": lambda v: np.array(v, dtype=np.int64), "int32_array": lambda v: np.array(v, dtype=np.int32)}.items():
                inp = {"entry": "TangentVector.point_along", "point": base, "vector": vec, "t": tt, "packaging": pname}
                r = rep.attempt("entry_point_runs", inp, lambda: h.TangentVector(h.Point(cv(base)), cv(vec)).point_along(tt).coords("klein"))
                rep.case(key=("tv", tuple(base), tt, pname), nontrivial=pname != "float_array")
                if r is not None and floating(r, "point_along", inp):
                    res[pname] = np.asarray(r, dtype=float)
            compare(res, f"TangentVector({base}, {vec}).point_along({tt})")
    for nv in ([0, 1, 2], [1, 2, 2], [0, 1, 1], [0, 2, -1, 1]):
        res = {}
        for pname, cv in {"float_array": lambda v: np.array(v, dtype=float), "nested_list_of_ints": lambda v: list(v), "int64_array": lambda v: np.array(v, dtype=np.int64)}.items():
            inp = {"entry": "Hyperplane.reflection_across", "normal": nv, "packaging": pname}
            r = rep.attempt("entry_point_runs", inp, lambda: h.Hyperplane(cv(nv)).reflection_across().proj_data)
            rep.case(key=("normal", tuple(nv), pname), nontrivial=pname != "float_array")
            if r is not None and floating(r, "reflection_across", inp):
                res[pname] = np.asarray(r, dtype=float)
        compare(res, f"Hyperplane({nv}).reflection_across")
    # Coxeter labels: ints, floats, numpy ints, infinite labels as 0 or negative
    for tri in ((2, 3, 7), (3, 3, 4), (2, 3, 0), (2, 4, -1), (0, 0, 0)):
        res = {}
        for pname, conv in {"python_int": int, "python_float": float, "np_int64": np.int64, "np_float64": np.float64, "np_int32": np.int32}.items():
            labels = tuple(conv(x) for x in tri)
            inp = {"entry": "TriangleGroup", "labels": list(tri), "packaging": pname}

            def cox():
                G = coxeter.TriangleGroup(labels)
                B = G.bilinear_form()
                rp = G.geometric_representation()
                cr = G.canonical_representation()
                out = [np.asarray(B, dtype=float).ravel()] + [np.asarray(rp[g], dtype=float).ravel() for g in "abc"] + [np.asarray(cr[g], dtype=float).ravel() for g in "abc"]
                # free Cartan parameters at the infinite labels (used AFTER the form was computed once: the group must still know its labels)
                cm0 = np.array(G.coxeter_matrix, copy=True)
                inf_idx = [(int(i), int(j)) for i, j in zip(*np.nonzero(np.asarray(G.coxeter_matrix) < 0)) if i < j]
                if inf_idx:
                    i, j = inf_idx[0]
                    tpar = -3.0
                    C = np.asarray(G.cartan_matrix({(i, j): tpar}), dtype=float)
                    tv = G.tits_vinberg_rep({(i, j): tpar})
                    gi, gj = G.ordered_gens[i], G.ordered_gens[j]
                    tr = float(np.trace(np.asarray(tv[gi], dtype=float) @ np.asarray(tv[gj], dtype=float)))
                    if C[i, j] != tpar or C[j, i] != tpar:
                        rep.fail("free_cartan_parameter_is_used", f"TriangleGroup{tri} with {pname} labels: cartan_matrix({{({i},{j}): {tpar}}}) has entries {C[i, j]}, {C[j, i]} there", inp)
                    elif abs(tr - (3 - 4 + tpar * tpar)) > 1e-9:
                        rep.fail("free_cartan_parameter_is_used", f"TriangleGroup{tri} with {pname} labels: trace of the product of the two generators is {tr}, expected {3 - 4 + tpar * tpar}", inp)
                    out += [C.ravel()] + [np.asarray(tv[g], dtype=float).ravel() for g in "abc"]
                if not np.array_equal(cm0, np.asarray(G.coxeter_matrix)):
                    rep.fail("labels_unchanged_by_queries", f"TriangleGroup{tri} with {pname} labels: the stored Coxeter matrix changed", inp)
                B2 = np.asarray(G.bilinear_form(), dtype=float)
                if not np.array_equal(B2, np.asarray(B, dtype=float)):
                    rep.fail("labels_unchanged_by_queries", f"TriangleGroup{tri} with {pname} labels: second bilinear_form() differs from the first", inp)
                return np.concatenate(out)
            r = rep.attempt("entry_point_runs", inp, cox)
            rep.case(key=("cox", tri, pname), nontrivial=pname != "python_int")
            if r is not None:
                if not np.all(np.isfinite(r)):
                    rep.fail("finite_values", f"TriangleGroup{tri} with {pname} labels has nan/inf entries", inp)
                res[pname] = r
        compare(res, f"TriangleGroup{tri}")
        M2 = np.array([[1, tri[0], tri[2]], [tri[0], 1, tri[1]], [tri[2], tri[1], 1]])
        for pname, mat in {"matrix_int": M2, "matrix_float": M2.astype(float), "matrix_list": M2.tolist()}.items():
            inp = {"entry": "CoxeterGroup(matrix)", "labels": list(tri), "packaging": pname}
            def mroute():
                keep = copy.deepcopy(mat)
                Gm = coxeter.CoxeterGroup(matrix=mat)
                bf = np.asarray(Gm.bilinear_form(), dtype=float).ravel()
                same = np.array_equal(np.asarray(keep), np.asarray(mat))
                if not same:
                    rep.fail("caller_matrix_unchanged", f"CoxeterGroup(matrix) {pname}: the caller's matrix was modified", inp)
                inf_idx = [(int(i), int(j)) for i, j in zip(*np.nonzero(np.asarray(Gm.coxeter_matrix) < 0)) if i < j]
                if inf_idx:
                    i, j = inf_idx[0]
                    C = np.asarray(Gm.cartan_matrix({(i, j): -3.0}), dtype=float)
                    if C[i, j] != -3.0 or C[j, i] != -3.0:
                        rep.fail("free_cartan_parameter_is_used", f"CoxeterGroup(matrix) {pname}, labels {tri}: cartan_matrix ignores the parameter ({C[i, j]}, {C[j, i]})", inp)
                return bf
            r = rep.attempt("entry_point_runs", inp, mroute)
            rep.case(key=("coxm", tri, pname))
            if r is not None and res:
                ref = next(iter(res.values()))[:9]
                if not np.all(np.isfinite(r)) or not np.all(np.abs(r - ref) <= 1e-9):
                    rep.fail("same_result_across_packagings", f"CoxeterGroup(matrix) {pname} differs from the diagram route", inp)


@bounded(P, "rescaling_sampling", functions=[H + "Point.coords", H + "Point.distance", H + "Segment._compute_aux_data", H + "Point.unit_tangent_towards",
                                             H + "TangentVector.origin_to", H + "TangentVector.isometry_to", H + "Polygon.__init__"],
         note="random per-unit factors in +-[0.1,10], dimensions 2..5, composite shapes")
def rescaling_sampling(tier, rng, rep):
    N = 300 if tier == 'thorough' else 60
    rep.rule = "random interior points, n=2..5, shapes (), (3,), (2,2); independent random factors in +-[0.1,10] per unit; one third of the rounds on the dyadic lattice (1/4)Z^n with exact factors +-2^j (degenerate intermediate quantities); non-trivial = at least one negative factor"
    rep.bound = f"{N} rounds"
    for t in range(N):
        n = int(rng.integers(2, 6))
        shape = [(), (3,), (2, 2)][t % 3]

        def kl():
            v = rng.normal(size=shape + (n,))
            return v / np.linalg.norm(v, axis=-1, keepdims=True) * rng.uniform(0.05, 0.9, size=shape + (1,))
        k, l = kl(), kl()
        fa = rng.choice([-1, 1], size=shape + (1,)) * 10 ** rng.uniform(-1, 1, size=shape + (1,))
        fb = rng.choice([-1, 1], size=shape + (1,)) * 10 ** rng.uniform(-1, 1, size=shape + (1,))
        if t % 3 != 1 and t % 2 == 0:
            # structured inputs: Klein coordinates on the dyadic lattice (1/4)Z^n (origin, axis points, orthogonal pairs) and
            # exact factors +-2^j: intermediate quantities such as <x,y> - <y,y> vanish exactly, which random reals never hit
            def lat():
                while True:
                    v = rng.integers(-3, 4, size=shape + (n,)) / 4.0
                    if np.all(np.sum(v * v, axis=-1) < 0.95):
                        return v
            while True:
                k, l = lat(), lat()
                if t % 4 == 0:
                    l = l * (rng.random(size=shape + (1,)) < 0.5)        # second endpoint at the origin for about half of the units
                if not np.any(np.all(k == l, axis=-1)):                  # distinct interior lattice points, unit by unit
                    break
            fa = rng.choice([-1, 1], size=shape + (1,)) * 2.0 ** rng.integers(-2, 3, size=shape + (1,))
            fb = rng.choice([-1, 1], size=shape + (1,)) * 2.0 ** rng.integers(-2, 3, size=shape + (1,))
        x, y = spec.k2proj(k), spec.k2proj(l)
        inp = {"n": n, "shape": list(shape), "k": k.tolist(), "l": l.tolist(), "fa": fa.tolist(), "fb": fb.tolist()}

        def body():
            A0, B0, A1, B1 = pt(x), pt(y), pt(fa * x), pt(fb * y)
            for m in ("klein", "poincare", "halfspace"):
                if not np.all(np.abs(A1.coords(m) - A0.coords(m)) <= 1e-7 * (1 + np.max(np.abs(A0.coords(m))))):
                    rep.fail("coords_rescaling", m, inp)
            if not np.all(np.abs(A1.distance(B1) - A0.distance(B0)) <= 1e-7):
                rep.fail("distance_rescaling", "", inp)
            # fresh Point objects: distance / coords may renormalise a Point's own representative in place
            S0, S1 = h.Segment(pt(x), pt(y)), h.Segment(pt(fa * x), pt(fb * y))
            i0, i1 = np.sort(S0.ideal_endpoint_coords("klein"), axis=-2), np.sort(S1.ideal_endpoint_coords("klein"), axis=-2)
            if not np.all(np.abs(i0 - i1) <= 1e-6):
                rep.fail("ideal_endpoints_rescaling", "", inp)
            d = A0.distance(B0)
            z0 = A0.unit_tangent_towards(B0).point_along(d).coords("klein")
            tv1 = A1.unit_tangent_towards(B1)
            z1 = tv1.point_along(d).coords("klein")
            z2 = tv1.normalized().point_along(d).coords("klein")
            if not np.all(np.abs(z0 - l) <= 1e-6) or not np.all(np.abs(z1 - l) <= 1e-6) or not np.all(np.abs(z2 - l) <= 1e-6):
                rep.fail("tangent_direction_rescaling", "following the tangent towards q does not arrive at q for rescaled representatives", inp)
            tv0 = A0.unit_tangent_towards(B0)
            M0 = tv0.origin_to().proj_data
            M1 = h.TangentVector(fa * tv0.point, fa * tv0.vector).origin_to().proj_data
            if n == 2 and not np.all(np.abs(M0 - M1) <= 1e-7):
                rep.fail("origin_to_rescaling", "", inp)
            ang0 = tv0.angle(A0.unit_tangent_towards(pt(spec.k2proj(kl()))))
            if shape == ():
                Pg0 = h.Polygon(h.Point(np.stack([x, y, spec.k2proj(kl())])))
                Pg1 = h.Polygon(h.Point(np.stack([fa * x, fb * y, Pg0.proj_data[2] * -2.5])))
                if not np.all(np.abs(Pg0.get_vertices().coords("poincare") - Pg1.get_vertices().coords("poincare")) <= 1e-7):
                    rep.fail("polygon_rescaling", "", inp)
                e0, e1 = (np.sort(Pg.get_edges().ideal_endpoint_coords("klein"), axis=-2) for Pg in (Pg0, Pg1))
                if not np.all(np.abs(e0 - e1) <= 1e-6):
                    rep.fail("polygon_edges_rescaling", "ideal endpoints of the polygon's edges", inp)
        rep.attempt("rescaling_runs", inp, body)
        rep.case(key=(t,), nontrivial=bool(np.any(fa < 0) or np.any(fb < 0)), sample=inp if t == 0 else None)
        # points far from the origin (hyperbolic distance 6..11): their x_0 = 1 representative has a tiny Minkowski norm, which no
        # absolute threshold may mistake for a null vector, whatever the scale of the representative
        dfar = rng.uniform(6, 11, size=shape + (1,))
        ufar = rng.normal(size=shape + (n,)); ufar /= np.linalg.norm(ufar, axis=-1, keepdims=True)
        xf = spec.k2proj(np.tanh(dfar) * ufar)
        inpf = {"n": n, "shape": list(shape), "distance_from_origin": dfar.tolist(), "fa": fa.tolist(), "fb": fb.tolist()}

        def far():
            O_ = pt(spec.k2proj(np.zeros(shape + (n,))))
            d0 = O_.distance(pt(xf))
            d1 = pt(fb * spec.k2proj(np.zeros(shape + (n,)))).distance(pt(fa * xf))
            if not np.all(np.abs(d0 - dfar[..., 0]) <= 1e-5 * dfar[..., 0]) or not np.all(np.abs(d1 - d0) <= 1e-5 * dfar[..., 0]):
                rep.fail("distance_rescaling", f"far point: d = {np.asarray(d0).tolist()}, rescaled {np.asarray(d1).tolist()}, expected {dfar[..., 0].tolist()}", inpf); return
            hy = pt(fa * xf).coords("hyperboloid")
            qh = np.einsum('...i,ij,...j->...', hy, spec.J(n + 1), hy)
            if not np.all(np.abs(qh + 1) <= 1e-6):
                rep.fail("coords_rescaling", f"hyperboloid coordinates of a far point have Minkowski norm {np.asarray(qh).tolist()}", inpf)
        rep.attempt("rescaling_runs", inpf, far)
        rep.case(key=(t, "far"), nontrivial=True)
        if n == 2 and shape == ():
            # boundary arcs between two ideal points: the arc (ordered endpoints, Poincare circle and angles) does not depend on
            # the representatives of its endpoints
            t1, t2 = rng.uniform(0, 2 * np.pi, 2)
            if abs(np.sin((t1 - t2) / 2)) > 0.05:
                u1, u2 = np.array([1.0, np.cos(t1), np.sin(t1)]), np.array([1.0, np.cos(t2), np.sin(t2)])
                inpa = {"angles": [t1, t2], "factors": [float(fa.ravel()[0]), float(fb.ravel()[0])]}

                def arcs():
                    A0 = h.BoundaryArc(h.IdealPoint(u1.copy()), h.IdealPoint(u2.copy()))
                    A1 = h.BoundaryArc(h.IdealPoint(float(fa.ravel()[0]) * u1), h.IdealPoint(float(fb.ravel()[0]) * u2))
                    e0, e1 = A0.endpoint_coords("klein"), A1.endpoint_coords("klein")
                    if not np.all(np.abs(e0 - e1) <= 1e-7):
                        rep.fail("boundary_arc_rescaling", f"ordered endpoints {e1.tolist()} vs {e0.tolist()}", inpa); return
                    c0, c1 = A0.circle_parameters(degrees=False), A1.circle_parameters(degrees=False)
                    for a_, b_ in zip(c0, c1):
                        if not np.all(np.abs(np.asarray(a_, dtype=float) - np.asarray(b_, dtype=float)) <= 1e-7 * (1 + np.max(np.abs(np.asarray(a_, dtype=float))))):
                            rep.fail("boundary_arc_rescaling", f"circle parameters {c1} vs {c0}", inpa); return
                rep.attempt("boundary_arc_runs", inpa, arcs)
                rep.case(key=(t, "arc"), nontrivial=True)


@bounded(P, "representatives_with_lightlike_difference", functions=[H + "Segment._compute_aux_data", H + "Segment.circle_parameters", H + "Polygon.__init__"],
         note="representatives x, y of two distinct points whose difference x - y is lightlike (the segment quadratic in the parameter mu x + (1-mu) y loses its leading coefficient)")
def representatives_with_lightlike_difference(tier, rng, rep):
    rep.rule = ("integer representatives y = x + s n with n a rational null vector (Pythagorean triples / quadruples), n = 2, 3: <x - y, x - y> = 0 exactly; "
                "ideal endpoints and Poincare circle compared with the same segment given by Klein coordinates")
    nulls = {2: [(5, 3, 4), (5, -4, 3), (13, 5, -12), (1, 1, 0), (1, 0, -1), (17, -8, -15)], 3: [(3, 1, 2, 2), (7, 2, 3, -6), (9, -4, 4, 7), (1, 0, 0, 1)]}
    N = 120 if tier == 'thorough' else 30
    rep.bound = f"{N} segments per dimension"
    for n in (2, 3):
        for t in range(N):
            nv = np.array(nulls[n][t % len(nulls[n])], dtype=float)
            while True:
                sp = rng.integers(-3, 4, size=n)
                x = np.concatenate([[int(np.sum(np.abs(sp))) + 1 + int(rng.integers(0, 3))], sp]).astype(float)
                if x @ spec.J(n + 1) @ x < 0:
                    break
            y = x + float(rng.integers(1, 4)) * nv
            if t % 3 == 0:
                x, y = y, x
            if t % 4 == 1:
                y = -y          # then x + y is lightlike instead; the other sheet is the same point
            inp = {"n": n, "x": x.tolist(), "y": y.tolist()}

            def body():
                S1 = h.Segment(pt(x), pt(y))
                S0 = h.Segment(h.Point((x[1:] / x[0]).copy(), model="klein"), h.Point((y[1:] / y[0]).copy(), model="klein"))
                i0, i1 = S0.ideal_endpoint_coords("klein"), S1.ideal_endpoint_coords("klein")
                if not np.all(np.abs(i0 - i1) <= 1e-7):
                    rep.fail("ideal_endpoints_rescaling", f"{i1.tolist()} vs {i0.tolist()}", inp); return
                (c0, r0), (c1, r1) = S0.sphere_parameters(model=h.Model.POINCARE), S1.sphere_parameters(model=h.Model.POINCARE)
                if np.all(np.isfinite(c0)) and (not np.all(np.abs(c0 - c1) <= 1e-7 * (1 + np.abs(r0))) or not np.all(np.abs(r0 - r1) <= 1e-7 * (1 + np.abs(r0)))):
                    rep.fail("circle_rescaling", f"{c1}, {r1} vs {c0}, {r0}", inp)
            rep.attempt("segment_runs", inp, body)
            rep.case(key=(n, t), nontrivial=True, sample=inp if t == 0 else None)


@bounded(P, "array_layouts", functions=[H + "Point.__init__", H + "Point.coords", H + "kleinian_to_poincare", H + "poincare_to_kleinian", H + "poincare_to_halfspace", H + "halfspace_to_poincare",
                                        H + "Point.distance"],
         note="the same coordinates supplied as arrays that are equal element by element but differ in memory layout (C order, Fortran order, transposed / axis-swapped views, "
              "strided and reversed slices, nested lists): the constructed points and every model coordinate agree with the textbook chart maps")
def array_layouts(tier, rng, rep):
    from contracts import spec
    N = 12 if tier == 'thorough' else 3
    shapes = [(), (5,), (3, 4), (2, 3, 4), (3, 3), (1, 4)]
    rep.rule = ("Klein coordinates k (|k| < 0.95) of composite shapes (), (5,), (3,4), (2,3,4), (3,3), (1,4), n = 2, 3; each given in model m in {klein, poincare, halfspace, hyperboloid, projective} "
                "through 7 layouts; outputs: coords in all 5 models, distance to a fixed point; oracle: contracts/spec.py chart maps; non-trivial = layout whose leading axes cannot be merged without a copy")
    rep.bound = f"{N} rounds x {len(shapes)} shapes x 5 models x 7 layouts"

    def layouts(a):
        out = {"c_order": np.ascontiguousarray(a), "nested_list": a.tolist(), "fortran_order": np.asfortranarray(a)}
        if a.ndim >= 2:
            out["coordinate_first_transposed"] = np.ascontiguousarray(np.moveaxis(a, -1, 0)).T if a.ndim == 2 else np.moveaxis(np.ascontiguousarray(np.moveaxis(a, -1, 0)), 0, -1)
            big = np.zeros(a.shape[:-1] + (2 * a.shape[-1],)); big[..., ::2] = a
            out["strided_slice"] = big[..., ::2]
            out["reversed_view"] = np.ascontiguousarray(a[::-1])[::-1]
        if a.ndim >= 3:
            out["swapped_axes_view"] = np.ascontiguousarray(np.swapaxes(a, 0, 1)).swapaxes(0, 1)
        return out
    for t in range(N):
        for shape in shapes:
            n = 2 + (t + len(shape)) % 2
            d = rng.normal(size=shape + (n,))
            k = d / np.linalg.norm(d, axis=-1, keepdims=True) * rng.uniform(0.05, 0.95, size=shape + (1,))
            q = h.Point(np.full(n, 0.1), model="klein")
            for m in spec.MODELS:
                given = np.asarray(spec.from_klein(k, m), dtype=float)
                for lname, arr in layouts(given).items():
                    inp = {"model_of_input": m, "layout": lname, "shape": list(shape), "n": n, "klein_coordinates": k.tolist()}
                    nontriv = isinstance(arr, np.ndarray) and arr.ndim >= 3 and not arr.flags['C_CONTIGUOUS']

                    def body():
                        keep = np.array(arr, copy=True) if isinstance(arr, np.ndarray) else None
                        p = h.Point(arr, model=m)
                        for mo in spec.MODELS:
                            got = np.asarray(p.coords(mo), dtype=float)
                            want = np.asarray(spec.from_klein(k, mo), dtype=float)
                            if mo == "projective":
                                got, want = got / got[..., :1], want / want[..., :1]
                            if got.shape != want.shape or not np.all(np.abs(got - want) <= 1e-7 * (1 + np.abs(want))):
                                rep.fail("same_point_for_every_layout", f"input as {m} / {lname}: {mo} coordinates differ from the chart map by {np.max(np.abs(got - want)) if got.shape == want.shape else 'shape'}",
                                         {**inp, "output_model": mo}); return
                        dd = np.asarray(p.distance(q), dtype=float)
                        wd = np.arccosh(np.maximum(1, spec.cosh_d_klein(k, np.full(n, 0.1))))
                        if dd.shape != wd.shape or not np.all(np.abs(dd - wd) <= 1e-6):
                            rep.fail("same_distance_for_every_layout", f"input as {m} / {lname}", inp); return
                        if keep is not None and not np.array_equal(keep, arr):
                            rep.fail("caller_array_unchanged", f"input as {m} / {lname}", inp)
                    rep.attempt("entry_point_runs", inp, body)
                    rep.case(key=(t, shape, m, lname), nontrivial=nontriv, sample=inp if (t, shape, m, lname) == (0, (3, 4), "poincare", "fortran_order") else None)
                    if len(rep.failures) >= 3:
                        return


@bounded(P, "rescaled_tangent_vectors", functions=[H + "TangentVector.angle", H + "TangentVector.normalized", H + "TangentVector.point_along", H + "TangentVector.origin_to", H + "project_to_hyperboloid"],
         note="tangent vectors whose units (x, v) are multiplied by independent non-zero factors (both signs; the two operands of angle() by different factors): the angle, the point reached "
              "along the vector and the isometry built from it do not change; ground truth: vectors (0, cos a, sin a), (0, cos b, sin b) at the origin make the angle |a - b|, isometries preserve it")
def rescaled_tangent_vectors(tier, rng, rep):
    N = 150 if tier == 'thorough' else 40
    rep.rule = "n = 2, 3; tangent vectors at the origin moved by a random isometry; factors in +-[0.1, 10], independent per operand and per unit; single vectors and composites of 3; vectors of non-unit length and with a component along the basepoint"
    rep.bound = f"{N} pairs x 4 factor patterns"
    for t in range(N):
        n = 2 + t % 2
        shape = () if t % 3 else (3,)
        a, b = rng.uniform(0, 2 * np.pi, size=shape), rng.uniform(0, 2 * np.pi, size=shape)
        theta = np.abs(((a - b) + np.pi) % (2 * np.pi) - np.pi)
        def vec(ang):
            out = np.zeros(shape + (n + 1,)); out[..., 1], out[..., 2] = np.cos(ang), np.sin(ang)
            return out
        g = h.Point((lambda w: w / np.linalg.norm(w) * rng.uniform(0.1, 0.8))(rng.normal(size=n)), model="klein").origin_to() @ h.Isometry.standard_rotation(rng.uniform(0, 6), dimension=n)
        Mg = np.asarray(g.proj_data, dtype=float)
        o = np.zeros(shape + (n + 1,)); o[..., 0] = 1
        x, v1, v2 = o @ Mg, vec(a) @ Mg, vec(b) @ Mg
        for pattern in ("unit", "positive", "mixed_signs", "with_basepoint_component"):
            if pattern == "unit":
                c1 = c2 = np.ones(shape + (1,))
            elif pattern == "positive":
                c1, c2 = 10 ** rng.uniform(-1, 1, size=shape + (1,)), 10 ** rng.uniform(-1, 1, size=shape + (1,))
            else:
                c1 = rng.choice([-1, 1], size=shape + (1,)) * 10 ** rng.uniform(-1, 1, size=shape + (1,))
                c2 = rng.choice([-1, 1], size=shape + (1,)) * 10 ** rng.uniform(-1, 1, size=shape + (1,))
            w1, w2 = v1.copy(), v2.copy()
            if pattern == "with_basepoint_component":
                w1, w2 = 2.0 * v1 + 0.7 * x, 0.3 * v2 - 1.1 * x
            inp = {"n": n, "shape": list(shape), "pattern": pattern, "factors": [c1.ravel().tolist(), c2.ravel().tolist()], "angle": np.asarray(theta).tolist()}

            def body():
                T1 = h.TangentVector(h.Point((c1 * x).copy()), (c1 * w1).copy())
                T2 = h.TangentVector(h.Point((c2 * x).copy()), (c2 * w2).copy())
                got = np.asarray(T1.angle(T2), dtype=float)
                if got.shape != np.shape(theta) or not np.all(np.abs(got - theta) <= 1e-6):
                    rep.fail("angle_independent_of_representatives", f"{pattern}: angle {got.tolist()}, the vectors make the angle {np.asarray(theta).tolist()}", inp); return
                got2 = np.asarray(T2.angle(T1), dtype=float)
                if not np.all(np.abs(got2 - theta) <= 1e-6):
                    rep.fail("angle_independent_of_representatives", f"{pattern}: angle with the operands exchanged {got2.tolist()} vs {np.asarray(theta).tolist()}", inp); return
                # the point reached along the (rescaled) vector
                ref = h.TangentVector(h.Point(x.copy()), v1.copy()).point_along(0.8).coords("klein")
                y = T1.point_along(0.8).coords("klein") if pattern != "with_basepoint_component" else h.TangentVector(h.Point((c1 * x).copy()), (c1 * v1).copy()).point_along(0.8).coords("klein")
                if not np.all(np.abs(np.asarray(y) - np.asarray(ref)) <= 1e-7):
                    rep.fail("point_along_independent_of_representatives", f"{pattern}", inp); return
            rep.attempt("entry_point_runs", inp, body)
            rep.case(key=(t, pattern), nontrivial=pattern != "unit", sample=inp if (t, pattern) == (0, "mixed_signs") else None)
            if len(rep.failures) >= 3:
                return


@bounded(P, "rescaled_horosphere_intersections", functions=[H + "Horosphere.intersect_geodesic", H + "Horosphere.__init__", H + "Segment._compute_aux_data"],
         note="horosphere / geodesic intersection points under independent rescaling of the two points spanning the geodesic, of the horosphere's centre and of its reference point "
              "(factors of both signs, equal and very different magnitudes): the same two points, each on the geodesic and on the horosphere")
def rescaled_horosphere_intersections(tier, rng, rep):
    N = 100 if tier == 'thorough' else 25
    patterns = [(1, 1, 1, 1), (2, 0.5, 1, 1), (1, -1, 1, 1), (-1, 1, 1, 1), (-2, -3, 1, 1), (0.3, -7, 1, 1), (1, 1, -2, 1), (1, 1, 1, -0.5), (-1, 1, -3, -2), (1e3, -1e3, 1, 1)]
    rep.rule = "n = 2, 3; geodesic through two interior points meeting the horosphere twice; factor patterns (a, b, c, d) on (p, q, centre, reference): " + ", ".join(map(str, patterns))
    rep.bound = f"{N} configurations x {len(patterns)} patterns"
    for t in range(N):
        n = 2 + t % 2
        while True:
            cdir = rng.normal(size=n); cdir /= np.linalg.norm(cdir)
            refk = rng.normal(size=n); refk = refk / np.linalg.norm(refk) * rng.uniform(0.0, 0.5)
            pk, qk = (lambda v: v / np.linalg.norm(v) * rng.uniform(0.1, 0.9))(rng.normal(size=n)), (lambda v: v / np.linalg.norm(v) * rng.uniform(0.1, 0.9))(rng.normal(size=n))
            cen, ref, p, q = np.concatenate([[1.0], cdir]), spec.k2proj(refk), spec.k2proj(pk), spec.k2proj(qk)
            with np.errstate(all='ignore'):
                base = np.asarray(h.Horosphere(h.IdealPoint(cen.copy()), h.Point(ref.copy())).intersect_geodesic(h.Point(p.copy()), h.Point(q.copy())).coords("klein"), dtype=float)
            if base.shape == (2, n) and np.all(np.isfinite(base)) and np.linalg.norm(base[0] - base[1]) > 0.05 and np.all(np.linalg.norm(base, axis=-1) < 0.97):      # (well-conditioned: away from the boundary)
                break
        # semantic facts about the reference answer: on the Klein line through p, q and at the reference point's horospherical level
        lvl = lambda k_: (1 - k_ @ cdir) / np.sqrt(1 - k_ @ k_)
        inp0 = {"n": n, "p": p.tolist(), "q": q.tolist(), "centre": cen.tolist(), "reference": ref.tolist()}
        for x in base:
            if np.linalg.matrix_rank(np.stack([qk - pk, x - pk]), tol=1e-7) > 1 or abs(lvl(x) - lvl(refk)) > 1e-6 * (1 + lvl(refk)):
                rep.fail("intersection_points_on_both", f"{x.tolist()}", inp0)
        for pat in patterns:
            a, b, c, d = pat
            inp = {**inp0, "factors": list(pat)}

            def body():
                with np.errstate(all='ignore'):
                    got = np.asarray(h.Horosphere(h.IdealPoint(c * cen), h.Point(d * ref)).intersect_geodesic(h.Point(a * p), h.Point(b * q)).coords("klein"), dtype=float)
                ok = got.shape == base.shape and np.all(np.isfinite(got)) and (np.all(np.abs(got - base) <= 1e-6) or np.all(np.abs(got - base[::-1]) <= 1e-6))
                if not ok:
                    rep.fail("intersection_independent_of_representatives", f"factors {pat}: {got.tolist()} vs {base.tolist()}", inp)
            rep.attempt("entry_point_runs", inp, body)
            rep.case(key=(t, pat), nontrivial=min(pat) < 0, sample=inp if (t, pat) == (0, (1, -1, 1, 1)) else None)
            if len(rep.failures) >= 3:
                return


@bounded(P, "rescaled_isometry_matrices", functions=[H + "Isometry._fixpoint_data", H + "Isometry.fixed_point", H + "Isometry.fixed_point_pair", H + "Isometry.axis", "geometry_tools/projective.py:Transformation.apply"],
         note="an isometry given by the matrix c M for any non-zero c (negative included) is the same projective map: images of points, fixed points of loxodromics (attracting first), "
              "fixed points of elliptics and the axis do not depend on c")
def rescaled_isometry_matrices(tier, rng, rep):
    N = 80 if tier == 'thorough' else 20
    rep.rule = "n = 2, 3; conjugated standard loxodromics (parameter 1.5..6 and its inverse) and rotations; factors 1, -1, -0.3, 2.5, -6.5; single and composite (3,)"
    rep.bound = f"{N} isometries x 5 factors"
    for t in range(N):
        n = 2 + t % 2
        kind = "loxodromic" if t % 3 else "elliptic"
        shape = () if t % 2 else (3,)
        mats = []
        for _ in range(int(np.prod(shape)) or 1):
            C = h.Point((lambda w: w / np.linalg.norm(w) * rng.uniform(0.1, 0.8))(rng.normal(size=n)), model="klein").origin_to()
            base = h.Isometry.standard_loxodromic(n, float(rng.uniform(1.5, 6) ** rng.choice([-1, 1]))) if kind == "loxodromic" else h.Isometry.standard_rotation(rng.uniform(0.4, 2.7), dimension=n)
            mats.append(np.asarray((C @ base @ C.inv()).proj_data, dtype=float))
        M = np.array(mats).reshape(shape + (n + 1, n + 1))
        x = rng.normal(size=n); x = x / np.linalg.norm(x) * 0.4

        def proj_same(a, b):
            a, b = np.asarray(a, dtype=float), np.asarray(b, dtype=float)
            if a.shape != b.shape or not np.all(np.isfinite(a)):
                return False
            m = a[..., :, None] * b[..., None, :]
            return bool(np.all(np.abs(m - np.swapaxes(m, -1, -2)) <= 1e-6 * np.maximum(1e-300, np.max(np.abs(m), axis=(-1, -2), keepdims=True))))
        ref_iso = h.Isometry(M.copy())
        ref = {"image": (ref_iso @ h.Point(x.copy(), model="klein")).proj_data}
        if kind == "loxodromic":
            ref["fixed_point"] = ref_iso.fixed_point().proj_data
            ref["fixed_point_pair"] = ref_iso.fixed_point_pair().proj_data
            ref["axis"] = ref_iso.axis().proj_data
        elif n == 2:
            ref["fixed_point"] = ref_iso.fixed_point().proj_data
        for c in (1.0, -1.0, -0.3, 2.5, -6.5):
            inp = {"n": n, "kind": kind, "shape": list(shape), "factor": c, "matrix": M.tolist()}

            def body():
                T = h.Isometry((c * M).copy())
                got = {"image": (T @ h.Point(x.copy(), model="klein")).proj_data}
                if "fixed_point" in ref:
                    got["fixed_point"] = T.fixed_point().proj_data
                if "fixed_point_pair" in ref:
                    got["fixed_point_pair"] = T.fixed_point_pair().proj_data
                    got["axis"] = T.axis().proj_data
                for key in ref:
                    if not proj_same(got[key], ref[key]):
                        rep.fail("same_projective_map_for_every_factor", f"{kind}, matrix multiplied by {c}: {key} differs (attracting / repelling endpoints exchanged?)", {**inp, "output": key}); return
            rep.attempt("entry_point_runs", inp, body)
            rep.case(key=(t, c), nontrivial=c < 0, sample=inp if (t, c) == (1, -1.0) else None)
            if len(rep.failures) >= 3:
                return
