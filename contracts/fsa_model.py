"""Set-based reference model of finite-state automata (spec side of C06, C07, C09, C10; DESIGN.md appendix A.4).
Independent of geometry_tools: an automaton is (V, E) with E a set of labelled edges (v, label, w), functional in (v, label)."""
import itertools
from collections import deque


class Model:
    def __init__(self, vertices=(), edges=()):
        self.V = set(vertices)
        self.E = set(edges)

    @classmethod
    def from_graph_dict(cls, d):
        m = cls()
        for v, nb in d.items():
            m.V.add(v)
            for l, w in nb.items():
                m.V.add(w)
                m.E.add((v, l, w))
        return m

    @classmethod
    def from_out_dict(cls, d):
        m = cls()
        for v, nb in d.items():
            m.V.add(v)
            for w, labels in nb.items():
                for l in labels:
                    m.E.add((v, l, w))
        return m

    def copy(self):
        return Model(self.V, self.E)

    def add_vertices(self, vs):
        self.V |= set(vs)

    def add_edge(self, v, w, l):
        self.V |= {v, w}
        self.E.add((v, l, w))

    def delete_vertex(self, v):
        self.V.discard(v)
        self.E = {e for e in self.E if e[0] != v and e[2] != v}

    def rename(self, mp):
        self.E = {(v, mp[l], w) for (v, l, w) in self.E}

    def step(self, v, l):
        for (a, b, c) in self.E:
            if a == v and b == l:
                return c
        return None

    def follow(self, start, word):
        """delta*: word is a sequence of labels; None if undefined"""
        v = start
        for l in word:
            v = self.step(v, l)
            if v is None:
                return None
        return v

    def paths(self, start, n):
        """list of (label sequence, end vertex) for all paths of length n from start (one per path)"""
        out = [((), start)]
        for _ in range(n):
            nxt = []
            for w, v in out:
                for (a, l, b) in sorted(self.E, key=repr):
                    if a == v:
                        nxt.append((w + (l,), b))
            out = nxt
        return out

    def recurrent_vertices(self):
        """greatest set S of vertices such that every vertex of S has an in-edge and an out-edge inside S"""
        S = set(self.V)
        changed = True
        while changed:
            changed = False
            for v in list(S):
                has_out = any(a == v and b in S for (a, _, b) in self.E)
                has_in = any(b == v and a in S for (a, _, b) in self.E)
                if not (has_out and has_in):
                    S.discard(v)
                    changed = True
        return S

    def distances(self, root):
        dist = {root: 0}
        q = deque([root])
        while q:
            v = q.popleft()
            for (a, _, b) in self.E:
                if a == v and b not in dist:
                    dist[b] = dist[v] + 1
                    q.append(b)
        return dist


def views(F):
    """the three edge multisets and vertex sets the real FSA object stores"""
    g = [(v, l, w) for v, nb in F._graph_dict.items() for l, w in nb.items()]
    o = [(v, l, w) for v, nb in F._out_dict.items() for w, labels in nb.items() for l in labels]
    i = [(v, l, w) for w, nb in F._in_dict.items() for v, labels in nb.items() for l in labels]
    return g, o, i


def coherence_error(F, model=None):
    """None if the label / outgoing / incoming views describe the same labelled edges on the same vertex set, no edge
    twice, the label view is a plain mapping, and (if given) they equal the model's edge set"""
    g, o, i = views(F)
    Vg, Vo = set(F._graph_dict), set(F._out_dict)
    if Vg != Vo:
        return f"vertex sets differ: label view {sorted(map(repr, Vg))} vs outgoing view {sorted(map(repr, Vo))}"
    if not set(F._in_dict) <= Vo:
        return f"incoming view has foreign vertices {sorted(map(repr, set(F._in_dict) - Vo))}"
    for name, lst in (("label", g), ("outgoing", o), ("incoming", i)):
        if len(lst) != len(set(lst)):
            dup = sorted({e for e in lst if lst.count(e) > 1}, key=repr)
            return f"{name} view lists edges twice: {dup}"
    if set(g) != set(o):
        return f"label view and outgoing view differ: {sorted(set(g) ^ set(o), key=repr)}"
    if set(o) != set(i):
        return f"outgoing view and incoming view differ: {sorted(set(o) ^ set(i), key=repr)}"
    for (v, l, w) in g:
        if w not in Vo:
            return f"edge {(v, l, w)} points to a vertex that is not in the vertex set"
    # the label view is a plain mapping: a missing label raises KeyError and inserts nothing
    for v, nb in F._graph_dict.items():
        n_before = len(nb)
        try:
            nb["__no_such_label__"]
            return f"label view of vertex {v!r} does not raise KeyError on a missing label"
        except KeyError:
            pass
        if len(nb) != n_before:
            return f"reading a missing label of vertex {v!r} inserted an entry"
    if model is not None:
        if Vo != model.V:
            return f"vertex set {sorted(map(repr, Vo))} differs from the model's {sorted(map(repr, model.V))}"
        if set(g) != model.E:
            return f"edge set differs from the model: extra {sorted(set(g) - model.E, key=repr)} missing {sorted(model.E - set(g), key=repr)}"
    return None


def all_deterministic_automata(nstates, labels):
    """every graph_dict on states 0..nstates-1 over the labels (each (state,label) -> a state or undefined)"""
    slots = [(s, l) for s in range(nstates) for l in labels]
    for choice in itertools.product([None] + list(range(nstates)), repeat=len(slots)):
        d = {s: {} for s in range(nstates)}
        for (s, l), t in zip(slots, choice):
            if t is not None:
                d[s][l] = t
        yield d
