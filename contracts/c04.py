"""C04 - a composite object behaves exactly like an array of its unit objects (DESIGN.md section 3, C04)."""
import itertools
import numpy as np
from vf.api import rcontract, bounded
from geometry_tools import projective as pr, hyperbolic as h, utils, lie
from contracts import spec

P = "C04"
U = "geometry_tools/utils/core.py:"
PR = "geometry_tools/projective.py:"
HY = "geometry_tools/hyperbolic.py:"


def _shapes(extents, maxrank=2):
    out = [()]
    for r in range(1, maxrank + 1):
        out += list(itertools.product(extents, repeat=r))
    return out


def _bcast(s1, s2):
    try:
        return np.broadcast_shapes(s1, s2)
    except ValueError:
        return None


def _mp_instances(extents):
    insts = []
    shs = _shapes(extents)
    for u1 in (1, 2, 3):
        for mode in ("elementwise", "pairwise", "pairwise_reversed"):
            for s1 in shs:
                for s2 in shs:
                    if mode == "elementwise" and _bcast(s1, s2) is None:
                        continue
                    if len(s1) + len(s2) > 3:
                        continue
                    insts.append(dict(u1=u1, mode=mode, s1=s1, s2=s2))
    return insts


Q = _mp_instances((1, 2))
T = [i for i in _mp_instances((1, 2, 3)) if i not in Q]
# keep the quick tier light: unit ranks 1 and 2 for all shapes, unit rank 3 on a sample
Q = [i for i in Q if i["u1"] < 3 or (len(i["s1"]) + len(i["s2"]) <= 2)]


def _unit_prod(a, b):
    """NumPy @ on the unit axes after expand_unit_axes: a has u1 unit axes, b has 2"""
    if a.ndim == 1:
        return a @ b
    return a @ b


@rcontract(P, "matrix_product", instances=Q, thorough=T, functions=[U + "matrix_product", U + "expand_unit_axes", U + "squeeze_excess"], bounded_n=(3, 6))
def matrix_product(ctx, u1, mode, s1, s2):
    """entrywise contract of the unit-aware batched product (u2 = 2):
    elementwise: out[broadcast(I,K)] = a[I] . b[K];  pairwise: out[I ++ K] = a[I] . b[K];  pairwise_reversed: out[K ++ I]"""
    d = 2
    ctx.world and setattr(ctx.world, 'ngen_limit', 400)
    unit1 = (d,) * u1
    a = ctx.reals('a', tuple(s1) + unit1)
    b = ctx.reals('b', tuple(s2) + (d, d))
    out = utils.matrix_product(a, b, u1, 2, broadcast=mode)
    s1, s2 = tuple(s1), tuple(s2)
    if mode == "elementwise":
        outer = _bcast(s1, s2)
    elif mode == "pairwise":
        outer = s1 + s2
    else:
        outer = s2 + s1
    ctx.ensure_true('shape', out.shape == outer + unit1, f"{out.shape} vs {outer + unit1}")
    if out.shape != outer + unit1:
        return
    want = np.empty(outer + unit1, dtype=object if ctx.mode == 'sym' else float)
    for idx in np.ndindex(*outer):
        if mode == "elementwise":
            i1 = tuple(0 if s1[len(s1) - len(outer) + k] == 1 else idx[k] for k in range(len(outer) - len(s1), len(outer))) if s1 else ()
            i1 = tuple((0 if s1[j] == 1 else idx[len(outer) - len(s1) + j]) for j in range(len(s1)))
            i2 = tuple((0 if s2[j] == 1 else idx[len(outer) - len(s2) + j]) for j in range(len(s2)))
        elif mode == "pairwise":
            i1, i2 = idx[:len(s1)], idx[len(s1):]
        else:
            i2, i1 = idx[:len(s2)], idx[len(s2):]
        want[idx] = a[i1] @ b[i2]
    ctx.ensure_eq('entries', out, want)


OBJ = {"Point": (pr.Point, 1), "Polygon": (pr.Polygon, 2)}


@rcontract(P, "apply_broadcast", instances=[dict(cls=c, mode=m, so=so, st=st) for c in ("Point", "Polygon") for m, so, st in
                                            (("elementwise", (2,), (2,)), ("elementwise", (2, 1), (3,)), ("elementwise", (), (2,)),
                                             ("pairwise", (2,), (3,)), ("pairwise", (2,), (2,)), ("pairwise", (), (2,)), ("pairwise", (2, 1), ()),
                                             ("pairwise_reversed", (2,), (3,)))],
           functions=[PR + "Transformation.apply", PR + "Transformation._apply_to_data", U + "matrix_product", PR + "ProjectiveObject.__getitem__", PR + "ProjectiveObject.shape"])
def apply_broadcast(ctx, cls, mode, so, st):
    """pairwise: result[i][j] = T[j] @ X[i] (object axes first); elementwise: NumPy broadcasting of the composite shapes"""
    ctx.world and setattr(ctx.world, 'ngen_limit', 400)
    n = 2
    ctor, unit = OBJ[cls]
    so, st = tuple(so), tuple(st)
    ushape = (n + 1,) if unit == 1 else (3, n + 1)
    X = ctor(ctx.reals('X', so + ushape))
    Tm = pr.Transformation(ctx.reals('T', st + (n + 1, n + 1)))
    R = Tm.apply(X, broadcast=mode)
    outer = _bcast(so, st) if mode == "elementwise" else (so + st if mode == "pairwise" else st + so)
    ctx.ensure_true('type', type(R) is type(X))
    ctx.ensure_true('shape', R.shape == outer, f"{R.shape} vs {outer}")
    if R.shape != outer:
        return
    for idx in np.ndindex(*outer):
        if mode == "elementwise":
            io = tuple((0 if so[j] == 1 else idx[len(outer) - len(so) + j]) for j in range(len(so)))
            it = tuple((0 if st[j] == 1 else idx[len(outer) - len(st) + j]) for j in range(len(st)))
        elif mode == "pairwise":
            io, it = idx[:len(so)], idx[len(so):]
        else:
            it, io = idx[:len(st)], idx[len(st):]
        unit_res = pr.Transformation(Tm.proj_data[it]) @ ctor(X.proj_data[io])
        ctx.ensure_eq(f'unit{idx}', R.proj_data[idx], unit_res.proj_data)
        if unit == 2:
            ctx.ensure_eq(f'unit_aux{idx}', R.aux_data[idx], unit_res.aux_data)


@rcontract(P, "restructure", instances=[dict(cls="Point"), dict(cls="Polygon"), dict(cls="Segment")],
           functions=[PR + "ProjectiveObject.reshape", PR + "ProjectiveObject.flatten_to_unit", PR + "ProjectiveObject.__getitem__", PR + "ProjectiveObject.__len__",
                      PR + "ProjectiveObject._construct_from_object", PR + "ProjectiveObject.shape"])
def restructure(ctx, cls):
    """flattening, reshaping, indexing, iterating and stacking preserve the units and their order"""
    ctx.world and setattr(ctx.world, 'ngen_limit', 400)
    n = 2
    if cls == "Point":
        X = pr.Point(ctx.reals('X', (2, 3, n + 1)))
    elif cls == "Polygon":
        X = pr.Polygon(ctx.reals('X', (2, 3, 3, n + 1)))
    else:
        k = ctx.reals('X', (2, 3, 2, n), lambda r: r.uniform(-0.55, 0.55, (2, 3, 2, n)))
        ctx.assume(spec.nsq(k), '<', 1)
        ctx.assume(spec.nsq(k[..., 0, :] - k[..., 1, :]), '>', 0)
        X = h.Segment(h.Point(k, model="klein"))
    units = [X[i][j] for i in range(2) for j in range(3)]
    ctx.ensure_true('len', len(X) == 2 and len(X[0]) == 3)
    ctx.ensure_true('shape', X.shape == (2, 3))

    def same(tag, a, b):
        ctx.ensure_true(tag + '_type', type(a) is type(b))
        ctx.ensure_eq(tag + '_proj', a.proj_data, b.proj_data)
        if b.aux_data is not None:
            ctx.ensure_eq(tag + '_aux', a.aux_data, b.aux_data, tol=1e-6)
    flat = X.flatten_to_unit()
    ctx.ensure_true('flat_shape', flat.shape == (6,))
    for k_, u in enumerate(units):
        same(f'flatten{k_}', flat[k_], u)
    R = X.reshape((3, 2))
    ctx.ensure_true('reshape_shape', R.shape == (3, 2))
    for k_, u in enumerate(units):
        same(f'reshape{k_}', R[k_ // 2][k_ % 2], u)
    it = [u for row in X for u in row]
    for k_, u in enumerate(units):
        same(f'iterate{k_}', it[k_], u)
    S = type(X)([X[0], X[1]])
    ctx.ensure_true('stack_shape', S.shape == (2, 3))
    for k_, u in enumerate(units):
        same(f'stack{k_}', S[k_ // 3][k_ % 3], u)
    S2 = type(X)(units[:4])
    for k_ in range(4):
        same(f'stack_units{k_}', S2[k_], units[k_])


VEC_OPS = ["coords_poincare", "coords_halfspace", "coords_hyperboloid", "distance", "origin_to", "segment_aux", "circle_parameters_poincare",
           "circle_parameters_halfspace", "unit_tangent_towards"]


@rcontract(P, "vectorised_equals_per_unit", instances=[dict(op=o, shape=s) for o in VEC_OPS for s in ((2,),) if o != "circle_parameters_poincare"],
           thorough=[dict(op="circle_parameters_poincare", shape=(2,))] + [dict(op=o, shape=s) for o in VEC_OPS for s in ((1, 2),) if o != "circle_parameters_poincare"],
           timeout=150.0, max_paths=80,
           functions=[HY + "Point.coords", HY + "Point.distance", HY + "Point.origin_to", HY + "Segment._compute_aux_data", HY + "Segment.circle_parameters",
                      HY + "Subspace.sphere_parameters", HY + "Point.unit_tangent_towards", U + "find_isometry", U + "indefinite_orthogonalize"])
def vectorised_equals_per_unit(ctx, op, shape):
    """f(X)[i] = f(X[i]) for every vectorised geometric operation"""
    n = 2
    shape = tuple(shape)
    k = ctx.reals('k', shape + (n,), lambda r: r.uniform(-0.55, 0.55, shape + (n,)))
    l = ctx.reals('l', shape + (n,), lambda r: r.uniform(-0.55, 0.55, shape + (n,)))
    ctx.assume(spec.nsq(k), '<', 1)
    ctx.assume(spec.nsq(l), '<', 1)
    ctx.assume(spec.nsq(k - l), '>', 0)
    if op == "circle_parameters_poincare":      # geodesic not through the origin (otherwise a straight line: no circle)
        cr = k[..., 0] * l[..., 1] - k[..., 1] * l[..., 0]
        ctx.assume(cr * cr, '>', 0)
    if op == "circle_parameters_halfspace":     # neither ideal endpoint is the half-space point at infinity e_0
        cr = (k[..., 0] - 1) * l[..., 1] - k[..., 1] * (l[..., 0] - 1)
        ctx.assume(cr * cr, '>', 0)
    mk = lambda arr: h.Point(np.array(arr, copy=True), model="klein")

    def f(kk, ll):
        A, B = mk(kk), mk(ll)
        if op.startswith("coords_"):
            return [A.coords(op.split("_")[1])]
        if op == "distance":
            return [A.distance(B)]
        if op == "origin_to":
            return [A.origin_to().proj_data]
        if op == "segment_aux":
            S = h.Segment(A, B)
            return [S.proj_data, S.aux_data]
        if op.startswith("circle_parameters"):
            S = h.Segment(A, B)
            c, r, th = S.circle_parameters(model=op.split("_")[2], degrees=False)
            return [c, r * r, np.cos(th), np.sin(th)]
        if op == "unit_tangent_towards":
            tv = A.unit_tangent_towards(B)
            return [tv.proj_data, tv.aux_data]
    whole = f(k, l)
    for idx in np.ndindex(*shape):
        part = f(k[idx], l[idx])
        for j, (w_, p_) in enumerate(zip(whole, part)):
            ctx.ensure_eq(f'unit{idx}_{j}', np.asarray(w_)[idx], p_, tol=1e-6)


@rcontract(P, "isometries_from_homogeneous_points", instances=[dict(op="origin_to", shape=(2,))],
           thorough=[dict(op="origin_to", shape=(3,)), dict(op="origin_to", shape=(1, 2)), dict(op="tangent_origin_to", shape=(2,))], timeout=150.0, max_paths=80, bounded_n=(6, 30),
           functions=[HY + "Point.origin_to", U + "find_isometry", U + "indefinite_orthogonalize", U + "make_orientation_preserving", U + "normalize"])
def isometries_from_homogeneous_points(ctx, op, shape):
    """origin_to on a composite given by arbitrary timelike homogeneous representatives (either sheet, any scale, mixed
    within one composite: this is what applying O(n,1) elements produces): f(X)[i] = f(X[i])"""
    n = 2
    shape = tuple(shape)

    def samp(r):
        sp = r.uniform(-1, 1, shape + (n,)) / np.sqrt(n)
        t = r.uniform(1.2, 3, shape + (1,)) * r.choice([-1.0, 1.0], size=shape + (1,))
        return np.concatenate([t, sp], axis=-1) * r.uniform(0.5, 2, shape + (1,))
    x = ctx.reals('x', shape + (n + 1,), samp)
    ctx.assume(spec.mink(x, x), '<', 0)
    if op == "tangent_origin_to":
        v = ctx.reals('v', shape + (n + 1,))
        qx, bxv, qv = spec.mink(x, x), spec.mink(x, v), spec.mink(v, v)
        ctx.assume(qv * qx - bxv * bxv, '<', 0)       # the component of v tangent at x does not vanish
        f = lambda xx, vv: h.TangentVector(h.Point(np.array(xx, copy=True)), np.array(vv, copy=True)).origin_to().proj_data
        whole = f(x, v)
        ctx.ensure_true('shape', np.shape(whole) == shape + (n + 1, n + 1), f"{np.shape(whole)}")
        for idx in np.ndindex(*shape):
            ctx.ensure_eq(f'unit{idx}', np.asarray(whole)[idx], f(x[idx], v[idx]), tol=1e-6)
        return
    whole = h.Point(np.array(x, copy=True)).origin_to().proj_data
    ctx.ensure_true('shape', np.shape(whole) == shape + (n + 1, n + 1), f"{np.shape(whole)}")
    for idx in np.ndindex(*shape):
        part = h.Point(np.array(x[idx], copy=True)).origin_to().proj_data
        ctx.ensure_eq(f'unit{idx}', np.asarray(whole)[idx], part, tol=1e-6)


@bounded(P, "sampling", functions=[U + "matrix_product", PR + "Transformation.apply", HY + "Isometry._fixpoint_data", HY + "Isometry.fixed_point"],
         note="rank-3 composite shapes, all classes, fixed points (numpy.linalg.eig) per unit, random values")
def sampling(tier, rng, rep):
    N = 120 if tier == 'thorough' else 25
    rep.rule = "random composites of rank 0..3 with extents in {1,2,3}; three broadcast modes; fixed points of composite isometries vs per-unit; non-trivial = rank>=2 or size-1 axis"
    rep.bound = f"{N} rounds"
    for t in range(N):
        n = int(rng.integers(2, 4))
        r1, r2 = int(rng.integers(0, 3)), int(rng.integers(0, 2))
        so = tuple(int(x) for x in rng.integers(1, 4, size=r1))
        st = tuple(int(x) for x in rng.integers(1, 4, size=r2))
        X = pr.Polygon(rng.normal(size=so + (4, n + 1)))
        Tm = pr.Transformation(rng.normal(size=st + (n + 1, n + 1)))
        for mode in ("pairwise", "pairwise_reversed"):
            inp = {"so": list(so), "st": list(st), "mode": mode, "n": n}
            R = rep.attempt("apply_runs", inp, lambda: Tm.apply(X, broadcast=mode))
            if R is None:
                continue
            outer = so + st if mode == "pairwise" else st + so
            if R.shape != outer:
                rep.fail("pairwise_shape", f"{R.shape} vs {outer}", inp)
                continue
            for idx in np.ndindex(*outer):
                io, it = (idx[:len(so)], idx[len(so):]) if mode == "pairwise" else (idx[len(st):], idx[:len(st)])
                u = pr.Transformation(Tm.proj_data[it]) @ pr.Polygon(X.proj_data[io])
                if not np.all(np.abs(R.proj_data[idx] - u.proj_data) <= 1e-9) or not np.all(np.abs(R.aux_data[idx] - u.aux_data) <= 1e-9):
                    rep.fail("pairwise_entries", f"index {idx}", inp)
            rep.case(key=(t, mode), nontrivial=(len(outer) >= 2 or 1 in outer), sample=inp if t == 0 else None)
        # tangent vectors whose basepoints are arbitrary homogeneous representatives (mixed sheets within one composite):
        # origin_to / isometry_to / point_along unit by unit
        shpt = [(2,), (3,), (2, 2)][t % 3]
        sp_ = rng.uniform(-1, 1, shpt + (n,)) / np.sqrt(n)
        xt = np.concatenate([rng.uniform(1.2, 3, shpt + (1,)) * rng.choice([-1.0, 1.0], size=shpt + (1,)), sp_], axis=-1) * rng.uniform(0.5, 2, shpt + (1,))
        vt = rng.normal(size=shpt + (n + 1,))
        inpt = {"basepoints": xt.tolist(), "vectors": vt.tolist()}

        def tang():
            TV = h.TangentVector(h.Point(xt.copy()), vt.copy())
            Mw = TV.origin_to().proj_data
            pa = TV.normalized().point_along(0.7).coords("klein")
            for idx in np.ndindex(*shpt):
                U = h.TangentVector(h.Point(xt[idx].copy()), vt[idx].copy())
                if not np.all(np.abs(Mw[idx] - U.origin_to().proj_data) <= 1e-7 * (1 + np.max(np.abs(Mw[idx])))):
                    rep.fail("tangent_origin_to_per_unit", f"unit {idx}", inpt); return
                if not np.all(np.abs(pa[idx] - U.normalized().point_along(0.7).coords("klein")) <= 1e-7):
                    rep.fail("point_along_per_unit", f"unit {idx}", inpt); return
        rep.attempt("tangent_runs", inpt, tang)
        rep.case(key=(t, "tangent"), nontrivial=True)
        # flattening / reshaping / indexing do not depend on the memory layout of the array the object was built from
        # (C-contiguous, Fortran-contiguous, a transposed view, a strided slice)
        shp2 = tuple(int(x) for x in rng.integers(2, 4, size=2 + t % 2))
        base = rng.normal(size=shp2 + (4, n + 1))
        layouts = {"c": base.copy(), "fortran": np.asfortranarray(base), "strided": np.repeat(base, 2, axis=0)[::2],
                   "transposed_view": np.ascontiguousarray(np.moveaxis(base, 0, -1)).transpose((len(shp2) + 1,) + tuple(range(len(shp2) + 1)))}
        for lname, arr in layouts.items():
            inp = {"layout": lname, "shape": list(shp2), "n": n}

            def lay():
                if arr.shape != base.shape or not np.array_equal(arr, base):
                    raise AssertionError("layout construction of the test itself")
                P_ = pr.Polygon(arr)
                F_ = P_.flatten_to_unit()
                for k_, idx in enumerate(np.ndindex(*shp2)):
                    u = pr.Polygon(base[idx].copy())
                    if not np.array_equal(F_.proj_data[k_], u.proj_data) or not np.all(np.abs(F_.aux_data[k_] - u.aux_data) <= 1e-12):
                        rep.fail("flatten_preserves_units_and_order", f"layout {lname}: flattened unit {k_} is not unit {idx}", inp); return
                    if not np.array_equal(P_[idx].proj_data, u.proj_data):
                        rep.fail("index_preserves_units", f"layout {lname}: unit {idx}", inp); return
                R_ = P_.reshape((int(np.prod(shp2)),))
                if not np.array_equal(R_.proj_data, F_.proj_data):
                    rep.fail("reshape_preserves_units_and_order", f"layout {lname}", inp); return
            rep.attempt("restructure_runs", inp, lay)
            rep.case(key=(t, "layout", lname), nontrivial=lname != "c")
        # circle parameters (centre, radius, angle pair) of a composite of segments vs unit by unit, both conformal models
        kk = int(rng.integers(2, 6))

        def klp():
            v = rng.normal(size=(kk, 2))
            return v / np.linalg.norm(v, axis=-1, keepdims=True) * rng.uniform(0.1, 0.95, size=(kk, 1))
        ka, kb = klp(), klp()
        # targeted families next to the random one: chords crossing a coordinate half-axis far from the origin, in each of the four quadrant rotations and in
        # both endpoint orders (seen from the circle's centre the endpoint angles straddle a branch cut of arctan2, so several units get reordered by the arc rule)
        fams = [("random", ka, kb)]
        kk4 = 4
        xa = np.stack([rng.uniform(0.5, 0.85, kk4), rng.uniform(0.1, 0.4, kk4)], axis=-1)
        xb = np.stack([rng.uniform(0.5, 0.85, kk4), -rng.uniform(0.1, 0.4, kk4)], axis=-1)
        for qi, phi_ in enumerate([0.0, np.pi / 2, np.pi, 3 * np.pi / 2]):
            Rq = np.array([[np.cos(phi_), -np.sin(phi_)], [np.sin(phi_), np.cos(phi_)]])
            fa_, fb_ = xa @ Rq.T, xb @ Rq.T
            fams.append((f"quadrant{qi}", fa_, fb_) if (t + qi) % 2 == 0 else (f"quadrant{qi}_reversed", fb_, fa_))
        for fname, ka, kb in fams:
            kk = len(ka)
            Sg = h.Segment(h.Point(ka.copy(), model="klein"), h.Point(kb.copy(), model="klein"))
            for model in ("poincare", "halfspace"):
                for deg in (True, False):
                    inp = {"family": fname, "klein_a": ka.tolist(), "klein_b": kb.tolist(), "model": model, "degrees": deg}

                    def cp():
                        c, r, th = Sg.circle_parameters(model=model, degrees=deg)
                        for j in range(kk):
                            cj, rj, tj = h.Segment(h.Point(ka[j].copy(), model="klein"), h.Point(kb[j].copy(), model="klein")).circle_parameters(model=model, degrees=deg)
                            sc = 1 + abs(rj)
                            if not np.all(np.abs(c[j] - cj) <= 1e-9 * sc) or not (abs(r[j] - rj) <= 1e-9 * sc) or not np.all(np.abs(th[j] - tj) <= 1e-9 * (360 if deg else 7)):
                                rep.fail("circle_parameters_per_unit", f"{fname}: unit {j}: angles {th[j]} vs {tj}", inp); return
                    rep.attempt("circle_parameters_run", inp, cp)
                    rep.case(key=(t, "cp", fname, model, deg), nontrivial=True)
        # fixed points of a composite of conjugated standard isometries, unit by unit
        k = int(rng.integers(2, 5))
        isos = []
        for j in range(k):
            v = rng.normal(size=2); v = v / np.linalg.norm(v) * rng.uniform(0.1, 0.8)
            C = h.Point(v, model="klein").origin_to()
            base = h.Isometry.standard_rotation(rng.uniform(0.3, 2.8)) if j % 2 == 0 else h.Isometry.standard_loxodromic(2, rng.uniform(1.3, 3))
            isos.append((C @ base @ C.inv()).proj_data)
        comp = h.Isometry(np.array(isos))
        inp = {"matrices": np.array(isos).tolist()}
        fp = rep.attempt("fixed_point_runs", inp, lambda: comp.fixed_point().coords("klein"))
        if fp is not None:
            for j in range(k):
                uj = h.Isometry(np.array(isos[j])).fixed_point().coords("klein")
                if not np.all(np.abs(fp[j] - uj) <= 1e-6):
                    rep.fail("fixed_point_per_unit", f"unit {j}: {fp[j]} vs {uj}", inp)
            rep.case(key=(t, "fix"))
        # composites of loxodromics whose eigenvalues come out of the eigen-solver in different orders (translation parameter
        # above / below 1, conjugated or not), shapes of rank 1 and 2: fixed point, fixed point pair and axis unit by unit
        shp = [(3,), (4,), (2, 2), (4, 1)][t % 4]
        lox = []
        for j in range(int(np.prod(shp))):
            par = rng.uniform(1.5, 5.0) if (j + t) % 2 else 1.0 / rng.uniform(1.5, 5.0)
            base = h.Isometry.standard_loxodromic(2, par)
            if j % 3 == 1:      # conjugated by a rotation only (LAPACK then lists the small eigenvalue first)
                C = h.Isometry.standard_rotation(rng.uniform(0.3, 2.8))
                base = C @ base @ C.inv()
            elif j % 3 == 2:
                C = h.Isometry.standard_rotation(rng.uniform(0.3, 2.8)) @ h.Point((lambda w: w / np.linalg.norm(w) * rng.uniform(0.1, 0.6))(rng.normal(size=2)), model="klein").origin_to()
                base = C @ base @ C.inv()
            lox.append(base.proj_data)
        L_ = np.array(lox).reshape(shp + (3, 3))
        inpl = {"matrices": L_.tolist(), "shape": list(shp)}

        def loxo():
            compl = h.Isometry(L_.copy())
            fpc = compl.fixed_point().coords("klein")
            pair = compl.fixed_point_pair().proj_data
            for idx in np.ndindex(*shp):
                U = h.Isometry(L_[idx].copy())
                if not np.all(np.abs(fpc[idx] - U.fixed_point().coords("klein")) <= 1e-6):
                    rep.fail("fixed_point_per_unit", f"loxodromic unit {idx}: {fpc[idx]} vs {U.fixed_point().coords('klein')}", inpl); return
                up = U.fixed_point_pair().proj_data
                for r_ in range(2):
                    cr = np.outer(pair[idx][r_], up[r_])
                    if not np.all(np.abs(cr - cr.T) <= 1e-6 * max(1.0, np.max(np.abs(cr)))):
                        rep.fail("fixed_point_pair_per_unit", f"loxodromic unit {idx}, point {r_}", inpl); return
                # intrinsic: the reported fixed point is fixed by that unit's own matrix
                x = np.concatenate([[1.0], fpc[idx]])
                y = x @ L_[idx]
                cr = np.outer(x, y)
                if not np.all(np.abs(cr - cr.T) <= 1e-6 * max(1.0, np.max(np.abs(cr)))):
                    rep.fail("fixed_point_per_unit", f"loxodromic unit {idx}: the reported point is not fixed by the unit's matrix", inpl); return
        rep.attempt("fixed_point_runs", inpl, loxo)
        rep.case(key=(t, "fixlox"), nontrivial=True)


@bounded(P, "horosphere_arcs_per_unit", functions=[HY + "HorosphereArc.circle_parameters", HY + "Horosphere.sphere_parameters", U + "circle_angles", U + "arc_include"],
         note="circle parameters of a composite of horospherical arcs (shapes (k,), (2,2), (2,3), (1,)) against the unit arcs, both conformal models, radians and degrees; "
              "and the semantic meaning of the angle pair: both endpoints lie at the reported angles and the arc between them avoids the ideal centre")
def horosphere_arcs_per_unit(tier, rng, rep):
    N = 150 if tier == 'thorough' else 30
    rep.rule = "random ideal centres, random pairs of interior points (the arc runs between the projections of the points to the horosphere through the first); composite shapes (1,), (3,), (5,), (2,2), (2,3)"
    rep.bound = f"{N} composites x 2 models x 2 units of angle"
    for t in range(N):
        shape = [(1,), (3,), (5,), (2, 2), (2, 3)][t % 5]
        m = int(np.prod(shape))
        units = []
        for _ in range(m):
            c = h.IdealPoint.from_angle(rng.uniform(0, 2 * np.pi))
            pts = [h.Point(rng.uniform(-0.6, 0.6, size=2), model="klein") for _ in range(2)]
            units.append(h.HorosphereArc(c, pts[0], pts[1]))
        data = np.array([np.asarray(u.proj_data, dtype=float) for u in units])
        comp = h.HorosphereArc(data.reshape(shape + data.shape[1:]))
        for model in ("poincare", "halfspace"):
            for deg in (False, True):
                inp = {"shape": list(shape), "model": model, "degrees": deg, "proj_data": data.tolist()}

                def body():
                    with np.errstate(all='ignore'):
                        C, R, T = comp.circle_parameters(model=model, degrees=deg)
                    C, R, T = np.asarray(C, dtype=float), np.asarray(R, dtype=float), np.asarray(T, dtype=float)
                    if C.shape != shape + (2,) or R.shape != shape or T.shape != shape + (2,):
                        rep.fail("parameter_shapes", f"{C.shape}, {R.shape}, {T.shape}", inp); return
                    for j, idx in enumerate(np.ndindex(*shape)):
                        with np.errstate(all='ignore'):
                            cj, rj, tj = units[j].circle_parameters(model=model, degrees=deg)
                        cj, rj, tj = np.asarray(cj, dtype=float).reshape(2), float(np.asarray(rj).reshape(())), np.asarray(tj, dtype=float).reshape(2)
                        if not (np.all(np.isfinite(cj)) and np.isfinite(rj) and rj < 1e4 and np.all(np.isfinite(tj))):
                            continue            # horosphere centred at the half-plane's point at infinity
                        sc = 1 + abs(rj)
                        if not (np.all(np.abs(C[idx] - cj) <= 1e-9 * sc) and abs(R[idx] - rj) <= 1e-9 * sc and np.all(np.abs(T[idx] - tj) <= 1e-9 * (360 if deg else 7))):
                            rep.fail("circle_parameters_per_unit", f"arc {idx}: composite angles {T[idx]} vs unit angles {tj}", {**inp, "index": list(idx)}); return
                rep.attempt("circle_parameters_run", inp, body)
                rep.case(key=(t, model, deg), nontrivial=m >= 2, sample=inp if (t, model, deg) == (1, "poincare", False) else None)
                if len(rep.failures) >= 3:
                    return


@bounded(P, "composites_of_mixed_scale", functions=["geometry_tools/utils/numerical.py:svd_kernel", U + "kernel", U + "orthogonal_complement", HY + "Subspace.reflection_across",
                                                     HY + "Subspace.spacelike_complement", HY + "Hyperplane.__init__"],
         note="composites whose units carry homogeneous representatives of very different length (1e-6 .. 1e9): reflection across, spacelike complement and the hyperplane constructor "
              "return at each index what the unit object at that index returns (the rank decision of the kernel routine is per unit)")
def composites_of_mixed_scale(tier, rng, rep):
    N = 60 if tier == 'thorough' else 15
    rep.rule = "composites of 2..4 geodesics (n = 2, 3) / hyperplanes given by normals (n = 2, 3), unit scales drawn from {1e-6, 1e-3, 1, 1e4, 1e9}; reflection_across and spacelike_complement against the units"
    rep.bound = f"{N} composites x 2 kinds"
    for t in range(N):
        n = 2 + t % 2
        k = int(rng.integers(2, 5))
        sc = rng.choice([1e-6, 1e-3, 1.0, 1e4, 1e9], size=k)
        if t % 3 == 0:
            sc[0], sc[-1] = 1.0, 1e9
        for kind in ("geodesic", "hyperplane"):
            if kind == "geodesic":
                n = 2                      # reflections across geodesics exist in the plane only
                ends = rng.normal(size=(k, 2, n)); ends /= np.linalg.norm(ends, axis=-1, keepdims=True)
                data = np.concatenate([np.ones((k, 2, 1)), ends], axis=-1) * sc[:, None, None]
                mk = lambda d: h.Geodesic(h.IdealPoint(d.copy()))
            else:
                n = 2 + t % 2
                if k == n + 1:
                    continue               # a square array of normals is read as one hyperplane's full data (known finding of C15, reported there)
                while True:
                    nv = rng.normal(size=(k, n + 1)); nv[:, 0] *= 0.3
                    if np.all(spec_mink(nv) > 0.2):
                        break
                nv = nv / np.sqrt(spec_mink(nv))[:, None]
                # the library classifies vectors with an absolute threshold (1e-8 on the square-norm) and refuses shorter normals loudly: not a unit-vs-composite question
                data = nv * np.maximum(sc, 1e-3)[:, None]
                mk = lambda d: h.Hyperplane(d.copy())
            inp = {"kind": kind, "n": n, "scales": sc.tolist(), "data": data.tolist()}

            def body():
                comp = mk(data)
                units = [mk(data[i]) for i in range(k)]
                for op in ("reflection_across", "spacelike_complement"):
                    if kind == "hyperplane" and op == "spacelike_complement":
                        continue
                    R = np.asarray(getattr(comp, op)().proj_data, dtype=float)
                    for i, u in enumerate(units):
                        Ri = np.asarray(getattr(u, op)().proj_data, dtype=float)
                        a, b = R[i].reshape(-1), Ri.reshape(-1)
                        a, b = a / np.linalg.norm(a), b / np.linalg.norm(b)
                        if R[i].shape != Ri.shape or min(np.linalg.norm(a - b), np.linalg.norm(a + b)) > 1e-6:
                            rep.fail("composite_equals_units", f"{op}: unit {i} (scale {sc[i]:g})", {**inp, "operation": op}); return
            rep.attempt("composite_runs", inp, body)
            rep.case(key=(t, kind), nontrivial=float(sc.max() / sc.min()) >= 1e6, sample=inp if (t, kind) == (0, "geodesic") else None)
            if len(rep.failures) >= 3:
                return


def spec_mink(v):
    return -v[..., 0] ** 2 + (v[..., 1:] ** 2).sum(axis=-1)


@bounded(P, "eigenvectors_per_unit", functions=[PR + "Transformation.eigenvector", HY + "Isometry._fixpoint_data"],
         note="Transformation.eigenvector on a composite (shapes (1,), (3,), (2,2)) against the unit objects, including eigenvalues of multiplicity >= 2 (reflections, eigenvalue 1), two "
              "eigenvalues within the matching tolerance, and eigenvalue=None: the same projective point at each index")
def eigenvectors_per_unit(tier, rng, rep):
    N = 80 if tier == 'thorough' else 20
    rep.rule = "composites of reflections of H^2 / H^3 (eigenvalue 1 has multiplicity n), of diagonalisable maps with a repeated eigenvalue in random bases, and of generic maps; requested eigenvalue: the repeated one, a simple one, None"
    rep.bound = f"{N} composites x 3 requests"
    for t in range(N):
        n = 2 + t % 2
        shape = [(1,), (3,), (2, 2)][t % 3]
        k = int(np.prod(shape))
        kind = ["reflections", "repeated_eigenvalue", "generic"][(t // 3) % 3]
        mats, lam_rep, lam_simple = [], 1.0, -1.0
        for _ in range(k):
            if kind == "reflections":
                while True:
                    v = rng.normal(size=n + 1); v[0] *= 0.3
                    q = -v[0] ** 2 + v[1:] @ v[1:]
                    if q > 0.2:
                        break
                mats.append(np.asarray(h.Hyperplane(v.copy()).reflection_across().proj_data, dtype=float))
            elif kind == "repeated_eigenvalue":
                Pm = rng.normal(size=(n + 1, n + 1))
                D = np.diag([2.0, 2.0] + [0.5 + 0.25 * j for j in range(n - 1)])
                mats.append(np.linalg.inv(Pm) @ D @ Pm)
                lam_rep, lam_simple = 2.0, 0.5
            else:
                Pm = rng.normal(size=(n + 1, n + 1))
                D = np.diag([3.0, 1.5] + [0.5 + 0.2 * j for j in range(n - 1)])
                mats.append(np.linalg.inv(Pm) @ D @ Pm)
                lam_rep, lam_simple = 3.0, 1.5
        Mst = np.array(mats).reshape(shape + (n + 1, n + 1))
        for req_name, req in (("repeated", lam_rep), ("simple", lam_simple), ("none", None)):
            inp = {"kind": kind, "shape": list(shape), "n": n, "request": req_name, "eigenvalue": req, "matrices": Mst.tolist()}

            def body():
                T = pr.Transformation(Mst.copy())
                E_ = np.asarray((T.eigenvector(req) if req is not None else T.eigenvector()).proj_data)
                for j, idx in enumerate(np.ndindex(*shape)):
                    Tu = pr.Transformation(Mst[idx].copy())
                    eu = np.asarray((Tu.eigenvector(req) if req is not None else Tu.eigenvector()).proj_data)
                    a, b = np.asarray(E_[idx]).reshape(-1), eu.reshape(-1)
                    if a.shape != b.shape:
                        rep.fail("composite_equals_units", f"unit {idx}: shapes {a.shape} vs {b.shape}", inp); return
                    cr = np.outer(a, b) - np.outer(b, a)
                    if not np.all(np.abs(cr) <= 1e-7 * max(1e-300, np.abs(a).max() * np.abs(b).max())) or not np.any(np.abs(a) > 0):
                        rep.fail("composite_equals_units", f"eigenvector({req_name}) of unit {idx}: composite {np.real(a).tolist()} vs unit {np.real(b).tolist()}", inp); return
            rep.attempt("eigenvector_runs", inp, body)
            rep.case(key=(t, req_name), nontrivial=kind != "generic", sample=inp if (t, req_name) == (0, "repeated") else None)
            if len(rep.failures) >= 3:
                return


@bounded(P, "combine_preserves_units", functions=[PR + "ProjectiveObject.combine", PR + "ProjectiveObject.flatten_to_unit", PR + "Polygon._compute_aux_data", HY + "Segment._compute_aux_data"],
         note="combine([A, B, ...]) of composites with equal and with different numbers of units: the result lists the units of A, then of B, in order, with each unit's primary AND "
              "derived data (polygon edges, ideal endpoints of segments), also seen through get_edges, circle parameters and a following transformation")
def combine_preserves_units(tier, rng, rep):
    N = 40 if tier == 'thorough' else 10
    rep.rule = "classes Point, Segment, hyperbolic and projective Polygon (4..5 vertices), TangentVector; parts of shapes (k,) + (k,), (k,) + (m,), () + (k,), (2,2) + (3,); then a rotation applied to the result"
    rep.bound = f"{N} rounds x 5 classes x 4 shape pairs"

    def klein(shape, n=2):
        v = rng.normal(size=shape + (n,))
        return v / np.linalg.norm(v, axis=-1, keepdims=True) * rng.uniform(0.05, 0.9, size=shape + (1,))

    def mk(cls, shape):
        if cls == "Point":
            return h.Point(klein(shape), model="klein")
        if cls == "Segment":
            return h.Segment(h.Point(klein(shape + (2,)), model="klein"))
        if cls == "HypPolygon":
            return h.Polygon(h.Point(klein(shape + (4,)), model="klein"))
        if cls == "ProjPolygon":
            return pr.Polygon(rng.normal(size=shape + (5, 3)))
        return h.TangentVector(h.Point(klein(shape), model="klein"), rng.normal(size=shape + (3,)))

    def proj_eq(a, b):
        a, b = np.asarray(a, dtype=float), np.asarray(b, dtype=float)
        if a.shape != b.shape or not np.all(np.isfinite(a)):
            return False
        m = a[..., :, None] * b[..., None, :]
        return bool(np.all(np.abs(m - np.swapaxes(m, -1, -2)) <= 1e-8 * max(1.0, np.max(np.abs(m)))))
    for t in range(N):
        k, m_ = int(rng.integers(2, 4)), int(rng.integers(2, 5))
        for cls in ("Point", "Segment", "HypPolygon", "ProjPolygon", "TangentVector"):
            for sa, sb in (((k,), (k,)), ((k,), (m_,)), ((), (k,)), ((2, 2), (3,))):
                A_, B_ = mk(cls, sa), mk(cls, sb)
                inp = {"class": cls, "shapes": [list(sa), list(sb)], "A": np.asarray(A_.proj_data).tolist(), "B": np.asarray(B_.proj_data).tolist()}

                def body():
                    C = type(A_).combine([A_, B_])
                    units = [u for part in (A_, B_) for u in (part.flatten_to_unit() if part.shape else [part])]
                    Cf = C.flatten_to_unit()
                    if Cf.shape != (len(units),):
                        rep.fail("combine_lists_all_units", f"{Cf.shape} for {len(units)} units", inp); return
                    for i, u in enumerate(units):
                        if not np.array_equal(np.asarray(Cf[i].proj_data), np.asarray(u.proj_data)):
                            rep.fail("combine_preserves_units_and_order", f"unit {i}: primary data", inp); return
                        if u.aux_data is not None:
                            ai = None if Cf.aux_data is None else np.asarray(Cf.aux_data)[i] if np.asarray(Cf.aux_data).shape[0] == len(units) else None
                            if ai is None or not proj_eq(ai.reshape(-1, ai.shape[-1]), np.asarray(u.aux_data).reshape(-1, np.asarray(u.aux_data).shape[-1])):
                                rep.fail("combine_preserves_units_and_order", f"unit {i}: derived data of the combined object (shape {None if Cf.aux_data is None else np.asarray(Cf.aux_data).shape}) is not that of the unit (shape {np.asarray(u.aux_data).shape})", inp); return
                            if not proj_eq(np.asarray(Cf[i].aux_data).reshape(-1, ai.shape[-1]), np.asarray(u.aux_data).reshape(-1, ai.shape[-1])):
                                rep.fail("combine_preserves_units_and_order", f"unit {i}: derived data after indexing", inp); return
                        if hasattr(u, "get_edges"):
                            if not proj_eq(np.asarray(Cf.get_edges().proj_data)[i].reshape(-1, 3), np.asarray(u.get_edges().proj_data).reshape(-1, 3)):
                                rep.fail("combine_preserves_units_and_order", f"unit {i}: get_edges()", inp); return
                    if cls != "ProjPolygon":
                        Rt = h.Isometry.standard_rotation(0.7)
                        RC = (Rt @ C).flatten_to_unit()
                        for i, u in enumerate(units):
                            Ru = Rt @ u
                            if not proj_eq(np.asarray(RC[i].proj_data).reshape(-1, 3), np.asarray(Ru.proj_data).reshape(-1, 3)) or (u.aux_data is not None and not proj_eq(np.asarray(RC.aux_data)[i].reshape(-1, 3), np.asarray(Ru.aux_data).reshape(-1, 3))):
                                rep.fail("combine_preserves_units_and_order", f"unit {i} after a rotation of the combined object", inp); return
                rep.attempt("combine_runs", inp, body)
                rep.case(key=(t, cls, sa, sb), nontrivial=cls.endswith("Polygon"), sample=inp if (t, cls, sa) == (0, "HypPolygon", (k,)) and sb == (k,) else None)
                if len(rep.failures) >= 3:
                    return


@bounded(P, "stacking_preserves_units", functions=[PR + "ProjectiveObject._construct_from_object", PR + "ProjectiveObject.__init__", PR + "ProjectiveObject.__iter__", PR + "ProjectiveObject.__len__"],
         note="Cls([obj_1, ..., obj_k]) for k = 1, 2, 3 (lists, tuples, generators) and nested stacks: composite shape (k,) + shape of the members, entry i is member i (primary and derived "
              "data), len() and iteration agree; a stack of one map applied pairwise keeps its axis")
def stacking_preserves_units(tier, rng, rep):
    N = 30 if tier == 'thorough' else 8
    rep.rule = "classes Point, Segment, hyperbolic Polygon, TangentVector, Isometry; members of shape () and (2,); k = 1, 2, 3; containers list / tuple / generator; stack of stacks"
    rep.bound = f"{N} rounds x 5 classes x 3 k x 2 member shapes"

    def klein(shape, n=2):
        v = rng.normal(size=shape + (n,))
        return v / np.linalg.norm(v, axis=-1, keepdims=True) * rng.uniform(0.05, 0.9, size=shape + (1,))

    def mk(cls, shape):
        if cls == "Point":
            return h.Point(klein(shape), model="klein")
        if cls == "Segment":
            return h.Segment(h.Point(klein(shape + (2,)), model="klein"))
        if cls == "HypPolygon":
            return h.Polygon(h.Point(klein(shape + (4,)), model="klein"))
        if cls == "TangentVector":
            return h.TangentVector(h.Point(klein(shape), model="klein"), rng.normal(size=shape + (3,)))
        ms = np.array([np.asarray((h.Isometry.standard_rotation(rng.uniform(0, 6)) @ h.Isometry.standard_loxodromic(2, rng.uniform(0.5, 2))).proj_data) for _ in range(int(np.prod(shape)) or 1)])
        return h.Isometry(ms.reshape(shape + (3, 3)))
    for t in range(N):
        for cls in ("Point", "Segment", "HypPolygon", "TangentVector", "Isometry"):
            for k in (1, 2, 3):
                for mshape in ((), (2,)):
                    members = [mk(cls, mshape) for _ in range(k)]
                    cont = ["list", "tuple", "generator"][(t + k) % 3]
                    inp = {"class": cls, "k": k, "member_shape": list(mshape), "container": cont}

                    def body():
                        arg = list(members) if cont == "list" else tuple(members) if cont == "tuple" else (m_ for m_ in members)
                        S = type(members[0])(arg)
                        if S.shape != (k,) + mshape:
                            rep.fail("stack_shape", f"{cls}({cont} of {k} objects of shape {mshape}) has composite shape {S.shape}, expected {(k,) + mshape}", inp); return
                        if len(S) != k:
                            rep.fail("stack_shape", f"len = {len(S)}", inp); return
                        for i, (u, it) in enumerate(zip(members, S)):
                            for cand in (S[i], it):
                                if type(cand) is not type(u) or not np.array_equal(np.asarray(cand.proj_data), np.asarray(u.proj_data)):
                                    rep.fail("stacking_preserves_units_and_order", f"entry {i}", inp); return
                                if u.aux_data is not None and not np.allclose(np.asarray(cand.aux_data), np.asarray(u.aux_data), rtol=0, atol=1e-12):
                                    rep.fail("stacking_preserves_units_and_order", f"entry {i}: derived data", inp); return
                        SS = type(members[0])([S, S])
                        if SS.shape != (2, k) + mshape:
                            rep.fail("stack_shape", f"stack of two stacks: {SS.shape}", inp); return
                        if cls == "Isometry" and mshape == ():
                            P3 = h.Point(klein((3,)), model="klein")
                            out = S.apply(P3, broadcast="pairwise")
                            if out.shape != (3, k):
                                rep.fail("pairwise_outer_product_shape", f"{k} stacked map(s) applied pairwise to 3 points: shape {out.shape}, expected {(3, k)}", inp); return
                    rep.attempt("stack_runs", inp, body)
                    rep.case(key=(t, cls, k, mshape), nontrivial=k == 1, sample=inp if (t, cls, k, mshape) == (0, "Point", 1, ()) else None)
                    if len(rep.failures) >= 3:
                        return
