"""C08 - Coxeter group representations satisfy the relations and preserve the form (DESIGN.md section 3, C08)."""
import itertools
import numpy as np
from vf.api import rcontract, bounded
from geometry_tools import coxeter, utils, hyperbolic as h
from geometry_tools.representation import Representation
from contracts import spec

P = "C08"
CX = "geometry_tools/coxeter.py:"
F = [CX + "CoxeterGroup.__init__", CX + "CoxeterGroup.from_diagram", CX + "CoxeterGroup.from_coxeter_matrix", CX + "CoxeterGroup.cartan_representation",
     "geometry_tools/representation.py:Representation.__setitem__", "geometry_tools/representation.py:Representation._set_generator",
     "geometry_tools/representation.py:Representation._word_value", "geometry_tools/utils/core.py:invert"]

# 4 cos^2(pi/m) for the labels whose value is rational
FOUR_COS2 = {2: 0, 3: 1, 4: 2, 6: 3}


def mpow(M, k, one):
    out = one
    for _ in range(k):
        out = out @ M
    return out


@rcontract(P, "cartan_representation", instances=[dict(rank=2, labels=(m,)) for m in (2, 3, 4, 6)] +
           [dict(rank=3, labels=l) for l in ((3, 3, 4), (2, 3, 6), (2, 4, 4), (3, 3, 3))],
           thorough=[dict(rank=3, labels=l) for l in ((2, 3, 4), (2, 6, 6), (4, 4, 4), (3, 4, 6))] + [dict(rank=4, labels=(3, 2, 2, 3, 2, 4))],
           timeout=100.0, functions=F)
def cartan_representation(ctx, rank, labels):
    """for a (not necessarily symmetric) Cartan matrix C with C_ii = 2 and C_ij C_ji = 4 cos^2(pi/m_ij): the generators
    s_i = I - e_i e_i^T C are involutions and (s_i s_j)^m_ij = I  (polynomial identities in the free entries of C);
    for symmetric C = 2B they preserve B"""
    pairs = list(itertools.combinations(range(rank), 2))
    m = np.ones((rank, rank), dtype=int)
    C = np.empty((rank, rank), dtype=object if ctx.mode == 'sym' else float)
    for i in range(rank):
        C[i, i] = 2 + 0 * (ctx.real('zero', lambda r: 1.0) if False else 0)
    free = ctx.reals('c', (len(pairs),), lambda r: -r.uniform(0.5, 2.5, len(pairs)))
    for idx, (i, j) in enumerate(pairs):
        mij = labels[idx]
        m[i, j] = m[j, i] = mij
        t = FOUR_COS2[mij]
        if t == 0:
            C[i, j] = 0 * free[idx]; C[j, i] = 0 * free[idx]
        else:
            ctx.assume(free[idx], '<', 0)
            C[i, j] = free[idx]; C[j, i] = t / free[idx]
    for i in range(rank):
        C[i, i] = 2 + 0 * free[0]
    G = coxeter.CoxeterGroup(matrix=m.tolist())
    # dtype=object in symbolic mode only: the method's final .astype(dtype) (default float64) would concretise symbols
    kw = dict(dtype=np.dtype('O')) if ctx.mode == 'sym' else {}
    rep = G.cartan_representation(np.array(C, copy=True), **kw)
    I = ctx.const(np.identity(rank))
    gens = [rep[g] for g in G.ordered_gens]
    for i, g in enumerate(G.ordered_gens):
        e = np.zeros((rank, rank)); e[i, i] = 1
        ctx.ensure_eq(f'generator_{g}_is_I_minus_e_eT_C', gens[i], I - ctx.const(e) @ C, tol=1e-6)
        ctx.ensure_eq(f'involution_{g}', gens[i] @ gens[i], I, tol=1e-6)
    for idx, (i, j) in enumerate(pairs):
        ctx.ensure_eq(f'braid_relation_{i}{j}_order_divides_{labels[idx]}', mpow(gens[i] @ gens[j], labels[idx], I), I, tol=1e-5)
        w = (G.ordered_gens[i] + G.ordered_gens[j]) * labels[idx]
        ctx.ensure_eq(f'word_evaluation_{i}{j}', rep[w], I, tol=1e-5)


@rcontract(P, "geometric_form_and_dual", instances=[dict(rank=2), dict(rank=3)], thorough=[dict(rank=4)], timeout=100.0, functions=F + ["geometry_tools/representation.py:Representation.compose", "geometry_tools/representation.py:Representation._compose"])
def geometric_form_and_dual(ctx, rank):
    """symmetric Cartan matrix C = 2B (B arbitrary symmetric with unit diagonal): every generator preserves B, and the
    composition with M -> (M^T)^-1 (the construction of canonical_representation) is the dual representation"""
    pairs = list(itertools.combinations(range(rank), 2))
    off = ctx.reals('b', (len(pairs),), lambda r: -r.uniform(0.3, 1.2, len(pairs)))
    B = np.empty((rank, rank), dtype=object if ctx.mode == 'sym' else float)
    for i in range(rank):
        B[i, i] = 1 + 0 * off[0]
    for idx, (i, j) in enumerate(pairs):
        B[i, j] = B[j, i] = off[idx]
    G = coxeter.CoxeterGroup(matrix=(np.ones((rank, rank), dtype=int) + 2 * (1 - np.eye(rank, dtype=int))).tolist())
    kw = dict(dtype=np.dtype('O')) if ctx.mode == 'sym' else {}
    rep = G.cartan_representation(2 * B, **kw)
    dual = rep.compose(lambda mat: utils.invert(mat.T))
    I = ctx.const(np.identity(rank))
    for g in G.ordered_gens:
        s = rep[g]
        ctx.ensure_eq(f'preserves_form_{g}', s.T @ B @ s, B, tol=1e-6)
        ctx.ensure_eq(f'dual_generator_{g}', dual[g] @ s.T, I, tol=1e-6)
    w = G.ordered_gens[0] + G.ordered_gens[1]
    ctx.ensure_eq('dual_of_a_word', dual[w] @ rep[w].T, I, tol=1e-6)


def _order(M, maxm=40, tol=1e-8):
    P_ = np.eye(len(M))
    for k in range(1, maxm + 1):
        P_ = P_ @ M
        if np.max(np.abs(P_ - np.eye(len(M)))) < tol * max(1, np.max(np.abs(P_))):
            return k
    return None


@bounded(P, "coxeter_sampling", functions=[CX + "CoxeterGroup.bilinear_form", CX + "CoxeterGroup.geometric_representation", CX + "CoxeterGroup.canonical_representation",
                                           CX + "CoxeterGroup.cartan_matrix", CX + "CoxeterGroup.tits_vinberg_rep", CX + "CoxeterGroup.hyperbolic_rep",
                                           "geometry_tools/utils/core.py:diagonalize_form", "geometry_tools/hyperbolic.py:Isometry.fixed_point"],
         note="all Coxeter matrices of rank 2..3 with labels in {2..12, infinite as 0 or -1} (exhaustive up to relabelling for rank 2, sampled rank 3..5), both constructor routes, "
              "both naming styles; exact order m for the canonical representation; O(d,1) for hyperbolic forms; triangle angles")
def coxeter_sampling(tier, rng, rep):
    rep.rule = ("rank 2: every label 2..12 and 0, -1; rank 3: all triples over {2,3,4,5,6,7,8,12,0,-1} up to permutation (thorough) / 40 random (quick); rank 4,5 random; "
                "non-trivial = rank >= 3 or infinite label")
    labels_all = [2, 3, 4, 5, 6, 7, 8, 12, 0, -1]
    cases = [((m,), 2) for m in list(range(2, 13)) + [0, -1]]
    triples = list(itertools.combinations_with_replacement(labels_all, 3))
    if tier != 'thorough':
        triples = [triples[i] for i in rng.choice(len(triples), size=40, replace=False)]
    cases += [(t_, 3) for t_ in triples]
    for _ in range(30 if tier == 'thorough' else 8):
        r_ = int(rng.integers(4, 6))
        cases.append((tuple(int(x) for x in rng.choice([2, 2, 3, 3, 4, 5, 6, 0], size=r_ * (r_ - 1) // 2)), r_))
    rep.bound = f"{len(cases)} Coxeter matrices"
    for labels, rank in cases:
        pairs = list(itertools.combinations(range(rank), 2))
        M = np.ones((rank, rank), dtype=int)
        for (i, j), l in zip(pairs, labels):
            M[i, j] = M[j, i] = l
        names = "abcdefgh"[:rank]
        diagram = [(names[i], names[j], int(l)) for (i, j), l in zip(pairs, labels)]
        inp = {"labels": [int(l) for l in labels], "rank": rank}
        # the same diagram with its edges listed in another order / orientation and generator names that are not in alphabetical
        # order of first appearance
        names_s = "xmdqazbk"[:rank]
        order_s = rng.permutation(len(pairs))
        diagram_s = [((names_s[pairs[e][1]], names_s[pairs[e][0]]) if rng.random() < 0.5 else (names_s[pairs[e][0]], names_s[pairs[e][1]])) + (int(labels[e]),) for e in order_s]
        for route in ("matrix", "matrix_alphanum", "matrix_ndarray_reused", "diagram", "diagram_shuffled"):
            def body():
                names = names_s if route == "diagram_shuffled" else "abcdefgh"[:rank]
                if route == "diagram_shuffled":
                    if rank < 2:
                        return
                    G = coxeter.CoxeterGroup(diagram=diagram_s)
                elif route == "matrix":
                    G = coxeter.CoxeterGroup(matrix=M.tolist())
                elif route == "matrix_ndarray_reused":
                    # the caller passes an ndarray and re-uses it as a work array afterwards (a label sweep): the group keeps the labels it was built with
                    work = np.array(M, copy=True)
                    G = coxeter.CoxeterGroup(matrix=work)
                    work[...] = 3
                    np.fill_diagonal(work, 1)
                    if not np.array_equal(np.where(np.asarray(G.coxeter_matrix) <= 0, 0, np.asarray(G.coxeter_matrix)), np.where(M <= 0, 0, M)):
                        rep.fail("group_keeps_its_labels", f"coxeter_matrix became {np.asarray(G.coxeter_matrix).tolist()} after the caller edited its own array", {**inp, "route": route}); return
                elif route == "matrix_alphanum":
                    G = coxeter.CoxeterGroup(matrix=M.tolist(), generator_style="alphanum")
                else:
                    if rank < 2:
                        return
                    G = coxeter.CoxeterGroup(diagram=diagram)
                gens = G.ordered_gens
                if route.startswith("diagram") and sorted(gens) != sorted(names):
                    rep.fail("diagram_generators", f"{gens}", inp); return
                idx = {g: (names.index(g) if route.startswith("diagram") else k) for k, g in enumerate(gens)}
                # expected cosine form from the INPUT labels
                Bexp = np.eye(rank)
                for (i, j), l in zip(pairs, labels):
                    Bexp[i, j] = Bexp[j, i] = -np.cos(np.pi / l) if l > 0 else -1.0
                perm = [idx[g] for g in gens]
                Bexp_g = Bexp[np.ix_(perm, perm)]
                B = np.asarray(G.bilinear_form(), dtype=float)
                if not np.all(np.abs(B - Bexp_g) <= 1e-12):
                    rep.fail("bilinear_form", f"{B.tolist()} vs {Bexp_g.tolist()}", {**inp, "route": route}); return
                geo = G.geometric_representation()
                can = G.canonical_representation()
                parse = (lambda r_, w: r_.element(w, parse_simple=False)) if route == "matrix_alphanum" else (lambda r_, w: r_[w])
                for a, g1 in enumerate(gens):
                    s = np.asarray(geo[g1] if route != "matrix_alphanum" else geo.element(g1, parse_simple=False), dtype=float)
                    c = np.asarray(can[g1] if route != "matrix_alphanum" else can.element(g1, parse_simple=False), dtype=float)
                    if not np.all(np.abs(s @ s - np.eye(rank)) <= 1e-9) or not np.all(np.abs(c @ c - np.eye(rank)) <= 1e-9):
                        rep.fail("generator_involution", g1, {**inp, "route": route}); return
                    if not np.all(np.abs(s.T @ Bexp_g @ s - Bexp_g) <= 1e-9):
                        rep.fail("geometric_preserves_cosine_form", g1, {**inp, "route": route}); return
                    if not np.all(np.abs(c @ s.T - np.eye(rank)) <= 1e-9):
                        rep.fail("canonical_is_dual_of_geometric", g1, {**inp, "route": route}); return
                    for b, g2 in enumerate(gens):
                        if b <= a:
                            continue
                        mij = int(M[perm[a], perm[b]])
                        s2 = np.asarray(geo[g2] if route != "matrix_alphanum" else geo.element(g2, parse_simple=False), dtype=float)
                        c2 = np.asarray(can[g2] if route != "matrix_alphanum" else can.element(g2, parse_simple=False), dtype=float)
                        og, oc = _order(s @ s2), _order(c @ c2)
                        if mij > 0:
                            if og is None or mij % og != 0:
                                rep.fail("geometric_relation_order_divides_m", f"{g1}{g2}: order {og}, m={mij}", {**inp, "route": route}); return
                            if oc != mij:
                                rep.fail("canonical_relation_order_exactly_m", f"{g1}{g2}: order {oc}, m={mij}", {**inp, "route": route}); return
                        else:
                            if oc is not None:
                                rep.fail("canonical_infinite_label_has_infinite_order", f"{g1}{g2}: order {oc}", {**inp, "route": route}); return
                # the same two representations in the coordinates that diagonalise the cosine form (keyword diagonalize=True):
                # the geometric one preserves the diagonal +-1 form, the canonical one is still its dual (and preserves the inverse form)
                if np.min(np.abs(np.linalg.eigvalsh(Bexp_g))) > 1e-6:
                    geo_d = G.geometric_representation(diagonalize=True)
                    can_d = G.canonical_representation(diagonalize=True)
                    D = None
                    for g1 in gens:
                        sd, cd = np.asarray(parse(geo_d, g1), dtype=float), np.asarray(parse(can_d, g1), dtype=float)
                        if D is None:
                            # the form preserved by the diagonalised generators: solve from the definition W^T B W with W from the library's own
                            # diagonalisation is avoided; instead D must be a diagonal +-1 matrix of the signature of B preserved by every generator
                            ev_ = np.linalg.eigvalsh(Bexp_g)
                            D = np.diag([-1.0] * int((ev_ < 0).sum()) + [1.0] * int((ev_ > 0).sum()))
                        if not np.all(np.abs(sd @ sd - np.eye(rank)) <= 1e-8) or not np.all(np.abs(cd @ cd - np.eye(rank)) <= 1e-8):
                            rep.fail("generator_involution", f"{g1} (diagonalize=True)", {**inp, "route": route, "diagonalize": True}); return
                        if not np.all(np.abs(sd.T @ D @ sd - D) <= 1e-7 * (1 + np.max(np.abs(sd)) ** 2)):
                            rep.fail("geometric_preserves_cosine_form", f"{g1}: diagonalize=True, the form diag{np.diag(D).tolist()} is not preserved", {**inp, "route": route, "diagonalize": True}); return
                        if not np.all(np.abs(cd @ sd.T - np.eye(rank)) <= 1e-7 * (1 + np.max(np.abs(sd)) * np.max(np.abs(cd)))):
                            rep.fail("canonical_is_dual_of_geometric", f"{g1} (diagonalize=True)", {**inp, "route": route, "diagonalize": True}); return
                    w2 = gens[0] + gens[-1] if route != "matrix_alphanum" else None
                    if w2:
                        if not np.all(np.abs(np.asarray(can_d[w2], dtype=float) @ np.asarray(geo_d[w2], dtype=float).T - np.eye(rank)) <= 1e-6 * (1 + np.max(np.abs(np.asarray(geo_d[w2], dtype=float))) ** 2)):
                            rep.fail("canonical_is_dual_of_geometric", f"word {w2} (diagonalize=True)", {**inp, "route": route, "diagonalize": True}); return
                # the caller owns what a lookup returns: scribbling on a returned matrix does not change the representation
                for rname, r_ in (("geometric", geo), ("canonical", can)):
                    for g1 in gens:
                        got = parse(r_, g1)
                        keep = np.array(got, dtype=float, copy=True)
                        try:
                            got[...] = 0
                        except (TypeError, ValueError):
                            continue
                        again = np.asarray(parse(r_, g1), dtype=float)
                        if not np.all(np.abs(again - keep) <= 1e-12):
                            rep.fail("generator_involution", f"{rname} representation: the image of {g1} changed after the caller edited the matrix an earlier lookup returned", {**inp, "route": route}); return
                # hyperbolic representation when the form has signature (d, 1)
                ev = np.linalg.eigvalsh(Bexp)
                if (ev < -1e-9).sum() == 1 and (ev > 1e-9).sum() == rank - 1:
                    hr = G.hyperbolic_rep()
                    J = spec.J(rank)
                    for g1 in gens:
                        iso = hr.element(g1, parse_simple=False) if route == "matrix_alphanum" else hr[g1]
                        Mx = iso.proj_data
                        if not np.all(np.abs(Mx @ J @ Mx.T - J) <= 1e-7):
                            rep.fail("hyperbolic_rep_in_O_d_1", g1, {**inp, "route": route}); return
                        if not np.all(np.abs(Mx @ Mx - np.eye(rank)) <= 1e-7) or not (abs(np.linalg.det(Mx) + 1) <= 1e-7) or not (abs(np.trace(Mx) - (rank - 2)) <= 1e-7):
                            rep.fail("hyperbolic_generators_are_reflections", g1, {**inp, "route": route}); return
            rep.attempt("coxeter_runs", {**inp, "route": route}, body)
            rep.case(key=(labels, rank, route), nontrivial=(rank >= 3 or any(l <= 0 for l in labels)), sample={**inp, "route": route} if labels == (3,) else None)


@bounded(P, "triangle_angles", functions=[CX + "TriangleGroup.__init__", CX + "CoxeterGroup.hyperbolic_rep", "geometry_tools/hyperbolic.py:Isometry.fixed_point", "geometry_tools/hyperbolic.py:TangentVector.angle"],
         note="hyperbolic triangle groups: the triangle spanned by the fixed points of the rotation products has angles pi/p, pi/q, pi/r (ideal vertex for an infinite label)")
def triangle_angles(tier, rng, rep):
    rep.rule = "all (p,q,r) with 1/p+1/q+1/r < 1, entries in 2..12 (quick: 2..8) plus infinite labels written 0 or -1; non-trivial = infinite label or repeated label"
    top = 12 if tier == 'thorough' else 8
    trip = [t for t in itertools.combinations_with_replacement(list(range(2, top + 1)) + [0, -1], 3)
            if sum((1.0 / x if x > 0 else 0.0) for x in t) < 1 - 1e-9]
    if tier != 'thorough':
        trip = [trip[i] for i in sorted(rng.choice(len(trip), size=min(60, len(trip)), replace=False))]
    rep.bound = f"{len(trip)} triples x 3 cyclic orders x 2 routes (word by word / one composite isometry)"
    rep.exhaustive = tier == 'thorough'
    for t in trip:
        for pqr in (t, (t[1], t[2], t[0]), (t[2], t[0], t[1])):
            inp = {"triangle": list(pqr)}

            def body():
                G = coxeter.TriangleGroup(pqr)
                hr = G.hyperbolic_rep()
                # vertex between generators (a,b) has label pqr[0], (b,c): pqr[1], (c,a): pqr[2]
                rots = {"ab": hr["ab"], "bc": hr["bc"], "ca": hr["ca"]}
                lab = {"ab": pqr[0], "bc": pqr[1], "ca": pqr[2]}
                # both documented routes to the vertices: word by word, and one composite isometry of the three words
                stacked = hr.isometries(["ab", "bc", "ca"]).fixed_point().proj_data
                for route in ("single", "stacked"):
                    if not one_route(route, rots, lab, stacked):
                        return

            def one_route(route, rots, lab, stacked):
                verts = {}
                for i_, (k_, R) in enumerate(rots.items()):
                    x = R.fixed_point().proj_data if route == "single" else np.array(stacked[i_])
                    inp["route"] = route
                    if not np.all(np.abs(np.outer(x @ R.proj_data, x) - np.outer(x, x @ R.proj_data)) <= 1e-6 * max(1, np.max(np.abs(x)) ** 2)):
                        rep.fail("vertex_is_fixed", k_, inp); return False
                    q = spec.mink(x, x) / (x @ x)
                    if lab[k_] > 0 and q > -1e-7:
                        rep.fail("finite_vertex_is_interior", f"{k_}: q={q}", inp); return False
                    if lab[k_] <= 0 and abs(q) > 1e-6:
                        rep.fail("infinite_label_vertex_is_ideal", f"{k_}: q={q}", inp); return False
                    verts[k_] = x
                # interior angles at finite vertices via the law of cosines in the hyperboloid model
                keys = ["ab", "bc", "ca"]
                for k_ in keys:
                    if lab[k_] <= 0:
                        continue
                    others = [verts[o] for o in keys if o != k_]
                    p_ = h.Point(verts[k_].copy())
                    tvs = []
                    for o in others:
                        tvs.append(p_.unit_tangent_towards(h.Point(o.copy())))
                    ang = tvs[0].angle(tvs[1])
                    # the same angle measured two more ways: from tangent vectors given by the other vertices' own coordinates (not unit, not tangent: the class projects
                    # and the angle must not depend on their length), and by my own Minkowski computation (independent of TangentVector.angle)
                    if all(lab[o_] > 0 for o_ in keys):
                        Jm = np.diag([-1.0, 1.0, 1.0])
                        x_ = verts[k_] / np.sqrt(abs(verts[k_] @ Jm @ verts[k_])); x_ = x_ * np.sign(x_[0])
                        raw = []
                        for o in others:
                            y_ = o / np.sqrt(abs(o @ Jm @ o)); y_ = y_ * np.sign(y_[0])
                            raw.append(y_)
                        ang_raw = h.TangentVector(h.Point(x_.copy()), (2.5 * raw[0]).copy()).angle(h.TangentVector(h.Point(x_.copy()), (0.4 * raw[1]).copy()))
                        tv_own = [y_ + (x_ @ Jm @ y_) * x_ for y_ in raw]
                        ang_own = np.arccos(np.clip((tv_own[0] @ Jm @ tv_own[1]) / np.sqrt((tv_own[0] @ Jm @ tv_own[0]) * (tv_own[1] @ Jm @ tv_own[1])), -1, 1))
                        for nm_, a_ in (("tangent vectors given by the other vertices' coordinates", ang_raw), ("independent Minkowski computation", ang_own)):
                            if not (abs(float(a_) - np.pi / lab[k_]) <= 1e-6):
                                rep.fail("interior_angle", f"vertex {k_} ({nm_}): {float(a_)} vs pi/{lab[k_]}", inp); return False
                    # parabolic fixed points (infinite labels) are eigenvectors of defective matrices: accuracy O(sqrt(eps))
                    if not (abs(ang - np.pi / lab[k_]) <= (1e-6 if min(pqr) > 0 else 2e-4)):
                        rep.fail("interior_angle", f"vertex {k_}: {ang} vs pi/{lab[k_]}", inp); return False
                # the same three angles computed in one go from the composite of the three vertices (as the stacked fixed points
                # come out of the library: arbitrary signs of the homogeneous representatives)
                if all(lab[k_] > 0 for k_ in keys):
                    Vd = np.stack([verts[k_] for k_ in keys])
                    V = h.Point(Vd.copy())
                    angs = V.unit_tangent_towards(h.Point(np.roll(Vd, -1, axis=0))).angle(V.unit_tangent_towards(h.Point(np.roll(Vd, 1, axis=0))))
                    want = np.array([np.pi / lab[k_] for k_ in keys])
                    if not np.all(np.abs(np.asarray(angs, dtype=float) - want) <= 1e-6):
                        rep.fail("interior_angle", f"angles of the composite of the three vertices {np.asarray(angs).tolist()} vs {want.tolist()}", inp); return False
                return True
            rep.attempt("triangle_runs", inp, body)
            rep.case(key=pqr, nontrivial=(min(pqr) <= 0 or len(set(pqr)) < 3), sample=inp if pqr == (2, 3, 7) else None)
