"""C10 - automaton operations transform the accepted language as documented (DESIGN.md section 3, C10)."""
import copy
import itertools
import numpy as np
from vf.api import bounded
from geometry_tools.automata import fsa
from contracts.fsa_model import Model, coherence_error, all_deterministic_automata, views
import contracts.p_walks  # Engine P contracts (registered on import)

P = "C10"
A = "geometry_tools/automata/fsa.py:"
F_ALL = [A + "FSA.follow_word", A + "FSA.accepts", A + "FSA.initial_accepted_subword", A + "FSA.initial_rejected_subword", A + "FSA.enumerate_fixed_length_paths",
         A + "FSA.enumerate_words", A + "FSA.automaton_multiple", A + "FSA.even_automaton", A + "FSA.recurrent", A + "FSA.remove_long_paths", A + "FSA.rename_generators"]


def snapshot(F):
    g, o, i = views(F)
    return (sorted(g, key=repr), sorted(o, key=repr), sorted(i, key=repr), sorted(map(repr, F._graph_dict)), list(F.start_vertices))


def build_by_route(d, starts, route):
    """the automaton with transition table d, obtained through one of the library's construction routes"""
    if route == "graph_dict":
        return fsa.FSA(copy.deepcopy(d), list(starts))
    if route == "implicit_sinks_then_edges":
        # states are introduced only as heads of edges where possible (no key of their own), edges leaving them are added later
        heads = {w for nb in d.values() for w in nb.values()}
        first = {v: dict(nb) for v, nb in d.items() if v not in heads or v in starts}
        if not first:
            first = {starts[0]: dict(d[starts[0]])}
        F = fsa.FSA(copy.deepcopy(first), list(starts))
        F.add_vertices([v for v in d if v not in F.vertices()])
        for v, nb in d.items():
            if v not in first:
                for l, w in nb.items():
                    F.add_edges([(v, w, l)])
        return F
    if route == "incremental":
        F = fsa.FSA({}, start_vertices=list(starts))
        F.add_vertices(list(d))
        for v, nb in d.items():
            F.add_edges([(v, w, l) for l, w in nb.items()])
        return F
    if route == "out_dict":
        od = {v: {} for v in d}
        for v, nb in d.items():
            for l, w in nb.items():
                od[v].setdefault(w, []).append(l)
        return fsa.FSA(od, list(starts), graph_dict=False)
    if route == "parallel_edges_added":
        # for every pair of states joined by several labels the constructor gets the first label only; the parallel edges are
        # added afterwards (both dictionary formats of the constructor in turn)
        first, later, seen = {v: {} for v in d}, [], set()
        for v, nb in d.items():
            for l, w in nb.items():
                if (v, w) in seen:
                    later.append((v, w, l))
                else:
                    seen.add((v, w)); first[v][l] = w
        if len(later) % 2:
            od = {v: {} for v in first}
            for v, nb in first.items():
                for l, w in nb.items():
                    od[v].setdefault(w, []).append(l)
            F = fsa.FSA(od, list(starts), graph_dict=False)
        else:
            F = fsa.FSA(copy.deepcopy(first), list(starts))
        for e in later:
            F.add_edges([e])
        return F
    if route == "copy_of_edited":
        F = fsa.FSA(copy.deepcopy(d), list(starts))
        F.add_vertices(["__tmp__"])
        if d:
            v0 = next(iter(d))
            F.add_edges([("__tmp__", v0, "zz")])
        G = copy.deepcopy(F)
        G.delete_vertex("__tmp__")
        return G
    raise ValueError(route)


ROUTES = ["graph_dict", "implicit_sinks_then_edges", "incremental", "out_dict", "copy_of_edited", "parallel_edges_added"]


def check_automaton(rep, d, starts, labels, L, inp, multiples=(1, 2, 3), full=True, route="graph_dict"):
    """all C10 clauses on one automaton given by its graph_dict d"""
    M = Model.from_graph_dict(d)
    F = build_by_route(d, starts, route)
    before = snapshot(F)
    s0 = starts[0]
    # --- walks: every word up to length L from every state
    for n in range(0, L + 1):
        for w in itertools.product(labels, repeat=n):
            word = "".join(w) if all(len(x) == 1 for x in labels) else tuple(w)
            for s in sorted(M.V, key=repr):
                end = M.follow(s, w)
                try:
                    got = F.follow_word(word, s)
                    ok = end is not None and got == end
                except fsa.FSAException:
                    ok = end is None
                if not ok:
                    rep.fail("follow_word", f"word {word!r} from state {s!r}: model says {end!r}", {**inp, "word": list(w), "state": repr(s)}); return False
                if F.accepts(word, s) != (end is not None):
                    rep.fail("accepts_with_start", f"word {word!r} from {s!r}", {**inp, "word": list(w), "state": repr(s)}); return False
            end0 = M.follow(s0, w)
            if F.accepts(word) != (end0 is not None):
                rep.fail("accepts", f"word {word!r}", {**inp, "word": list(w)}); return False
            if all(len(x) == 1 for x in labels):
                k = n
                while M.follow(s0, w[:k]) is None:
                    k -= 1
                if F.initial_accepted_subword(word) != word[:k]:
                    rep.fail("initial_accepted_subword", f"{word!r}: got {F.initial_accepted_subword(word)!r}, longest accepted prefix {word[:k]!r}", {**inp, "word": list(w)}); return False
                rej = F.initial_rejected_subword(word)
                want = word if end0 is not None else word[:k + 1]
                if rej != want:
                    rep.fail("initial_rejected_subword", f"{word!r}: got {rej!r} expected {want!r}", {**inp, "word": list(w)}); return False
    # --- enumeration from every state
    for s in sorted(M.V, key=repr):
        for n in range(0, L + 1):
            want = sorted(M.paths(s, n), key=repr)
            got = list(F.enumerate_fixed_length_paths(n, start_vertex=s, with_states=True))
            gotn = sorted([(tuple(w) if not isinstance(w, str) else tuple(w), e) for w, e in got], key=repr) if all(len(x) == 1 for x in labels) else None
            if gotn is not None and gotn != want:
                rep.fail("enumerate_fixed_length_paths", f"state {s!r} length {n}: {gotn} vs {want}", {**inp, "state": repr(s), "length": n}); return False
            plain = list(F.enumerate_fixed_length_paths(n, start_vertex=s))
            if len(plain) != len(set(plain)) or (gotn is not None and sorted(plain) != sorted("".join(w) for w, _ in want)):
                rep.fail("enumerate_each_word_once", f"state {s!r} length {n}: {plain}", {**inp, "state": repr(s), "length": n}); return False
        allw = list(F.enumerate_words(L, start_vertex=s))
        wantall = ["".join(w) for n in range(L + 1) for w, _ in M.paths(s, n)]
        if all(len(x) == 1 for x in labels) and sorted(allw) != sorted(wantall):
            rep.fail("enumerate_words", f"state {s!r}", {**inp, "state": repr(s)}); return False
        # ... and where each listed word ends (with_states=True), the empty word included, from every start state
        if all(len(x) == 1 for x in labels):
            allws = sorted(((w_, e_) for w_, e_ in F.enumerate_words(L, start_vertex=s, with_states=True)), key=repr)
            wantws = sorted((("".join(w_), e_) for n in range(L + 1) for w_, e_ in M.paths(s, n)), key=repr)
            if allws != wantws:
                bad = [x for x in allws if x not in wantws][:2]
                rep.fail("enumerate_words", f"from state {s!r} with_states=True: listed (word, end state) pairs {bad} disagree with the walk", {**inp, "state": repr(s)}); return False
    if not full:
        return True
    # --- k-multiple automaton
    for k in multiples:
        Fk = F.automaton_multiple(k) if k != 2 else F.even_automaton()
        err = coherence_error(Fk)
        if err:
            rep.fail("multiple_automaton_views", f"k={k}: {err}", {**inp, "k": k}); return False
        for n in range(0, L + 1):
            for w in itertools.product(labels, repeat=n):
                word = "".join(w)
                acc = M.follow(s0, w) is not None
                if n % k == 0:
                    blocks = tuple(word[i:i + k] for i in range(0, n, k))
                    if Fk.accepts(blocks) != acc:
                        rep.fail("multiple_accepts_exactly_words_of_length_multiple_of_k", f"k={k} word {word!r}: accepted by the original: {acc}", {**inp, "k": k, "word": word}); return False
        # no other words: every edge label of Fk has length k and is a path of F between the same states
        for (v, l, w_) in views(Fk)[0]:
            if len(l) != k or M.follow(v, tuple(l)) != w_:
                rep.fail("multiple_edges_are_k_paths", f"k={k}: edge {(v, l, w_)}", {**inp, "k": k}); return False
    # --- recurrent
    R = F.recurrent()
    keep = M.recurrent_vertices()
    Mr = Model(keep, {e for e in M.E if e[0] in keep and e[2] in keep})
    err = coherence_error(R, Mr)
    if err:
        rep.fail("recurrent_is_largest_dead_end_free_subautomaton", err, inp); return False
    # --- shortest paths
    for root in sorted(M.V, key=repr):
        dist = M.distances(root)
        for ties in (True, False):
            Hh = F.remove_long_paths(root=root, edge_ties=ties)
            g = set(views(Hh)[0])
            short = {(v, l, w_) for (v, l, w_) in M.E if v in dist and w_ in dist and dist[w_] == dist[v] + 1}
            if ties:
                if g != short:
                    rep.fail("shortest_path_edges", f"root {root!r}: extra {sorted(g - short, key=repr)} missing {sorted(short - g, key=repr)}", {**inp, "root": repr(root)}); return False
            else:
                # a spanning structure of shortest paths: subset of the shortest-path edges reaching every reachable vertex at its distance
                if not g <= short:
                    rep.fail("shortest_path_tree_edges", f"root {root!r}: non-shortest edges {sorted(g - short, key=repr)}", {**inp, "root": repr(root)}); return False
                dh = Model(M.V, g).distances(root)
                if dh != dist:
                    rep.fail("shortest_path_tree_reaches", f"root {root!r}: {dh} vs {dist}", {**inp, "root": repr(root)}); return False
            if set(Hh._out_dict) != M.V:
                rep.fail("shortest_path_vertices", "vertex set changed", {**inp, "root": repr(root)}); return False
            err = coherence_error(Hh)
            if err:
                rep.fail("shortest_path_views", err, {**inp, "root": repr(root)}); return False
    # --- relabelling
    if all(len(x) == 1 for x in labels):
        # all kinds of injective relabellings: onto fresh letters, a cyclic permutation of the alphabet (image overlaps the
        # domain), a swap with the inverse-case letters; not in place and in place (on a copy built through the same route)
        fresh = {l: chr(ord('x') + i) for i, l in enumerate(labels)}
        cyc = {l: labels[(i + 1) % len(labels)] for i, l in enumerate(labels)}
        shift = {l: (labels[i + 1] if i + 1 < len(labels) else "z") for i, l in enumerate(labels)}
        case_swap = {**{l: l.upper() for l in labels}, **{l.upper(): l for l in labels}}
        for mname, mp in (("fresh", fresh), ("cyclic", cyc), ("shift", shift), ("case_swap", case_swap)):
            Mn = M.copy(); Mn.rename(mp)
            Rn = F.rename_generators(mp, inplace=False)
            err = coherence_error(Rn, Mn)
            if not err:
                G = build_by_route(d, starts, route)
                G.rename_generators(mp, inplace=True) if mname != "fresh" else G.rename_generators(mp)
                err = coherence_error(G, Mn)
                if not err and Mn.E:
                    (a_, l_, b_) = sorted(Mn.E, key=repr)[0]
                    if not G.accepts((l_,) if len(l_) > 1 else l_, a_):
                        err = f"renamed automaton (in place) does not accept {l_!r} from {a_!r}"
                err = err and f"in place: {err}"
            if err:
                rep.fail("relabelling_maps_language_letterwise", f"{mname} map {mp}: {err}", inp); return False
    # --- the original is unchanged by the non-in-place operations
    if snapshot(F) != before:
        rep.fail("original_unchanged", "the automaton was modified by a non-in-place operation or a query", inp); return False
    return True


@bounded(P, "small_automata", functions=F_ALL, note="all deterministic automata with <= 3 states over 2 labels (exhaustive <= 2 states; 3 states exhaustive in thorough), words to length 4, k = 1..3, all roots")
def small_automata(tier, rng, rep):
    labels = ["a", "b"]
    cases = [(d, 1) for d in all_deterministic_automata(1, labels)] + [(d, 2) for d in all_deterministic_automata(2, labels)]
    three = list(all_deterministic_automata(3, labels))
    if tier != 'thorough':
        three = [three[i] for i in rng.choice(len(three), size=250, replace=False)]
    cases += [(d, 3) for d in three]
    rep.rule = "every graph_dict on <=2 states over {a,b}, three-state ones exhaustive (thorough) / 250 sampled (quick); start states 0 and a non-zero state; the automaton is obtained through 6 construction routes in turn (complete dictionary, implicit sinks then added edges, incremental, target->labels dictionary, deep copy of an edited automaton, parallel edges added after construction); non-trivial = >= 2 edges"
    rep.bound = f"{len(cases)} automata, words up to length 4"
    rep.exhaustive = tier == 'thorough'
    for ci, (d, n) in enumerate(cases):
        for starts in ([0], [n - 1]):
            route = ROUTES[(ci + starts[0]) % len(ROUTES)] if n >= 2 else "graph_dict"
            inp = {"graph_dict": {str(k): v for k, v in d.items()}, "start": starts, "construction_route": route}
            ok = rep.attempt("operations_run", inp, lambda: check_automaton(rep, d, starts, labels, 4 if n < 3 else 3, inp, route=route))
            rep.case(key=(repr(d), starts[0]), nontrivial=sum(len(v) for v in d.values()) >= 2, sample=inp if rep.evaluations == 30 else None)
            if len(rep.failures) >= 3:
                return


@bounded(P, "larger_and_builtin_automata", functions=F_ALL, note="random automata up to 10 states x 3 labels, falsy / string / tuple state names, built-in automata")
def larger_and_builtin_automata(tier, rng, rep):
    N = 120 if tier == 'thorough' else 25
    rep.rule = "random partial transition tables, 4..10 states over 2..3 labels, state names ints from 0, strings (including ''), and tuples; built-in files with words to length 3; non-trivial = > 4 states"
    rep.bound = f"{N} random automata + built-ins"
    for t in range(N):
        n = int(rng.integers(4, 11)); labels = ["a", "b", "c"][:int(rng.integers(2, 4))]
        names = [list(range(n)), [""] + [f"s{i}" for i in range(1, n)], [(i, i % 2) for i in range(n)]][t % 3]
        d = {names[i]: {} for i in range(n)}
        for i in range(n):
            for l in labels:
                if rng.random() < 0.6:
                    d[names[i]][l] = names[int(rng.integers(0, n))]
        start = names[int(rng.integers(0, n))]
        inp = {"graph_dict": {repr(k): {l: repr(w) for l, w in v.items()} for k, v in d.items()}, "start": repr(start)}
        rep.attempt("operations_run", inp, lambda: check_automaton(rep, d, [start], labels, 3, inp, multiples=(2, 3, 4)))
        rep.case(key=(t,), nontrivial=n > 4, sample=inp if t == 0 else None)
        if len(rep.failures) >= 3:
            return
    for name in sorted(fsa.list_builtins()):
        F = fsa.load_builtin(name)
        d = {v: dict(nb) for v, nb in F.graph_dict.items()}
        labels = sorted({l for nb in d.values() for l in nb})
        if len(d) > 60 or len(labels) > 6:
            full = False
        else:
            full = True
        inp = {"builtin": name}
        rep.attempt("operations_run", inp, lambda: check_automaton(rep, d, list(F.start_vertices), labels, 3 if len(labels) <= 4 else 2, inp, multiples=(2,), full=full and len(d) <= 25))
        rep.case(key=("builtin", name))
        if len(rep.failures) >= 3:
            return


@bounded(P, "multi_letter_labels", functions=F_ALL, note="automata whose labels are words (as produced by automaton_multiple): walks, enumeration, further multiples")
def multi_letter_labels(tier, rng, rep):
    rep.rule = "even automata of all 2-state automata over {a,b} and of free automata: labels are 2-letter words; words are tuples of labels; non-trivial = >= 2 edges"
    rep.bound = "all 2-state automata"
    for d in all_deterministic_automata(2, ["a", "b"]):
        F0 = fsa.FSA(copy.deepcopy(d), [0])
        E = F0.even_automaton()
        dd = {v: dict(nb) for v, nb in E.graph_dict.items()}
        labels = sorted({l for nb in dd.values() for l in nb})
        if not labels:
            continue
        inp = {"graph_dict_of_even_automaton": {str(k): v for k, v in dd.items()}}
        rep.attempt("operations_run", inp, lambda: check_automaton(rep, dd, [0], labels, 2, inp, multiples=(), full=False))
        rep.case(key=(repr(d),), nontrivial=sum(len(v) for v in dd.values()) >= 2)
        if len(rep.failures) >= 3:
            return


@bounded(P, "pruning_with_parallel_edges", functions=[A + "FSA.recurrent", A + "FSA.delete_vertex", A + "FSA.delete_vertices", A + "FSA.enumerate_words", A + "FSA.follow_word"],
         note="recurrent version of automata in which a surviving vertex has several parallel edges (different labels) into a pruned vertex; three labels are needed for that on two states")
def pruning_with_parallel_edges(tier, rng, rep):
    labels = ["a", "b", "c"]
    cases = list(all_deterministic_automata(2, labels))
    N3 = 1500 if tier == 'thorough' else 300
    for _ in range(N3):
        n = int(rng.integers(3, 6))
        d = {s: {} for s in range(n)}
        for s in range(n):
            for l in labels + (["d"] if s % 2 else []):
                r = rng.random()
                if r < 0.75:
                    # few distinct targets per vertex: parallel edges are the common case
                    d[s][l] = int(rng.choice([0, n - 1, int(rng.integers(0, n))]))
        cases.append(d)
    rep.rule = f"all 729 automata on 2 states over {{a,b,c}}; {N3} random automata on 3..5 states over 3..4 labels with few distinct targets per vertex; recurrent (both in-place modes) compared with the model, all three views, enumeration and walks on the result; non-trivial = a surviving vertex with >= 2 edges into a pruned vertex"
    rep.bound = f"{len(cases)} automata"
    rep.exhaustive = False
    for ci, d in enumerate(cases):
        M = Model.from_graph_dict(d)
        keep = M.recurrent_vertices()
        Mr = Model(keep, {e for e in M.E if e[0] in keep and e[2] in keep})
        inp = {"graph_dict": {str(k): v for k, v in d.items()}}
        par = any(sum(1 for (v, l, w) in M.E if v == s and w == t) >= 2 for s in keep for t in M.V - keep)

        def body():
            F = fsa.FSA(copy.deepcopy(d), [0])
            before = snapshot(F)
            R = F.recurrent()
            err = coherence_error(R, Mr)
            if err:
                rep.fail("recurrent_is_largest_dead_end_free_subautomaton", err, inp); return
            if snapshot(F) != before:
                rep.fail("original_unchanged", "recurrent() changed the original automaton", inp); return
            G = fsa.FSA(copy.deepcopy(d), [0])
            G.recurrent(inplace=True)
            err = coherence_error(G, Mr)
            if err:
                rep.fail("recurrent_is_largest_dead_end_free_subautomaton", "in place: " + err, inp); return
            for s in sorted(keep):
                want = sorted("".join(w) for m in range(3) for w, e in Mr.paths(s, m))
                got = sorted(R.enumerate_words(2, start_vertex=s))
                if got != want:
                    rep.fail("enumeration_on_the_recurrent_version", f"from {s}: {got} vs {want}", {**inp, "start": s}); return
                for w in itertools.product(sorted({l for (_, l, _) in M.E}), repeat=2):
                    if R.accepts("".join(w), start_vertex=s) != (Mr.follow(s, w) is not None):
                        rep.fail("acceptance_on_the_recurrent_version", f"from {s}: word {w}", {**inp, "start": s, "word": list(w)}); return
        rep.attempt("operations_run", inp, body)
        rep.case(key=repr(d), nontrivial=par, sample=inp if ci == 400 else None)
        if len(rep.failures) >= 3:
            return


@bounded(P, "multiples_along_histories", functions=[A + "FSA.automaton_multiple", A + "FSA.even_automaton", A + "FSA.recurrent", A + "FSA.rename_generators", A + "FSA.delete_vertex", A + "FSA.add_edges"],
         note="the k-multiple is requested repeatedly on the SAME automaton object with in-place changes in between (relabelling, pruning, deleting a vertex, adding an edge), and on the "
              "recurrent copy of an automaton whose multiple was already computed: each answer is the k-multiple of the automaton as it is at that moment")
def multiples_along_histories(tier, rng, rep):
    N = 400 if tier == 'thorough' else 80
    rep.rule = f"{N} random automata on 2..4 states over {{a,b}} (plus a dead-end state); k in 1..3; histories of 2..4 in-place operations, the k-multiple checked after every step against the set model (all words to length 4)"
    rep.bound = f"{N} automata x 3 k"
    labels = ["a", "b"]
    for t in range(N):
        n = int(rng.integers(2, 5))
        d = {s: {} for s in range(n + 1)}
        for s in range(n):
            for l in labels:
                if rng.random() < 0.8:
                    d[s][l] = int(rng.integers(0, n + 1))
        inp = {"graph_dict": {str(k_): v for k_, v in d.items()}}

        def check_multiples(F, M, stage, ks=(1, 2, 3)):
            labs = sorted({l for (_, l, _) in M.E}) or ["a"]
            s0 = F.start_vertices[0]
            for k in ks:
                Fk = F.automaton_multiple(k) if (k != 2 or t % 2) else F.even_automaton()
                for nn in range(0, 5):
                    if nn % k:
                        continue
                    for w in itertools.product(labs, repeat=nn):
                        acc = s0 in M.V and M.follow(s0, w) is not None
                        blocks = tuple("".join(w[i:i + k]) for i in range(0, nn, k))
                        if Fk.accepts(blocks) != acc:
                            rep.fail("multiple_accepts_exactly_words_of_length_multiple_of_k", f"{stage}: k={k}, word {''.join(w)!r}: the automaton accepts={acc}, its k-multiple accepts={not acc}", {**inp, "stage": stage, "k": k, "word": "".join(w)})
                            return False
            return True

        def body():
            F = fsa.FSA(copy.deepcopy(d), [0])
            M = Model.from_graph_dict(d)
            if not check_multiples(F, M, "fresh automaton"):
                return
            # the recurrent copy of an automaton whose multiples were already computed
            R = F.recurrent()
            keep = M.recurrent_vertices()
            Mr = Model(keep, {e for e in M.E if e[0] in keep and e[2] in keep})
            if 0 in keep and not check_multiples(R, Mr, "recurrent() copy after the multiples of the original were computed"):
                return
            hist = []
            for _ in range(int(rng.integers(2, 5))):
                op = str(rng.choice(["rename_swap", "recurrent_inplace", "delete_vertex", "add_edge"]))
                if op == "rename_swap":
                    mp = {"a": "b", "b": "a"}
                    F.rename_generators(mp); M.rename(mp)
                elif op == "recurrent_inplace":
                    F.recurrent(inplace=True)
                    for v in list(M.V - M.recurrent_vertices()):
                        M.delete_vertex(v)
                elif op == "delete_vertex":
                    cand = [v for v in sorted(M.V) if v != 0]
                    if not cand:
                        continue
                    v = cand[int(rng.integers(0, len(cand)))]
                    F.delete_vertex(v); M.delete_vertex(v)
                else:
                    free = [(v, l) for v in sorted(M.V) for l in labels if M.step(v, l) is None]
                    if not free:
                        continue
                    v, l = free[int(rng.integers(0, len(free)))]
                    w_ = sorted(M.V)[int(rng.integers(0, len(M.V)))]
                    F.add_edges([(v, w_, l)]); M.add_edge(v, w_, l)
                hist.append(op)
                if 0 not in M.V:
                    return
                if not check_multiples(F, M, "after " + ", ".join(hist)):
                    return
        rep.attempt("operations_run", inp, body)
        rep.case(key=(t,), nontrivial=True, sample=inp if t == 0 else None)
        if len(rep.failures) >= 3:
            return


@bounded(P, "states_with_unusual_names", functions=[A + "FSA.initial_accepted_subword", A + "FSA.initial_rejected_subword", A + "FSA.accepts", A + "FSA.follow_word", A + "FSA.enumerate_words"],
         note="automata with a state literally named None (also 0, '', (), False-like names) that is entered by accepted words: the longest-accepted-prefix queries, the acceptance test, the "
              "walk and the enumerators agree (the set model's path enumeration, which needs no 'undefined' marker, is the oracle)")
def states_with_unusual_names(tier, rng, rep):
    N = 150 if tier == 'thorough' else 40
    rep.rule = f"{N} random automata on 3..5 states named from [None, 0, '', (), 'x', (0, None)] over {{a, b}}; explicit keys and hidden targets; every word to length 4 from the default start state"
    rep.bound = f"{N} automata x 31 words"
    pool = [None, 0, "", (), "x", (0, None)]
    for t in range(N):
        nv = int(rng.integers(3, 6))
        names = [pool[i] for i in rng.permutation(len(pool))[:nv]]
        if None not in names:
            names[-1] = None
        start = next(nm for nm in names if nm is not None)
        d = {}
        for v in names:
            d[v] = {l: names[int(rng.integers(0, nv))] for l in ["a", "b"] if rng.random() < 0.8}
        if rng.random() < 0.5:
            d.pop(None, None)           # None only as a hidden target
            if not any(w is None for nb in d.values() for w in nb.values()):
                d[start]["a"] = None
        if start not in d:
            d[start] = {"a": None}
        inp = {"graph_dict": {repr(k): {l: repr(w) for l, w in nb.items()} for k, nb in d.items()}, "start": repr(start)}

        def body():
            F = fsa.FSA(copy.deepcopy(d), [start])
            M = Model.from_graph_dict(d)
            acc = {0: {(): start}}
            for n in range(1, 5):
                acc[n] = {w: e for w, e in M.paths(start, n)}
            for n in range(0, 5):
                for w in itertools.product(["a", "b"], repeat=n):
                    word = "".join(w)
                    k = max(j for j in range(n + 1) if w[:j] in acc[j])
                    if F.accepts(word) != (k == n):
                        rep.fail("acceptance_agrees_with_the_walk", f"accepts({word!r}) = {F.accepts(word)}", {**inp, "word": word}); return
                    got = F.initial_accepted_subword(word)
                    if got != word[:k]:
                        rep.fail("initial_accepted_subword", f"{word!r}: got {got!r}, the longest accepted prefix is {word[:k]!r} (it ends in state {acc[k][w[:k]]!r})", {**inp, "word": word}); return
                    rej = F.initial_rejected_subword(word)
                    want = word[:k + 1] if k < n else ""
                    if k < n and rej != want:
                        rep.fail("initial_rejected_subword", f"{word!r}: got {rej!r} expected {want!r}", {**inp, "word": word}); return
                    if k == n and F.follow_word(word) != acc[n][w] and not (F.follow_word(word) is None and acc[n][w] is None):
                        rep.fail("follow_word_end_state", f"{word!r}", {**inp, "word": word}); return
            own = sorted(F.enumerate_words(3))
            want_all = sorted("".join(w) for n in range(4) for w in acc[n])
            if own != want_all:
                rep.fail("enumerate_words", f"{own} vs {want_all}", inp)
        rep.attempt("operations_run", inp, body)
        rep.case(key=(t,), nontrivial=True, sample=inp if t == 0 else None)
        if len(rep.failures) >= 3:
            return
