"""C11 - derived data stays coherent with primary data; queries do not move objects (DESIGN.md section 3, C11)."""
import copy as _copy
import numpy as np
from vf.api import rcontract, bounded
from geometry_tools import projective as pr, hyperbolic as h, utils
from contracts import spec
from contracts.c03 import _isom

P = "C11"
PR = "geometry_tools/projective.py:"
HY = "geometry_tools/hyperbolic.py:"
F_OPS = [PR + "ProjectiveObject.__init__", PR + "ProjectiveObject.set", PR + "ProjectiveObject._construct_from_object", PR + "ProjectiveObject.reshape",
         PR + "ProjectiveObject.flatten_to_unit", PR + "ProjectiveObject.__getitem__", PR + "ProjectiveObject.__setitem__", PR + "ProjectiveObject.combine",
         PR + "ProjectiveObject.astype", PR + "Transformation.apply", PR + "Polygon._compute_aux_data", HY + "Segment._compute_aux_data",
         HY + "TangentVector._compute_aux_data", HY + "Polygon._compute_aux_data"]


def aux_ok(ctx, tag, obj):
    """Aux(obj): the stored derived data equals, projectively row by row, what is recomputed from the primary data"""
    want = type(obj)._compute_aux_data(obj, np.array(obj.proj_data, copy=True))
    have = obj.aux_data
    ctx.ensure_true(tag + '_aux_present', have is not None and np.shape(have) == np.shape(want), f"{np.shape(have)} vs {np.shape(want)}")
    if have is not None and np.shape(have) == np.shape(want):
        ctx.ensure_eq(tag + '_aux_coherent', have, want, proj=True, tol=1e-6)


def edges_ok(ctx, tag, poly):
    """the edge segments a hyperbolic polygon hands out join consecutive vertices of its CURRENT primary data"""
    E = poly.get_edges()
    p = np.asarray(poly.proj_data)
    want = np.stack([p, np.roll(p, -1, axis=-2)], axis=-2)
    ctx.ensure_true(tag + '_shape', np.shape(E.proj_data) == np.shape(want), f"{np.shape(E.proj_data)} vs {np.shape(want)}")
    if np.shape(E.proj_data) == np.shape(want):
        ctx.ensure_eq(tag, E.proj_data, want, proj=True, tol=1e-6)


def same_points(ctx, tag, new, old):
    ctx.ensure_eq(tag, new, old, proj=True, tol=1e-6)


def _klein(ctx, name, shape, n):
    k = ctx.reals(name, shape + (n,), lambda r: r.uniform(-0.55, 0.55, shape + (n,)))
    ctx.assume(spec.nsq(k), '<', 1)
    return k


def make(ctx, cls, shape, n, name='p'):
    """a composite object of class cls together with a function rebuilding one unit (for set-item / stacking)"""
    if cls == "ProjPolygon":
        return pr.Polygon(ctx.reals(name, shape + (3, n + 1)))
    if cls == "Segment":
        k = _klein(ctx, name, shape + (2,), n)
        ctx.assume(spec.nsq(k[..., 0, :] - k[..., 1, :]), '>', 0)
        return h.Segment(h.Point(k, model="klein"))
    if cls == "HypPolygon":
        k = _klein(ctx, name, shape + (3,), n)
        for i in range(3):
            ctx.assume(spec.nsq(k[..., i, :] - k[..., (i + 1) % 3, :]), '>', 0)
        return h.Polygon(h.Point(k, model="klein"))
    if cls == "TangentVector":
        k = _klein(ctx, name, shape, n)
        return h.TangentVector(h.Point(k, model="klein"), ctx.reals(name + 'v', shape + (n + 1,)))
    raise ValueError(cls)


CLASSES = ["ProjPolygon", "Segment", "HypPolygon", "TangentVector"]


@rcontract(P, "aux_invariant_operations", instances=[dict(cls=c, op=o) for c in CLASSES for o in
                                                     ("construct", "apply", "restructure", "setitem", "combine")],
           timeout=150.0, max_paths=60, functions=F_OPS)
def aux_invariant_operations(ctx, cls, op):
    """every public operation establishes / preserves Aux on its result and on its inputs (a class invariant, so it holds
    after any history of these operations)"""
    ctx.world and setattr(ctx.world, 'ngen_limit', 300)
    n = 2
    X = make(ctx, cls, (2,), n)
    aux_ok(ctx, 'input', X)
    p0, a0 = np.array(X.proj_data, copy=True), np.array(X.aux_data, copy=True)
    if op == "construct":
        aux_ok(ctx, 'from_object', type(X)(X))
        aux_ok(ctx, 'from_iterable_of_objects', type(X)([X[0], X[1]]))
        aux_ok(ctx, 'from_array', type(X)(np.array(X.proj_data, copy=True)) if cls != "TangentVector" else h.TangentVector(np.array(X.proj_data, copy=True)))
    elif op == "apply":
        T = _isom(ctx, n, 'a') if cls != "ProjPolygon" else pr.Transformation(ctx.reals('T', (n + 1, n + 1)))
        Y = T @ X
        ctx.ensure_true('type', type(Y) is type(X))
        T2 = h.Isometry(np.stack([T.proj_data, T.proj_data @ T.proj_data])) if cls != "ProjPolygon" else pr.Transformation(np.stack([T.proj_data, T.proj_data @ T.proj_data]))
        Y2 = T2.apply(X, broadcast="pairwise")
        if cls in ("Segment", "HypPolygon") and ctx.mode == 'sym':
            # modular: `apply` multiplies primary and derived data by the matrix (checked here, for the symbolic isometry
            # and for the pairwise composite); _compute_aux_data is projectively equivariant under the generators of
            # O(n,1) for arbitrary representatives (obligation aux_equivariance), hence under every isometry; together
            # with Aux(X) this gives Aux(T @ X).  Recomputing the ideal endpoints of the image symbolically is far too
            # large; the bounded stand-in below (numeric mode) still checks the end-to-end statement directly.
            M = T.proj_data
            ctx.ensure_eq('image_primary_is_primary_times_matrix', Y.proj_data, p0 @ M)
            ctx.ensure_eq('image_derived_is_derived_times_matrix', Y.aux_data, a0 @ M)
            ctx.ensure_true('pairwise_shape', Y2.shape == (2, 2), f"{Y2.shape}")
            for i in range(2):
                for j, Mj in enumerate((M, M @ M)):
                    ctx.ensure_eq(f'pairwise{i}{j}_primary', Y2.proj_data[i, j], p0[i] @ Mj)
                    ctx.ensure_eq(f'pairwise{i}{j}_derived', Y2.aux_data[i, j], a0[i] @ Mj)
        else:
            aux_ok(ctx, 'image', Y)
            aux_ok(ctx, 'image_pairwise', Y2)
    elif op == "restructure":
        aux_ok(ctx, 'reshape', X.reshape((1, 2)))
        aux_ok(ctx, 'flatten', X.reshape((2, 1)).flatten_to_unit())
        aux_ok(ctx, 'getitem', X[1])
        aux_ok(ctx, 'getitem_slice', X[:1])
    elif op == "setitem":
        Z = make(ctx, cls, (), n, name='z')
        Y = type(X)(X)
        if cls == "HypPolygon":
            edges_ok(ctx, 'edges_query_before_setitem', Y)     # a query of the derived data before the assignment (it may be cached)
        Y[0] = Z
        aux_ok(ctx, 'after_setitem', Y)
        if cls == "HypPolygon":
            edges_ok(ctx, 'edges_query_after_setitem', Y)
        same_points(ctx, 'setitem_value_stored', Y.proj_data[0], Z.proj_data)
        same_points(ctx, 'setitem_other_units_kept', Y.proj_data[1], p0[1])
        aux_ok(ctx, 'value_object_unchanged', Z)
    elif op == "combine":
        Z = make(ctx, cls, (), n, name='z')
        C = type(X).combine([X, Z])
        ctx.ensure_true('type', type(C) is type(X))
        ctx.ensure_true('shape', C.shape == (3,), f"{C.shape}")
        aux_ok(ctx, 'combined', C)
        same_points(ctx, 'combined_units', C.proj_data, np.concatenate([p0, np.asarray(Z.proj_data)[None]], axis=0))
    # the inputs still satisfy Aux and still represent the same points
    aux_ok(ctx, 'input_after', X)
    same_points(ctx, 'input_points_unchanged', X.proj_data, p0)
    same_points(ctx, 'input_aux_unchanged', X.aux_data, a0)


@rcontract(P, "aux_equivariance", instances=[dict(cls=c, gen=g) for c in ("Segment", "HypPolygon") for g in ("rotation", "loxodromic", "reflection")],
           timeout=150.0, max_paths=60, functions=[HY + "Segment._compute_aux_data", HY + "Polygon._compute_aux_data"])
def aux_equivariance(ctx, cls, gen):
    """_compute_aux_data(x M) = _compute_aux_data(x) M projectively, for ARBITRARY representatives x of the vertices and
    M a generator of O(2,1) (rotation by a symbolic angle, standard loxodromic with a symbolic parameter, a reflection):
    by induction on word length it holds for every isometry, because x M is again an arbitrary representative"""
    n = 2
    m = 2 if cls == "Segment" else 3
    k = _klein(ctx, 'k', (m,), n)
    for i in range(m if m > 2 else 1):
        ctx.assume(spec.nsq(k[i] - k[(i + 1) % m]), '>', 0)
    sc = ctx.reals('s', (m, 1), lambda r: r.choice([-1.0, 1.0], size=(m, 1)) * r.uniform(0.3, 3, (m, 1)))
    ctx.assume(sc * sc, '>', 0)
    x = sc * spec.k2proj(k)
    if gen == "rotation":
        M = h.Isometry.standard_rotation(ctx.real('th', lambda r: r.uniform(-3, 3)), dimension=n).proj_data
    elif gen == "loxodromic":
        lam = ctx.real('lam', lambda r: r.uniform(0.4, 2.5))
        ctx.assume(lam, '>', 0)
        M = h.Isometry.standard_loxodromic(n, lam).proj_data
    else:
        M = np.diag([1, 1, -1])
    obj = object.__new__(h.Segment if cls == "Segment" else h.Polygon)
    f = type(obj)._compute_aux_data
    a0 = f(obj, np.array(x, copy=True))
    a1 = f(obj, x @ M)
    ctx.ensure_true('shape', np.shape(a0) == np.shape(a1), f"{np.shape(a0)} vs {np.shape(a1)}")
    ctx.ensure_eq('equivariant', a1, a0 @ M, proj=True, tol=1e-6)


QUERIES = ["coords_klein", "coords_poincare", "coords_halfspace", "coords_hyperboloid", "coords_projective", "distance", "origin_to",
           "unit_tangent_towards", "segment_queries", "tangent_queries"]


@rcontract(P, "queries_do_not_move_objects", instances=[dict(q=q, shape=s) for q in QUERIES for s in ((), (2,)) if not (q in ("segment_queries", "tangent_queries") and s == (2,))],
           thorough=[dict(q="segment_queries", shape=(2,)), dict(q="tangent_queries", shape=(2,))],
           timeout=150.0, max_paths=60,
           functions=[HY + "Point.coords", HY + "Point.distance", HY + "Point.origin_to", HY + "Point.unit_tangent_towards", HY + "hyperboloid_coords",
                      "geometry_tools/utils/core.py:normalize", HY + "Segment.circle_parameters", HY + "Subspace.sphere_parameters",
                      HY + "TangentVector.origin_to", HY + "TangentVector.point_along", HY + "TangentVector.normalized", HY + "TangentVector.angle"])
def queries_do_not_move_objects(ctx, q, shape):
    """after any read-only query the object and the caller's input arrays represent the same points as before"""
    n = 2
    shape = tuple(shape)
    samp = lambda r: np.concatenate([r.choice([-1, 1], size=shape + (1,)) * r.uniform(1.5, 3, shape + (1,)), r.uniform(-0.7, 0.7, shape + (n,))], axis=-1)
    if q == "segment_queries":       # points given by Klein coordinates (arbitrary representatives make the run too slow)
        kx = _klein(ctx, 'kx', shape, n); ky = _klein(ctx, 'ky', shape, n)
        x, y = spec.k2proj(kx), spec.k2proj(ky)
    else:
        x = ctx.reals('x', shape + (n + 1,), samp)
        y = ctx.reals('y', shape + (n + 1,), samp)
    ctx.assume(spec.mink(x, x), '<', 0)
    ctx.assume(spec.mink(y, y), '<', 0)
    cr = x[..., 0] * y[..., 1] - x[..., 1] * y[..., 0]
    ctx.assume(cr * cr, '>', 0)
    d_ = x - y
    if q == "segment_queries":
        ctx.assume(spec.mink(d_, d_) * spec.mink(d_, d_), '>', 0)    # the code's own precondition: q(e0 - e1) != 0
    xin, yin = np.array(x, copy=True), np.array(y, copy=True)      # the caller's arrays
    A, B = h.Point(xin), h.Point(yin)
    objs = {"A": A, "B": B}
    if q.startswith("coords_"):
        A.coords(q.split("_")[1])
    elif q == "distance":
        A.distance(B)
    elif q == "origin_to":
        A.origin_to()
    elif q == "unit_tangent_towards":
        A.unit_tangent_towards(B)
    elif q == "segment_queries":
        S = h.Segment(A, B)
        objs["S"] = S
        s_p, s_a = np.array(S.proj_data, copy=True), np.array(S.aux_data, copy=True)
        e0 = np.zeros(n + 1); e0[0] = 1; e0[1] = 1
        S.endpoint_coords("klein"); S.ideal_endpoint_coords("klein")
        S.get_endpoints(); S.geodesic()
        same_points(ctx, 'segment_points_unchanged', S.proj_data, s_p)
        same_points(ctx, 'segment_aux_unchanged', S.aux_data, s_a)
    elif q == "tangent_queries":
        v = ctx.reals('v', shape + (n + 1,))
        qx, bxv, qv = spec.mink(x, x), spec.mink(x, v), spec.mink(v, v)
        ctx.assume(qv * qx - bxv * bxv, '<', 0)
        piv = x[..., 0] * v[..., 1] - x[..., 1] * v[..., 0]
        ctx.assume(piv * piv, '>', 0)
        vin = np.array(v, copy=True)
        tv = h.TangentVector(A, vin)
        t_p, t_a = np.array(tv.proj_data, copy=True), np.array(tv.aux_data, copy=True)
        tv.origin_to(); tv.normalized(); tv.point_along(0.5)
        same_points(ctx, 'tangent_points_unchanged', tv.proj_data, t_p)
        same_points(ctx, 'tangent_aux_unchanged', tv.aux_data, t_a)
        # the object's point (primary data) and vector (derived data) may each be rescaled, but the tangent DIRECTION
        # they denote must not flip: the two scale factors have the same sign
        pt_new, vec_new = tv.point, tv.vector
        s_pt = (pt_new * t_p[..., 0, :]).sum(axis=-1)
        s_vec = (vec_new * t_a[..., 1, :]).sum(axis=-1)
        ctx.ensure('tangent_direction_not_reversed', s_pt * s_vec, '>', 0)
        same_points(ctx, 'caller_vector_array_unchanged', vin, v)
    same_points(ctx, 'object_A_unchanged', A.proj_data, x)
    same_points(ctx, 'object_B_unchanged', B.proj_data, y)
    same_points(ctx, 'caller_array_x_unchanged', xin, x)
    same_points(ctx, 'caller_array_y_unchanged', yin, y)


@bounded(P, "histories", functions=F_OPS, note="random operation histories up to depth 6 on polygons, segments, tangent vectors of shapes (), (2,), (2,3), with astype and fixed-point queries")
def histories(tier, rng, rep):
    N = 300 if tier == 'thorough' else 60
    rep.rule = ("random histories of depth 3..6 drawn from {construct, copy, apply, reshape, flatten, index, set item, stack, combine, astype} interleaved with queries; "
                "Aux checked against an independent recomputation after every step, also on every object created earlier in the history (aliasing); non-trivial = history with set item / combine / astype")
    rep.bound = f"{N} histories"

    def klein(shape, n=2):
        v = rng.normal(size=shape + (n,))
        return v / np.linalg.norm(v, axis=-1, keepdims=True) * rng.uniform(0.05, 0.9, size=shape + (1,))

    def mk(cls, shape):
        if cls == "ProjPolygon":
            return pr.Polygon(rng.normal(size=shape + (4, 3)))
        if cls == "Segment":
            return h.Segment(h.Point(klein(shape + (2,)), model="klein"))
        if cls == "HypPolygon":
            return h.Polygon(h.Point(klein(shape + (4,)), model="klein"))
        return h.TangentVector(h.Point(klein(shape), model="klein"), rng.normal(size=shape + (3,)))

    def recompute(o):
        """independent oracle for Aux (not the library's own _compute_aux_data)"""
        p = o.proj_data
        if isinstance(o, h.TangentVector):
            x, v = p[..., 0, :], p[..., 1, :]
            vp = v - x * (spec.mink(v, x) / spec.mink(x, x))[..., None]
            return np.stack([x, vp], axis=-2)
        if isinstance(o, h.Segment):
            a, b = p[..., 0, :], p[..., 1, :]
            # null points of the line: roots of q(a + s (b-a)) = 0
            d = b - a
            A_, B_, C_ = spec.mink(d, d), 2 * spec.mink(a, d), spec.mink(a, a)
            disc = np.sqrt(B_ * B_ - 4 * A_ * C_)
            s1, s2 = (-B_ + disc) / (2 * A_), (-B_ - disc) / (2 * A_)
            return np.stack([a + s1[..., None] * d, a + s2[..., None] * d], axis=-2)
        if isinstance(o, h.Polygon):
            q = np.roll(p, -1, axis=-2)
            return np.stack([p, q], axis=-2)          # endpoints of the edge segments (first two rows of each edge's data)
        return np.stack([p, np.roll(p, -1, axis=-2)], axis=-2)

    def coherent(o):
        want = recompute(o)
        have = o.aux_data
        if have is None:
            return "aux_data missing"
        if isinstance(o, h.Segment):
            # unordered pair of projective points
            def cross(u, w):
                m = u[..., :, None] * w[..., None, :]
                return np.max(np.abs(m - np.swapaxes(m, -1, -2)))
            if have.shape != want.shape:
                return f"aux shape {have.shape} vs {want.shape}"
            direct = max(cross(have[..., 0, :], want[..., 0, :]), cross(have[..., 1, :], want[..., 1, :]))
            if direct > 1e-6:
                # per unit, allow the swapped order
                for idx in np.ndindex(*have.shape[:-2]):
                    d1 = max(cross(have[idx][0], want[idx][0]), cross(have[idx][1], want[idx][1]))
                    d2 = max(cross(have[idx][0], want[idx][1]), cross(have[idx][1], want[idx][0]))
                    if min(d1, d2) > 1e-6 * max(1.0, np.max(np.abs(have[idx])) * np.max(np.abs(want[idx]))):
                        return f"ideal endpoints stale at unit {idx}"
            return None
        if isinstance(o, h.Polygon):
            have = have[..., :2, :] if have.ndim == want.ndim + 0 and have.shape[-2] != 2 else have
            ends = o.aux_data[..., :, :2, :] if o.aux_data.ndim >= 3 else o.aux_data
            have = ends
        if have.shape != want.shape:
            return f"aux shape {have.shape} vs {want.shape}"
        m = have[..., :, None] * want[..., None, :]
        if not np.all(np.abs(m - np.swapaxes(m, -1, -2)) <= 1e-6 * max(1.0, np.max(np.abs(m)))):
            return "derived data stale"
        if not np.all(np.isfinite(have)):
            return "nan in derived data"
        return None

    for t in range(N):
        cls = ["ProjPolygon", "Segment", "HypPolygon", "TangentVector"][t % 4]
        shape = [(2,), (2, 3), (3,)][(t // 4) % 3]
        hist = ["construct"]
        nontrivial = False

        def body():
            nonlocal nontrivial
            objs = [mk(cls, shape)]
            depth = int(rng.integers(3, 7))
            for step in range(depth):
                X = objs[int(rng.integers(0, len(objs)))]
                op = str(rng.choice(["copy", "apply", "reshape", "flatten", "index", "setitem", "stack", "combine", "astype", "query", "from_object"]))
                hist.append(op)
                if op == "copy":           # copying = constructing from the object (the library's own notion, cf. test_copy_point)
                    objs.append(type(X)(X))
                elif op == "from_object":
                    objs.append(type(X)(X))
                elif op == "apply":
                    if cls == "ProjPolygon":
                        T = pr.Transformation(rng.normal(size=(3, 3)))
                    else:
                        T = h.Isometry.standard_rotation(rng.uniform(-3, 3)) @ h.Isometry.standard_loxodromic(2, rng.uniform(0.5, 2))
                    objs.append(T @ X)
                elif op == "reshape" and len(X.shape) >= 1:
                    objs.append(X.reshape((int(np.prod(X.shape)),) if rng.random() < 0.5 else X.shape[::-1]))
                elif op == "flatten":
                    objs.append(X.flatten_to_unit())
                elif op == "index" and len(X.shape) >= 1:
                    objs.append(X[int(rng.integers(0, X.shape[0]))])
                elif op == "setitem" and len(X.shape) >= 1:
                    nontrivial = True
                    i = int(rng.integers(0, X.shape[0]))
                    X[i] = mk(cls, X.shape[1:])
                elif op == "stack":
                    objs.append(type(X)([X, type(X)(X)]))
                elif op == "combine":
                    nontrivial = True
                    objs.append(type(X).combine([X, mk(cls, ())]))
                elif op == "astype":
                    nontrivial = True
                    objs.append(X.astype('float64'))
                elif op == "query":
                    if isinstance(X, h.Segment):
                        X.endpoint_coords("poincare"); X.ideal_endpoint_coords("halfspace")
                        with np.errstate(all='ignore'):
                            X.flatten_to_unit().circle_parameters(model="poincare")
                    elif isinstance(X, h.TangentVector):
                        X.origin_to(); X.normalized(); X.point_along(0.3)
                    elif isinstance(X, h.Polygon):
                        X.get_vertices().coords("poincare"); X.get_edges()
                    else:
                        X.get_edges(); X.affine_coords(chart_index=0) if np.all(X.proj_data[..., 0] != 0) else None
                for k_, o in enumerate(objs):
                    msg = coherent(o)
                    if msg:
                        rep.fail("aux_coherent_after_history", f"object #{k_} ({type(o).__name__}, shape {o.shape}) after {hist}: {msg}",
                                 {"class": cls, "shape": list(shape), "history": list(hist), "seed_round": t})
                        return
        rep.attempt("history_runs", {"class": cls, "shape": list(shape), "history": hist, "seed_round": t}, body)
        rep.case(key=(t,), nontrivial=nontrivial, sample={"class": cls, "shape": list(shape), "history": list(hist)} if t < 2 else None)


@bounded(P, "integer_typed_objects", functions=[HY + "Point.coords", HY + "Point.hyperboloid_coords", HY + "Point.distance", HY + "Point.origin_to", "geometry_tools/utils/core.py:normalize"],
         note="objects whose homogeneous coordinates are stored with an integer dtype (lattice points): read-only queries neither move them nor leave derived data stale")
def integer_typed_objects(tier, rng, rep):
    rep.rule = ("random int64 timelike lattice vectors (|coordinates| <= 6), n = 2, 3; Point (shapes (), (3,)), Segment, Polygon, TangentVector; after construct / copy / index / reshape every "
                "read-only query (coordinates in five models, distance to / from another point, origin_to, unit tangent, circle parameters) is followed by: same projective points as the "
                "integer input, derived data projectively equal to that of a float64 twin")
    N = 60 if tier == 'thorough' else 15
    rep.bound = f"{N} rounds x 4 classes"

    def tl(shape, n):
        while True:
            sp = rng.integers(-4, 5, size=shape + (n,))
            x = np.concatenate([np.sum(np.abs(sp), axis=-1, keepdims=True) + rng.integers(1, 3, size=shape + (1,)), sp], axis=-1).astype(np.int64)
            if shape == () or len({tuple(r) for r in x.reshape(-1, n + 1)}) == int(np.prod(shape)):
                return x

    def same_rows(a, b):
        a, b = np.asarray(a, dtype=float), np.asarray(b, dtype=float)
        if a.shape != b.shape or not np.all(np.isfinite(a)):
            return False
        m = a[..., :, None] * b[..., None, :]
        nz = np.all(np.any(a != 0, axis=-1))
        return bool(nz and np.all(np.abs(m - np.swapaxes(m, -1, -2)) <= 1e-7 * max(1.0, np.max(np.abs(m)))))

    queries = {
        "coords_klein": lambda o, q: o.coords("klein"), "coords_poincare": lambda o, q: o.coords("poincare"), "coords_halfspace": lambda o, q: o.coords("halfspace"),
        "coords_hyperboloid": lambda o, q: o.coords("hyperboloid"), "coords_projective": lambda o, q: o.coords("projective"),
        "distance_to": lambda o, q: h.Point(o).distance(q) if o.proj_data.ndim == q.proj_data.ndim else None,
        "distance_from": lambda o, q: q.distance(h.Point(o)) if o.proj_data.ndim == q.proj_data.ndim else None,
    }
    for t in range(N):
        n = 2 if t % 3 else 3
        for cls in ("Point", "PointComposite", "Segment", "HypPolygon", "TangentVector"):
            shape = {"Point": (), "PointComposite": (3,), "Segment": (2,), "HypPolygon": (4,), "TangentVector": ()}[cls]
            x = tl(shape, n)
            mk = {"Point": h.Point, "PointComposite": h.Point, "Segment": h.Segment, "HypPolygon": h.Polygon}.get(cls)
            inp = {"class": cls, "n": n, "integer_coordinates": x.tolist()}

            def body():
                if cls == "TangentVector":
                    vv = rng.integers(-3, 4, size=(n + 1,)).astype(np.int64)
                    if not np.any(vv[1:]):
                        vv[1] = 1
                    build = lambda dt: h.TangentVector(h.Point(x.astype(dt)), vv.astype(dt))
                else:
                    build = lambda dt: mk(h.Point(x.astype(dt))) if cls in ("Segment", "HypPolygon") else h.Point(x.astype(dt))
                q = h.Point(tl((), n).astype(float))
                for qname, f in queries.items():
                    for hist in ("construct", "copy", "reshape", "stack"):
                        o = build(np.int64)
                        twin = build(float)
                        if hist == "stack":          # a list of integer-typed objects stacked into one composite (derived data may be fractional)
                            o = type(o)([o, build(np.int64)])
                            twin = type(twin)([twin, build(float)])
                        if hist == "copy":
                            o = type(o)(o)
                        elif hist == "reshape" and o.shape != ():
                            o = o.reshape(o.shape + (1,)).flatten_to_unit() if hasattr(o, "flatten_to_unit") else o
                        p_before = np.array(o.proj_data, dtype=float, copy=True)
                        try:
                            f(o, q)
                        except Exception as e:
                            if qname.startswith("distance") or isinstance(o, h.TangentVector):
                                continue          # not a query of this class / shape
                            rep.fail("query_runs", f"{qname} after {hist}: {type(e).__name__}: {e}", {**inp, "query": qname}); return
                        if not same_rows(o.proj_data, p_before):
                            rep.fail("query_does_not_move_the_object", f"{qname} after {hist}: {np.asarray(o.proj_data).tolist()} was {p_before.tolist()}", {**inp, "query": qname, "history": hist}); return
                        if o.aux_data is not None and twin.aux_data is not None and np.shape(o.aux_data) == np.shape(twin.aux_data):
                            if not same_rows(o.aux_data, twin.aux_data):
                                rep.fail("derived_data_coherent", f"{qname} after {hist}", {**inp, "query": qname, "history": hist}); return
            rep.attempt("integer_object_runs", inp, body)
            rep.case(key=(t, cls), nontrivial=True, sample=inp if t == 0 and cls == "Segment" else None)


def _same_rows(a, b):
    """rows projectively equal and finite; a row that was exactly zero (zero tangent vector) must stay exactly zero"""
    a, b = np.asarray(a, dtype=float), np.asarray(b, dtype=float)
    if a.shape != b.shape or not np.all(np.isfinite(a)):
        return False
    m = a[..., :, None] * b[..., None, :]
    nz = np.all(np.any(a != 0, axis=-1) == np.any(b != 0, axis=-1))
    return bool(nz and np.all(np.abs(m - np.swapaxes(m, -1, -2)) <= 1e-9 * max(1.0, np.max(np.abs(m)))))


@bounded(P, "exactly_lightlike_vertices", functions=[HY + "Point.coords", HY + "Point.hyperboloid_coords", HY + "Point.distance", HY + "Point.origin_to", HY + "TangentVector.normalized",
                                                      HY + "TangentVector.origin_to", HY + "TangentVector.angle", "geometry_tools/utils/core.py:normalize"],
         note="objects with vertices whose stored representative is EXACTLY lightlike in floating point (ideal triangles, rays, Pythagorean null vectors, zero tangent vectors): "
              "read-only queries leave stored primary and derived data, and the caller's arrays, projectively unchanged and finite")
def exactly_lightlike_vertices(tier, rng, rep):
    N = 40 if tier == 'thorough' else 10
    rep.rule = ("null vectors (1, e_i), (1, -e_i), (5,3,4), (5,4,3), (13,5,12), (3,2,2,1), (2.5,1.5,2.0), random integer multiples; mixed with interior lattice points; classes Point / IdealPoint "
                "(shapes (), (3,)), Segment (ray and ideal-ideal), Polygon (ideal triangle, one ideal vertex), TangentVector with zero / null vector; queries: coords in 5 models, "
                "hyperboloid_coords, distance to / from, origin_to, get_edges, circle_parameters, normalized, angle; a query may refuse (raise) but never move data")
    rep.bound = f"{N} rounds x 7 object kinds x 12 queries"
    nulls = {2: [[1, 1, 0], [1, 0, 1], [1, -1, 0], [1, 0, -1], [5, 3, 4], [5, 4, -3], [13, 5, 12], [2.5, 1.5, 2.0], [-5, 3, 4]],
             3: [[1, 1, 0, 0], [1, 0, 0, -1], [3, 2, 2, 1], [3, 1, -2, 2], [9, 4, 4, 7], [1.5, 1.0, 1.0, 0.5]]}

    def null(n):
        v = np.array(nulls[n][int(rng.integers(0, len(nulls[n])))], dtype=float)
        return v * float(rng.choice([1, 1, 2, 3, 0.5]))

    def inner(n):
        sp = rng.integers(-3, 4, size=n).astype(float)
        return np.concatenate([[np.sum(np.abs(sp)) + 1.0], sp])

    queries = {
        "coords_klein": lambda o, q: o.coords("klein"), "coords_poincare": lambda o, q: o.coords("poincare"), "coords_halfspace": lambda o, q: o.coords("halfspace"),
        "coords_hyperboloid": lambda o, q: o.coords("hyperboloid"), "coords_projective": lambda o, q: o.coords("projective"),
        "hyperboloid_coords": lambda o, q: o.hyperboloid_coords(),
        "distance_to": lambda o, q: h.Point(o).flatten_to_unit().distance(h.Point(np.broadcast_to(q.proj_data, h.Point(o).flatten_to_unit().proj_data.shape).copy())),
        "distance_from": lambda o, q: q.distance(h.Point(o).flatten_to_unit()[0]),
        "origin_to": lambda o, q: h.Point(o).origin_to(), "get_edges": lambda o, q: o.get_edges().coords("klein"),
        "circle_parameters": lambda o, q: o.flatten_to_unit().circle_parameters(model="poincare"),
        "tangent_queries": lambda o, q: (o.normalized(), o.origin_to(), o.angle(h.TangentVector(o.point, np.eye(o.dimension + 1)[1]))),
    }
    for t in range(N):
        n = 2 if t % 3 else 3
        kinds = {
            "IdealPoint": lambda: h.IdealPoint(null(n)), "Points": lambda: h.Point(np.array([null(n), inner(n), null(n)])),
            "Ray": lambda: h.Segment(h.Point(np.array([inner(n), null(n)]))), "IdealSegment": lambda: (lambda v: h.Segment(h.Point(np.array([v, -2 * v * np.array([1] + [-1] * n)]))))(null(n)),
            "IdealTriangle": lambda: h.Polygon(h.Point(np.array([[1, 1, 0], [1, 0, 1], [5, -3, -4]], dtype=float) * rng.choice([1., 2.], size=(3, 1)))) if n == 2 else None,
            "OneIdealVertex": lambda: h.Polygon(h.Point(np.array([null(n), inner(n), inner(n) * np.array([1] + [-1] * n)]))),
            "ZeroTangent": lambda: h.TangentVector(h.Point(inner(n)), np.zeros(n + 1) if t % 2 else null(n)),
        }
        for kind, mk in kinds.items():
            for qname, f in queries.items():
                state = rng.bit_generator.state
                with np.errstate(all='ignore'):
                    o = mk()
                    if o is None:
                        continue
                    rng.bit_generator.state = state
                    twin = mk()
                q = h.Point(inner(n) if rng.random() < 0.6 else null(n))
                q_before = np.array(q.proj_data, copy=True)
                inp = {"kind": kind, "n": n, "query": qname, "proj_data": np.asarray(o.proj_data).tolist()}
                p_before = np.array(o.proj_data, dtype=float, copy=True)
                a_before = None if o.aux_data is None else np.array(o.aux_data, dtype=float, copy=True)
                try:
                    with np.errstate(all='ignore'):
                        f(o, q)
                except Exception:
                    pass                      # the query may not exist for this class, or refuse ideal input; it must still not move anything
                if not _same_rows(o.proj_data, p_before):
                    rep.fail("query_does_not_move_the_object", f"{kind}.{qname}: stored data {np.asarray(o.proj_data).tolist()} was {p_before.tolist()}", inp)
                elif a_before is not None and not (np.shape(o.aux_data) == a_before.shape and np.all(np.isfinite(np.asarray(o.aux_data, dtype=float)))
                                                   and _same_rows(np.asarray(o.aux_data).reshape(-1, a_before.shape[-1]), np.asarray(twin.aux_data, dtype=float).reshape(-1, a_before.shape[-1]))):
                    rep.fail("derived_data_coherent", f"{kind}.{qname}: derived data {np.asarray(o.aux_data).tolist()} vs recomputed {np.asarray(twin.aux_data).tolist()}", inp)
                if not _same_rows(q.proj_data, q_before):
                    rep.fail("query_does_not_move_the_argument", f"{kind}.{qname}: argument {np.asarray(q.proj_data).tolist()} was {q_before.tolist()}", inp)
                rep.case(key=(t, kind, qname), nontrivial=True, sample=inp if (t, kind, qname) == (0, "Ray", "coords_hyperboloid") else None)
                if len(rep.failures) >= 3:
                    return


@bounded(P, "sub_polygons_by_indexing", functions=["geometry_tools/projective.py:ProjectiveObject.__getitem__", "geometry_tools/projective.py:Polygon._compute_aux_data", "geometry_tools/projective.py:Polygon.get_edges"],
         note="indexing a polygon (or a composite of polygons) with keys that reach the vertex axis - slices, strides, reversed, index lists, Ellipsis - gives a polygon on the selected "
              "vertices whose stored edges run from vertex i to vertex i+1 (cyclically), also after a further reshape / index")
def sub_polygons_by_indexing(tier, rng, rep):
    N = 60 if tier == 'thorough' else 12
    rep.rule = ("projective and hyperbolic polygons with 5..7 vertices, composite shapes (), (2,), (2,2); keys on the vertex axis: [1:4], [::2], [::-1], [[0,2,3]], [1:], (Ellipsis, [0,1,3,4], :), "
                "composite keys combined with them ((1, ::-1), (:, 1:4), ...); edges compared projectively with consecutive selected vertices in the stored data and through get_edges()")
    rep.bound = f"{N} polygons x 2 classes x 3 shapes x ~9 keys"

    def edges_msg(Q):
        p = np.asarray(Q.proj_data, dtype=float)
        nv = p.shape[-2]
        want = np.stack([p, np.roll(p, -1, axis=-2)], axis=-2)
        for nm, have in (("stored derived data", Q.aux_data), ("get_edges()", Q.get_edges().proj_data)):
            have = np.asarray(have, dtype=float)
            if have.shape[:-2] != want.shape[:-2] or have.shape[-1] != want.shape[-1]:
                return f"{nm}: shape {have.shape} for {nv} vertices of shape {p.shape}"
            have = have[..., :2, :]
            m = have[..., :, None] * want[..., None, :]
            if not np.all(np.isfinite(have)) or not np.all(np.abs(m - np.swapaxes(m, -1, -2)) <= 1e-7 * max(1.0, np.max(np.abs(m)))):
                return f"{nm}: an edge does not run from its vertex to the next selected vertex"
        return None
    vkeys = {"1:4": slice(1, 4), "::2": slice(None, None, 2), "::-1": slice(None, None, -1), "[0,2,3]": [0, 2, 3], "1:": slice(1, None), "[4,1,0,2]": [4, 1, 0, 2]}
    for t in range(N):
        nv = 5 + t % 3
        for cls in ("ProjPolygon", "HypPolygon"):
            for shape in ((), (2,), (2, 2)):
                if cls == "ProjPolygon":
                    P_ = pr.Polygon(rng.normal(size=shape + (nv, 3)))
                else:
                    v = rng.normal(size=shape + (nv, 2))
                    P_ = h.Polygon(h.Point(v / np.linalg.norm(v, axis=-1, keepdims=True) * rng.uniform(0.1, 0.9, size=shape + (nv, 1)), model="klein"))
                keys = {nm: (slice(None),) * len(shape) + (k,) for nm, k in vkeys.items()}
                keys["(..., [0,1,3,4], :)"] = (Ellipsis, [0, 1, 3, 4], slice(None))
                if shape:
                    keys["(1, ::-1)"] = (1,) + (slice(None),) * (len(shape) - 1) + (slice(None, None, -1),)
                    keys["(::-1 composite, 1:4)"] = (slice(None, None, -1),) + (slice(None),) * (len(shape) - 1) + (slice(1, 4),)
                for kname, key in keys.items():
                    inp = {"class": cls, "shape": list(shape), "vertices": nv, "key": kname, "proj_data": np.asarray(P_.proj_data).tolist()}

                    def body():
                        Q = P_[key]
                        want = np.asarray(P_.proj_data)[key] if key[0] is not Ellipsis else np.asarray(P_.proj_data)[key]
                        if np.asarray(Q.proj_data).shape != want.shape or not np.array_equal(np.asarray(Q.proj_data), want):
                            rep.fail("indexing_selects_the_vertices", f"key {kname}", inp); return
                        msg = edges_msg(Q)
                        if msg is None and Q.shape:
                            msg = edges_msg(Q.flatten_to_unit())
                            msg = msg or edges_msg(Q[0])
                        if msg:
                            rep.fail("aux_coherent_after_history", f"{cls}{list(shape)}[{kname}]: {msg}", inp)
                        m0 = edges_msg(P_)
                        if m0:
                            rep.fail("aux_coherent_after_history", f"the indexed polygon itself after [{kname}]: {m0}", inp)
                    rep.attempt("history_runs", inp, body)
                    rep.case(key=(t, cls, shape, kname), nontrivial=True, sample=inp if (t, cls, shape, kname) == (0, "HypPolygon", (2,), "1:4") else None)
                    if len(rep.failures) >= 3:
                        return
