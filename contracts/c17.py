"""C17 - the Lie-group maps are homomorphisms onto the groups they name (DESIGN.md section 3, C17)."""
import numpy as np
from vf.api import rcontract, bounded
from vf.rrun import _det_obj
from geometry_tools import lie, utils, hyperbolic as h
from contracts import spec

P = "C17"


def det(m, ctx):
    return _det_obj(np.asarray(m, dtype=object)) if ctx.mode == 'sym' else np.linalg.det(np.asarray(m, dtype=complex if np.iscomplexobj(m) else float))


def inv(m, ctx):
    return np.linalg.inv(m)       # stubbed by its contract in symbolic mode


def eye(n, ctx):
    return ctx.const(np.identity(n))


def _modsq(z):
    """|z|^2 of a (possibly complex) scalar in either mode"""
    if isinstance(z, (int, float, complex, np.number)):
        return (z * np.conjugate(z)).real
    return z * z.conjugate() if hasattr(z, "conjugate") else z * z


def mats(ctx, name, n, cplx=False, shape=()):
    return ctx.complexes(name, shape + (n, n)) if cplx else ctx.reals(name, shape + (n, n))


@rcontract(P, "sl2_irrep_hom", instances=[dict(n=n) for n in (2, 3, 4, 5, 6, 7)], thorough=[dict(n=8), dict(n=9), dict(n=10)], timeout=60.0,
           functions=["geometry_tools/lie/core.py:sl2_irrep", "geometry_tools/lie/core.py:binom", "geometry_tools/utils/core.py:number"])
def sl2_irrep_hom(ctx, n):
    A, B = mats(ctx, 'A', 2), mats(ctx, 'B', 2)
    rA, rB, rAB = lie.sl2_irrep(A, n), lie.sl2_irrep(B, n), lie.sl2_irrep(A @ B, n)
    ctx.ensure_eq('multiplicative', rAB, rA @ rB, tol=1e-6)
    ctx.ensure_eq('identity', lie.sl2_irrep(eye(2, ctx), n), np.identity(n))
    if n <= 4:
        dA = det(A, ctx)
        ctx.ensure_eq('determinant', det(rA, ctx), dA ** (n * (n - 1) // 2), tol=1e-6)


@bounded(P, "sl2_irrep_high_dimensions", functions=["geometry_tools/lie/core.py:sl2_irrep", "geometry_tools/lie/core.py:binom"],
         note="irreducible representations of dimension up to 14: integer matrices of determinant one (exactly representable products), homomorphism, identity, "
              "exact integer determinant one, stacked input alike")
def sl2_irrep_high_dimensions(tier, rng, rep):
    N = 60 if tier == 'thorough' else 12
    rep.rule = "n in 2..14; products of up to 5 elementary integer matrices [[1,k],[0,1]], [[1,0],[k,1]], k in -2..2 (determinant exactly one, small entries), single and stacked (shape (3,))"
    rep.bound = f"{N} pairs x 13 dimensions"
    def word():
        M = np.identity(2)
        for _ in range(int(rng.integers(1, 6))):
            k = int(rng.integers(-2, 3))
            E = np.array([[1., k], [0., 1.]]) if rng.random() < 0.5 else np.array([[1., 0.], [k, 1.]])
            M = M @ E
        return M
    for t in range(N):
        A, B = word(), word()
        for n in range(2, 15):
            inp = {"n": n, "A": A.tolist(), "B": B.tolist()}
            def run():
                rA, rB, rAB = (np.asarray(lie.sl2_irrep(X.copy(), n), dtype=float) for X in (A, B, A @ B))
                scale = 1 + np.max(np.abs(rA)) * np.max(np.abs(rB))
                if rA.shape != (n, n):
                    rep.fail("shape", f"{rA.shape}", inp); return
                if not np.all(np.abs(rAB - rA @ rB) <= 1e-9 * scale):
                    rep.fail("multiplicative", f"n={n}: |rho(AB) - rho(A) rho(B)| = {np.max(np.abs(rAB - rA @ rB))}", inp)
                if not np.all(np.abs(np.asarray(lie.sl2_irrep(np.identity(2), n), dtype=float) - np.identity(n)) <= 1e-12):
                    rep.fail("identity", f"n={n}", inp)
                # exact determinant by integer Bareiss elimination (entries are integers for integer A)
                R = np.rint(rA)
                if np.max(np.abs(rA)) * n >= 2.0 ** 50:      # not exactly representable: the determinant clause is decided by the contracts n <= 4 only
                    return_det = False
                else:
                    return_det = True
                if return_det and not np.all(np.abs(R - rA) <= 1e-6 * (1 + np.abs(rA))):
                    rep.fail("integer_entries_for_integer_matrices", f"n={n}", inp); return
                import sympy
                d = sympy.Matrix(n, n, [int(x) for x in R.flatten()]).det() if return_det else 1
                if d != 1:
                    rep.fail("determinant_one", f"n={n}: det = {d}", inp)
                S = np.stack([A, B, A @ B])
                rS = np.asarray(lie.sl2_irrep(S.copy(), n), dtype=float)
                if rS.shape != (3, n, n) or not np.all(np.abs(rS - np.stack([rA, rB, rAB])) <= 1e-9 * scale):
                    rep.fail("arrays_of_matrices_alike", f"n={n}", inp)
            rep.attempt("sl2_irrep_runs", inp, run)
            rep.case(key=(t, n), nontrivial=n >= 5 and abs(A[0, 1] * A[1, 0]) > 0, sample=inp if (t, n) == (0, 5) else None)
        if len(rep.failures) >= 3:
            return


@rcontract(P, "sl2_irrep_arrays", instances=[dict(n=3)], thorough=[dict(n=4)],
           functions=["geometry_tools/lie/core.py:sl2_irrep"])
def sl2_irrep_arrays(ctx, n):
    """arrays of matrices alike: entry i of the image is the image of entry i"""
    A = mats(ctx, 'A', 2, shape=(2,))
    r = lie.sl2_irrep(A, n)
    ctx.ensure_true('shape', r.shape == (2, n, n))
    for i in range(2):
        ctx.ensure_eq(f'unit{i}', r[i], lie.sl2_irrep(A[i], n))


@rcontract(P, "sl2_to_so21", instances=[{}], timeout=60.0,
           functions=["geometry_tools/lie/core.py:sl2_to_so21", "geometry_tools/lie/core.py:sl2_irrep", "geometry_tools/utils/core.py:permutation_matrix",
                      "geometry_tools/utils/core.py:array_like", "geometry_tools/utils/core.py:invert"])
def sl2_to_so21(ctx):
    A, B = mats(ctx, 'A', 2), mats(ctx, 'B', 2)
    MA, MB = lie.sl2_to_so21(A), lie.sl2_to_so21(B)
    ctx.ensure_eq('multiplicative', lie.sl2_to_so21(A @ B), MA @ MB, tol=1e-6)
    ctx.ensure_eq('identity', lie.sl2_to_so21(eye(2, ctx)), np.identity(3))
    J = spec.J(3)
    dA = det(A, ctx)
    # M^T J M = (det A)^2 J : for det A = +-1 the image preserves diag(-1,1,1) (as a matrix acting on columns)
    ctx.ensure_eq('form_scaled_by_det_squared', MA.T @ J @ MA, dA * dA * J, tol=1e-6)
    A2 = mats(ctx, 'C', 2, shape=(2,))
    r = lie.sl2_to_so21(A2)
    for i in range(2):
        ctx.ensure_eq(f'array_unit{i}', r[i], lie.sl2_to_so21(A2[i]))


ARRAY_MAPS = {
    "sl2_irrep3": (lambda A: lie.sl2_irrep(A, 3), 2, False),
    "sl2_to_so21": (lambda A: lie.sl2_to_so21(A), 2, False),
    "slc_to_slr": (lambda A: lie.slc_to_slr(A), 2, True),
    "block_include": (lambda A: lie.block_include(A, 4), 2, False),
    "gln_adjoint": (lambda A: lie.gln_adjoint(A), 2, False),
}


@rcontract(P, "arrays_of_matrices", instances=[dict(which=w, shape=s_) for w in ARRAY_MAPS for s_ in ((2, 3), (2, 2), (1, 2)) if w != "gln_adjoint" or s_ == (2, 2)],
           timeout=120.0, bounded_n=(20, 100),
           functions=["geometry_tools/lie/core.py:sl2_irrep", "geometry_tools/lie/core.py:sl2_to_so21", "geometry_tools/lie/core.py:slc_to_slr", "geometry_tools/lie/core.py:block_include",
                      "geometry_tools/lie/core.py:gln_adjoint"])
def arrays_of_matrices(ctx, which, shape):
    """'for single matrices and for arrays of matrices alike', all array shapes: entry [i, j] of the image of an array of
    rank 2 is the image of entry [i, j] (an image with transposed or merged batch axes fails here)"""
    f, n, cplx = ARRAY_MAPS[which]
    shape = tuple(shape)
    A = mats(ctx, 'A', n, cplx, shape=shape)
    if which == "gln_adjoint":
        for idx in np.ndindex(*shape):
            ctx.assume(_modsq(det(A[idx], ctx)), '>', 0)
    r = f(A)
    u0 = f(A[(0,) * len(shape)])
    ctx.ensure_true('shape', np.shape(r) == shape + np.shape(u0), f"{np.shape(r)} vs {shape + np.shape(u0)}")
    if np.shape(r) == shape + np.shape(u0):
        for idx in np.ndindex(*shape):
            ctx.ensure_eq(f'unit{idx}', r[idx], f(A[idx]), tol=1e-6)


@rcontract(P, "sl2_iso_isometry", instances=[dict(sign=1), dict(sign=-1)],
           functions=["geometry_tools/hyperbolic.py:sl2_iso", "geometry_tools/hyperbolic.py:Isometry.__init__", "geometry_tools/lie/core.py:sl2_to_so21"])
def sl2_iso_isometry(ctx, sign):
    """images of 2x2 matrices of determinant +-1 preserve the Minkowski form (row convention M J M^T = J);
    determinant condition in solved form d = (sign + bc)/a on the chart a != 0"""
    a, b, c = (ctx.real(nm, lambda r: r.choice([-1, 1]) * r.uniform(0.4, 2)) for nm in 'abc')
    ctx.assume(a * a, '>', 0)
    d = (sign + b * c) / a
    A = np.array([[a, b], [c, d]], dtype=object if ctx.mode == 'sym' else float)
    M = h.sl2_iso(A).proj_data
    J = spec.J(3)
    ctx.ensure_eq('preserves_minkowski_form', M @ J @ M.T, J, tol=1e-6)


@rcontract(P, "adjoint", instances=[dict(n=2, which='gln', cplx=False), dict(n=2, which='sln', cplx=False), dict(n=3, which='gln', cplx=False), dict(n=3, which='sln', cplx=False),
                                    dict(n=2, which='gln', cplx=True), dict(n=2, which='sln', cplx=True)],
           thorough=[dict(n=3, which='gln', cplx=True)], timeout=120.0,
           functions=["geometry_tools/lie/core.py:gln_adjoint", "geometry_tools/lie/core.py:sln_adjoint", "geometry_tools/lie/core.py:linear_matrix_action",
                      "geometry_tools/lie/core.py:sln_linear_action", "geometry_tools/lie/core.py:basis_matrix", "geometry_tools/lie/core.py:sln_basis_matrix",
                      "geometry_tools/lie/core.py:gln_lie_algebra_coords", "geometry_tools/lie/core.py:sln_lie_algebra_coords", "geometry_tools/lie/core.py:sln_killing_form",
                      "geometry_tools/lie/hom.py:_wrap_hom", "geometry_tools/lie/hom.py:gln_adjoint", "geometry_tools/lie/hom.py:sln_adjoint"])
def adjoint(ctx, n, which, cplx):
    A, B = mats(ctx, 'A', n, cplx), mats(ctx, 'B', n, cplx)
    dA, dB = det(A, ctx), det(B, ctx)
    ctx.assume(_modsq(dA), '>', 0)
    ctx.assume(_modsq(dB), '>', 0)
    f = lie.gln_adjoint if which == 'gln' else lie.sln_adjoint
    fA, fB, fAB = f(A), f(B), f(A @ B)
    ctx.ensure_eq('multiplicative', fAB, fA @ fB, tol=1e-6)
    ctx.ensure_eq('identity', f(eye(n, ctx)), np.identity(n * n if which == 'gln' else n * n - 1))
    ctx.ensure_eq('passed_inverse_is_used_consistently', f(A, inv=inv(A, ctx)), fA, tol=1e-6)
    # the homomorphism objects of lie.hom (what Representation.compose is given): the same map, with or without a precomputed
    # inverse, in any order of calls on one wrapper object
    from geometry_tools.lie import hom as lhom
    w = lhom.gln_adjoint() if which == 'gln' else lhom.sln_adjoint()
    ctx.ensure_eq('hom_wrapper_with_inverse', w(A, inv=inv(A, ctx)), fA, tol=1e-6)
    ctx.ensure_eq('hom_wrapper_plain_call_after_a_hinted_call', w(B), fB, tol=1e-6)
    ctx.ensure_eq('hom_wrapper_plain_call', w(A), fA, tol=1e-6)
    if which == 'sln':
        K = lie.sln_killing_form(n)
        ctx.ensure_eq('preserves_killing_form', fA.T @ K @ fA, K, tol=1e-6)
        # acts as X -> A X A^-1 in the library's own coordinates
        X = mats(ctx, 'X', n, cplx)
        X[n - 1, n - 1] = -sum(X[i, i] for i in range(n - 1))
        lhs = fA @ lie.sln_lie_algebra_coords(X)
        rhs = lie.sln_lie_algebra_coords(A @ X @ inv(A, ctx))
        ctx.ensure_eq('acts_by_conjugation', lhs, rhs, tol=1e-6)


@rcontract(P, "slc_to_slr", instances=[dict(n=1), dict(n=2)], thorough=[dict(n=3)],
           functions=["geometry_tools/lie/core.py:slc_to_slr", "geometry_tools/utils/core.py:real", "geometry_tools/utils/core.py:imag"])
def slc_to_slr(ctx, n):
    A, B = mats(ctx, 'A', n, True), mats(ctx, 'B', n, True)
    ctx.ensure_eq('multiplicative', lie.slc_to_slr(A @ B), lie.slc_to_slr(A) @ lie.slc_to_slr(B), tol=1e-6)
    ctx.ensure_eq('identity', lie.slc_to_slr(eye(n, ctx)), np.identity(2 * n))
    r = lie.slc_to_slr(A)
    ctx.ensure_eq('real_valued', r, np.real(r) if ctx.mode == 'num' else utils.real(r))


@rcontract(P, "sl2c_to_so31", instances=[{}], timeout=120.0,
           functions=["geometry_tools/lie/core.py:sl2c_to_so31", "geometry_tools/lie/core.py:sl2c_herm_action", "geometry_tools/lie/core.py:linear_matrix_action"])
def sl2c_to_so31(ctx):
    A, B = mats(ctx, 'A', 2, True), mats(ctx, 'B', 2, True)
    MA, MB = lie.sl2c_to_so31(A), lie.sl2c_to_so31(B)
    ctx.ensure_eq('multiplicative', lie.sl2c_to_so31(A @ B), MA @ MB, tol=1e-6)
    ctx.ensure_eq('identity', lie.sl2c_to_so31(eye(2, ctx)), np.identity(4))
    full = lie.sl2c_herm_action(A, force_real=False)
    ctx.ensure_eq('herm_action_is_real_valued', lie.sl2c_herm_action(A), full, tol=1e-6)
    dA = det(A, ctx)
    absdet2 = dA * np.conjugate(dA) if ctx.mode == 'num' else dA * dA.conjugate()
    J = spec.J(4)
    ctx.ensure_eq('form_scaled_by_abs_det_squared', MA.T @ J @ MA, absdet2 * J, tol=1e-6)


@rcontract(P, "block_include", instances=[dict(n=2, m=3), dict(n=2, m=4), dict(n=2, m=2), dict(n=3, m=3), dict(n=1, m=2)], thorough=[dict(n=3, m=5)],
           functions=["geometry_tools/lie/core.py:block_include"])
def block_include(ctx, n, m):
    A, B = mats(ctx, 'A', n), mats(ctx, 'B', n)
    ctx.ensure_eq('multiplicative', lie.block_include(A @ B, m), lie.block_include(A, m) @ lie.block_include(B, m))
    ctx.ensure_eq('identity', lie.block_include(eye(n, ctx), m), np.identity(m))
    # the image is the block matrix diag(A, 1): A in the leading block (the trivial inclusion m = n returns A itself), identity in the complementary block, zeros elsewhere
    img = lie.block_include(A, m)
    ctx.ensure_true('shape', img.shape == (m, m))
    ctx.ensure_eq('leading_block_is_A', img[:n, :n], A)
    if m > n:
        ctx.ensure_eq('complementary_block_is_identity', img[n:, n:], np.identity(m - n))
        ctx.ensure_eq('off_diagonal_blocks_zero', np.concatenate([img[:n, n:].ravel(), img[n:, :n].ravel()]), np.zeros(2 * n * (m - n)))
    A2 = mats(ctx, 'C', n, shape=(2,))
    r = lie.block_include(A2, m)
    for i in range(2):
        ctx.ensure_eq(f'array_unit{i}', r[i], lie.block_include(A2[i], m))


def _nz(ctx, *xs):
    for x in xs:
        ctx.assume(x * x, '>', 0)


def _sl2(ctx, chart, suffix=""):
    """determinant-one matrix in solved form.  SL(2) is the union of the strata below: 'generic' (all four entries
    non-zero, d = (1+bc)/a) and the strata where some entries vanish identically."""
    rnd = lambda r: r.choice([-1, 1]) * r.uniform(0.4, 2)
    val = lambda nm: ctx.real(nm + suffix, rnd)
    dt = object if ctx.mode == 'sym' else float
    if chart == 'generic':
        a, b, c = val('a'), val('b'), val('c')
        _nz(ctx, a, b, c, 1 + b * c)
        return np.array([[a, b], [c, (1 + b * c) / a]], dtype=dt)
    if chart == 'b0':
        a, c = val('a'), val('c'); _nz(ctx, a, c)
        return np.array([[a, 0 * a], [c, 1 / a]], dtype=dt)
    if chart == 'c0':
        a, b = val('a'), val('b'); _nz(ctx, a, b)
        return np.array([[a, b], [0 * a, 1 / a]], dtype=dt)
    if chart == 'bc0':
        a = val('a'); _nz(ctx, a)
        return np.array([[a, 0 * a], [0 * a, 1 / a]], dtype=dt)
    if chart == 'd0':
        a, b = val('a'), val('b'); _nz(ctx, a, b)
        return np.array([[a, b], [-1 / b, 0 * a]], dtype=dt)
    if chart == 'a0':
        b, d = val('b'), val('d'); _nz(ctx, b, d)
        return np.array([[0 * b, b], [-1 / b, d]], dtype=dt)
    if chart == 'ad0':
        b = val('b'); _nz(ctx, b)
        return np.array([[0 * b, b], [-1 / b, 0 * b]], dtype=dt)
    raise ValueError(chart)


STRATA = ['generic', 'b0', 'c0', 'bc0', 'd0', 'a0', 'ad0']


@rcontract(P, "o_to_pgl_recovers", instances=[dict(chart=c) for c in STRATA], max_paths=40, timeout=20.0,
           functions=["geometry_tools/lie/core.py:o_to_pgl", "geometry_tools/lie/core.py:sl2_to_so21", "geometry_tools/utils/core.py:diagonalize_form",
                      "geometry_tools/utils/core.py:permute_along_axis", "geometry_tools/utils/core.py:construct_diagonal",
                      "geometry_tools/hyperbolic.py:Isometry.to_sl2", "geometry_tools/hyperbolic.py:Isometry.from_sl2"])
def o_to_pgl_recovers(ctx, chart):
    """the documented inverse recovers every determinant-one matrix up to sign, stratum by stratum of SL(2)"""
    A = _sl2(ctx, chart)
    R = lie.o_to_pgl(lie.sl2_to_so21(A))
    # R = +-A  <=>  R is proportional to A as a vector of R^4 and has the same determinant
    ctx.ensure_eq('proportional_to_A', R.reshape(1, 4), A.reshape(1, 4), proj=True, tol=1e-6)
    ctx.ensure_eq('same_determinant', det(R, ctx), 1, tol=1e-6)
    R2 = h.Isometry.from_sl2(A).to_sl2()
    ctx.ensure_eq('Isometry_roundtrip', R2.reshape(1, 4), A.reshape(1, 4), proj=True, tol=1e-6)


@rcontract(P, "o_to_pgl_hom_up_to_sign", instances=[], thorough=[{}], max_paths=600, timeout=20.0,
           functions=["geometry_tools/lie/core.py:o_to_pgl"], note="generic stratum x generic stratum with generic product")
def o_to_pgl_hom_up_to_sign(ctx):
    A, B = _sl2(ctx, 'generic'), _sl2(ctx, 'generic', '2')
    AB = A @ B
    for e in AB.ravel():
        _nz(ctx, e)
    MA, MB = lie.sl2_to_so21(A), lie.sl2_to_so21(B)
    RA, RB, RAB = lie.o_to_pgl(MA), lie.o_to_pgl(MB), lie.o_to_pgl(MA @ MB)
    ctx.ensure_eq('product_up_to_sign', RAB.reshape(1, 4), (RA @ RB).reshape(1, 4), proj=True, tol=1e-6)
    ctx.ensure_eq('determinant_one', det(RAB, ctx), 1, tol=1e-6)


@rcontract(P, "o_to_pgl_recovers_det_minus_one", instances=[{}], max_paths=40, timeout=20.0,
           functions=["geometry_tools/lie/core.py:o_to_pgl", "geometry_tools/lie/core.py:sl2_to_so21", "geometry_tools/lie/core.py:sl2_irrep"],
           note="O(2,1) has orientation-reversing elements: the symmetric squares of 2x2 matrices of determinant -1 (generic stratum)")
def o_to_pgl_recovers_det_minus_one(ctx):
    rnd = lambda r: r.choice([-1, 1]) * r.uniform(0.4, 2)
    a, b, c = (ctx.real(nm, rnd) for nm in "abc")
    _nz(ctx, a, b, c, b * c - 1)
    A = np.array([[a, b], [c, (b * c - 1) / a]], dtype=object if ctx.mode == 'sym' else float)
    M = lie.sl2_to_so21(A)
    J = spec.J(3)
    ctx.ensure_eq('image_in_O21', M.T @ J @ M, J, tol=1e-6)
    ctx.ensure_eq('image_orientation_reversing', det(M, ctx), -1, tol=1e-6)
    R = lie.o_to_pgl(M)
    ctx.ensure_eq('proportional_to_A', R.reshape(1, 4), A.reshape(1, 4), proj=True, tol=1e-6)
    ctx.ensure_eq('same_determinant', det(R, ctx), -1, tol=1e-6)


@bounded(P, "o21_sampling", functions=["geometry_tools/lie/core.py:o_to_pgl", "geometry_tools/lie/core.py:sl2_to_so21"],
         note="o_to_pgl on all of O(2,1): products of rotations, boosts and reflections (both orientations), homomorphism up to sign and determinant")
def o21_sampling(tier, rng, rep):
    N = 2000 if tier == 'thorough' else 300
    rep.rule = ("random g, h in O(2,1) = rot boost rot [reflection rot] built independently of the library, both orientation classes; generic position (entries of the "
                "2x2 representatives and of their product bounded away from 0: the strata a = 0 are listed findings); non-trivial = an orientation-reversing factor")
    rep.bound = f"{N} pairs"
    J = spec.J(3)

    def boost(t):
        return np.array([[np.cosh(t), np.sinh(t), 0.], [np.sinh(t), np.cosh(t), 0.], [0., 0., 1.]])

    def rot(t):
        return np.array([[1., 0., 0.], [0., np.cos(t), -np.sin(t)], [0., np.sin(t), np.cos(t)]])

    def elem(rev):
        g = rot(rng.uniform(0.2, 2.9)) @ boost(rng.uniform(-1.2, 1.2)) @ rot(rng.uniform(0.2, 2.9))
        if rev:
            g = g @ [np.diag([1., 1., -1.]), np.diag([1., -1., 1.])][int(rng.integers(2))] @ rot(rng.uniform(0.2, 2.9))
        return g
    done = 0
    for t in range(N * 4):
        if done >= N:
            break
        rg, rh = bool(rng.integers(2)), bool(rng.integers(2))
        g, hh = elem(rg), elem(rh)
        inp = {"g": g.tolist(), "h": hh.tolist()}
        try:
            with np.errstate(all='ignore'):
                Rg, Rh, Rgh = lie.o_to_pgl(g), lie.o_to_pgl(hh), lie.o_to_pgl(g @ hh)
        except Exception as e:
            rep.fail("o_to_pgl_runs", f"{type(e).__name__}: {e}", inp); done += 1; continue
        if min(np.min(np.abs(Rg)), np.min(np.abs(Rh)), np.min(np.abs(Rgh)), np.min(np.abs(Rg @ Rh))) < 5e-2:
            continue            # near a stratum where an entry vanishes
        done += 1
        for nm, R_, m_ in (("g", Rg, g), ("h", Rh, hh), ("gh", Rgh, g @ hh)):
            if not (abs(np.linalg.det(R_) - np.linalg.det(m_)) <= 1e-6):
                rep.fail("determinant_matches_orientation", f"det o_to_pgl({nm}) = {np.linalg.det(R_)}, det {nm} = {np.linalg.det(m_)}", inp)
        P_ = Rg @ Rh
        if not (np.all(np.abs(Rgh - P_) <= 1e-6 * (1 + np.max(np.abs(P_)))) or np.all(np.abs(Rgh + P_) <= 1e-6 * (1 + np.max(np.abs(P_))))):
            rep.fail("homomorphism_up_to_sign", f"o_to_pgl(gh) = {Rgh.tolist()} vs {P_.tolist()}", inp)
        # and o_to_pgl inverts sl2_to_so21 up to sign on both components
        back = lie.o_to_pgl(lie.sl2_to_so21(Rg))
        if not (np.all(np.abs(back - Rg) <= 1e-6) or np.all(np.abs(back + Rg) <= 1e-6)):
            rep.fail("roundtrip_up_to_sign", f"{back.tolist()} vs {Rg.tolist()}", inp)
        rep.case(key=(t,), nontrivial=rg or rh, sample=inp if done == 1 else None)


@bounded(P, "integer_typed_matrices", functions=["geometry_tools/lie/core.py:gln_adjoint", "geometry_tools/lie/core.py:sln_adjoint", "geometry_tools/lie/core.py:sl2_irrep",
                                                  "geometry_tools/lie/core.py:sl2_to_so21", "geometry_tools/lie/core.py:block_include", "geometry_tools/lie/core.py:linear_matrix_action"],
         note="matrices stored with an integer dtype (determinant not +-1 in general): every Lie map returns what it returns on the float64 copy, or refuses the type loudly")
def integer_typed_matrices(tier, rng, rep):
    N = 200 if tier == 'thorough' else 40
    rep.rule = "random int64 / int32 matrices with entries in -3..3 and |det| >= 1 (2x2 and 3x3); maps: sl2_irrep(3,4), sl2_to_so21, gln_adjoint, sln_adjoint, block_include, through lie.core and the lie.hom wrappers"
    rep.bound = f"{N} matrices x 7 maps"
    from geometry_tools.lie import hom as lhom
    maps2 = {"sl2_irrep3": lambda A: lie.sl2_irrep(A, 3), "sl2_irrep4": lambda A: lie.sl2_irrep(A, 4), "sl2_to_so21": lambda A: lie.sl2_to_so21(A)}
    mapsn = {"gln_adjoint": lambda A: lie.gln_adjoint(A), "sln_adjoint": lambda A: lie.sln_adjoint(A), "block_include": lambda A: lie.block_include(A, A.shape[-1] + 2),
             "hom_gln_adjoint": lambda A: lhom.gln_adjoint()(A)}
    for t in range(N):
        n = 2 + t % 2
        while True:
            A = rng.integers(-3, 4, size=(n, n))
            if abs(np.linalg.det(A)) >= 0.5:
                break
        A = A.astype(np.int64 if t % 3 else np.int32)
        for nm, f in list(mapsn.items()) + (list(maps2.items()) if n == 2 else []):
            inp = {"map": nm, "matrix": A.tolist(), "dtype": str(A.dtype)}
            try:
                with np.errstate(all='ignore'):
                    got = np.asarray(f(A.copy()), dtype=complex)
            except (TypeError, ValueError):
                rep.case(key=(t, nm, "refused"), nontrivial=False)
                continue
            want = np.asarray(f(A.astype(float)), dtype=complex)
            if got.shape != want.shape or not np.all(np.abs(got - want) <= 1e-9 * (1 + np.max(np.abs(want)))):
                rep.fail("same_image_as_for_the_float_copy", f"{nm}: {np.real(got).tolist()} vs {np.real(want).tolist()}", inp)
            rep.case(key=(t, nm), nontrivial=abs(round(np.linalg.det(A))) != 1)


@bounded(P, "near_identity_and_unbalanced_scales", functions=["geometry_tools/lie/core.py:sl2c_to_so31", "geometry_tools/lie/core.py:sl2c_herm_action", "geometry_tools/lie/core.py:sl2_to_so21",
                                                               "geometry_tools/lie/core.py:sl2_irrep", "geometry_tools/lie/core.py:sln_adjoint", "geometry_tools/lie/core.py:slc_to_slr"],
         note="products to products for valid group elements within 1e-10..1e-6 of the identity multiplied with elements of large or unbalanced scale (diag(s, 1/s), s up to 1e3), and high powers "
              "by repeated squaring: the error allowed is the rounding error of the matrix products (relative to |hom(A)| |hom(B)|), so an absolute threshold applied to the image is visible")
def near_identity_and_unbalanced_scales(tier, rng, rep):
    N = 200 if tier == 'thorough' else 40
    maps = {"sl2c_to_so31": (lambda A: lie.sl2c_to_so31(A), True), "sl2_to_so21": (lambda A: lie.sl2_to_so21(A), False), "sl2_irrep3": (lambda A: lie.sl2_irrep(A, 3), False),
            "sl2_irrep4": (lambda A: lie.sl2_irrep(A, 4), False), "sln_adjoint": (lambda A: lie.sln_adjoint(A), False), "slc_to_slr": (lambda A: lie.slc_to_slr(A), True)}
    rep.rule = ("P = unipotent / diagonal / rotation element at distance eps in {1e-10 .. 1e-6} from the identity (determinant exactly or to rounding one), D = diag(s, 1/s) or a random element "
                "of norm up to 1e3; clauses hom(D P) = hom(D) hom(P), hom(P D) = hom(P) hom(D), hom(P)^(2^k) = hom(P^(2^k)) for k up to 28; maps: " + ", ".join(maps))
    rep.bound = f"{N} rounds x {len(maps)} maps"
    for t in range(N):
        eps = 10.0 ** rng.uniform(-10, -6) * rng.choice([-1, 1])
        kindP = ["upper", "lower", "diagonal", "rotation"][t % 4]
        for mname, (f, cplx) in maps.items():
            z = eps * (np.exp(1j * rng.uniform(0, 6.28)) if cplx else 1.0)
            one = (1 + 0j) if cplx else 1.0
            P_ = {"upper": np.array([[one, z], [0, one]]), "lower": np.array([[one, 0], [z, one]]), "diagonal": np.array([[one + z, 0], [0, 1 / (one + z)]]),
                  "rotation": np.array([[np.cos(eps) * one, -np.sin(eps)], [np.sin(eps), np.cos(eps) * one]])}[kindP]
            s_ = 10.0 ** rng.uniform(0, 3)
            if t % 2:
                D_ = np.array([[s_ * one, 0], [0, one / s_]])
            else:
                G = rng.normal(size=(2, 2)) + (1j * rng.normal(size=(2, 2)) if cplx else 0)
                G = G / np.sqrt(np.linalg.det(G) + 0j) if cplx else (G / np.sqrt(abs(np.linalg.det(G))) if np.linalg.det(G) > 0 else G[::-1] / np.sqrt(abs(np.linalg.det(G))))
                D_ = np.array([[s_ ** 0.5 * one, 0], [0, one / s_ ** 0.5]]) @ G
            inp = {"map": mname, "P_re": np.real(P_).tolist(), "P_im": np.imag(P_).tolist(), "D_re": np.real(D_).tolist(), "D_im": np.imag(D_).tolist(), "eps": eps}

            def body():
                hP, hD = np.asarray(f(P_.copy())), np.asarray(f(D_.copy()))
                for nm, (X, Y, hX, hY) in {"D_times_P": (D_, P_, hD, hP), "P_times_D": (P_, D_, hP, hD)}.items():
                    got, want = np.asarray(f(X @ Y)), hX @ hY
                    tol = 1e-11 * (1 + np.max(np.abs(hX))) * (1 + np.max(np.abs(hY))) * (1 + np.max(np.abs(X)) * np.max(np.abs(Y)))
                    if not np.all(np.abs(got - want) <= tol):
                        rep.fail("multiplicative", f"{mname}: hom({nm}) differs from the product of the images by {np.max(np.abs(got - want))} (rounding allowance {tol})", {**inp, "clause": nm}); return
                # high power by repeated squaring (unipotent / rotation elements stay bounded)
                if kindP in ("upper", "lower", "rotation"):
                    K = 28 if abs(eps) < 1e-8 else 18
                    Q, hQ = P_.copy(), hP.copy()
                    for _ in range(K):
                        Q, hQ = Q @ Q, hQ @ hQ
                    got = np.asarray(f(Q))
                    tol = 1e-9 * (1 + np.max(np.abs(got))) * 2 ** K * 1e-3 + 1e-6 * (1 + np.max(np.abs(got)))
                    if not np.all(np.abs(got - hQ) <= tol):
                        rep.fail("multiplicative", f"{mname}: hom(P)^(2^{K}) differs from hom(P^(2^{K})) by {np.max(np.abs(got - hQ))}", {**inp, "clause": f"power 2^{K}"}); return
            rep.attempt("lie_map_runs", inp, body)
            rep.case(key=(t, mname), nontrivial=True, sample=inp if (t, mname) == (0, "sl2c_to_so31") else None)
            if len(rep.failures) >= 3:
                return


@bounded(P, "real_typed_factors_among_complex_ones", functions=["geometry_tools/lie/core.py:sl2c_to_so31", "geometry_tools/lie/core.py:sl2c_herm_action", "geometry_tools/lie/core.py:slc_to_slr",
                                                                 "geometry_tools/lie/core.py:gln_adjoint", "geometry_tools/lie/core.py:sln_adjoint", "geometry_tools/lie/core.py:block_include"],
         note="maps defined on complex matrices evaluated on factors stored with a REAL dtype (float64 / float32 / int64; determinant 1, -1, 2, 0.5 or random) next to genuinely complex "
              "factors: the image of the real-typed matrix is the image of its complex copy, and products with complex factors go to products")
def real_typed_factors_among_complex_ones(tier, rng, rep):
    N = 120 if tier == 'thorough' else 30
    maps = {"sl2c_to_so31": (lambda A: lie.sl2c_to_so31(A), 2), "slc_to_slr_2": (lambda A: lie.slc_to_slr(A), 2), "slc_to_slr_3": (lambda A: lie.slc_to_slr(A), 3),
            "gln_adjoint": (lambda A: lie.gln_adjoint(A), 2), "sln_adjoint": (lambda A: lie.sln_adjoint(A), 2), "block_include": (lambda A: lie.block_include(A, A.shape[-1] + 1), 2)}
    rep.rule = "A real-typed invertible (entries of moderate size, determinant prescribed or random), B complex invertible; maps: " + ", ".join(maps) + "; clauses f(A) = f(A as complex), f(A B) = f(A) f(B), f(B A) = f(B) f(A); stacks mixing real-valued and complex members"
    rep.bound = f"{N} pairs x {len(maps)} maps"
    for t in range(N):
        for mname, (f, n) in maps.items():
            A = rng.normal(size=(n, n)) + np.identity(n)
            d = np.linalg.det(A)
            target = [1.0, -1.0, 2.0, 0.5, None][t % 5]
            if target is not None:
                A[0] *= target / d
            dt = [np.float64, np.float32, np.int64][t % 3]
            if dt is np.int64:
                A = np.rint(2 * A)
                if abs(np.linalg.det(A)) < 0.5:
                    A = A + 3 * np.identity(n)
            A = A.astype(dt)
            B = rng.normal(size=(n, n)) + 1j * rng.normal(size=(n, n)) + np.identity(n)
            inp = {"map": mname, "A": np.asarray(A, dtype=float).tolist(), "A_dtype": np.dtype(dt).name, "B_re": B.real.tolist(), "B_im": B.imag.tolist()}

            def body():
                Ac = np.asarray(A, dtype=complex)
                try:
                    fA = np.asarray(f(A.copy()), dtype=complex)
                except (TypeError, ValueError):
                    rep.case(key=(t, mname, "refused"), nontrivial=False)
                    return
                fAc, fB = np.asarray(f(Ac.copy()), dtype=complex), np.asarray(f(B.copy()), dtype=complex)
                tol = (1e-9 if dt is not np.float32 else 1e-4) * (1 + np.max(np.abs(fAc))) * (1 + np.max(np.abs(fB)))
                if fA.shape != fAc.shape or not np.all(np.abs(fA - fAc) <= tol):
                    rep.fail("image_independent_of_the_dtype", f"{mname}: the image of a {np.dtype(dt).name} matrix (det {np.linalg.det(np.asarray(A, dtype=float)):.3g}) differs from the image of its complex copy by {np.max(np.abs(fA - fAc)) if fA.shape == fAc.shape else 'shape'}", inp); return
                for nm, (X, Y, fX, fY) in {"A_times_B": (Ac, B, fA, fB), "B_times_A": (B, Ac, fB, fA)}.items():
                    got = np.asarray(f(X @ Y), dtype=complex)
                    if not np.all(np.abs(got - fX @ fY) <= tol * (1 + np.max(np.abs(X)) * np.max(np.abs(Y)))):
                        rep.fail("multiplicative", f"{mname}: f({nm}) != f(.) f(.) with a {np.dtype(dt).name} factor A (deviation {np.max(np.abs(got - fX @ fY))})", {**inp, "clause": nm}); return
                st = np.stack([Ac, B, Ac @ B])
                try:
                    fs = np.asarray(f(st.copy()), dtype=complex)
                except ValueError:
                    return            # the maps built on linear_matrix_action refuse stacks loudly: listed finding (C17.arrays_of_matrices, gln_adjoint instance), not re-reported here
                if fs.shape[0] != 3 or not np.all(np.abs(fs[0] - fAc) <= tol) or not np.all(np.abs(fs[1] - fB) <= tol):
                    rep.fail("arrays_of_matrices_alike", f"{mname}: stack of a real-valued and a complex matrix", inp)
            rep.attempt("lie_map_runs", inp, body)
            rep.case(key=(t, mname), nontrivial=True, sample=inp if (t, mname) == (2, "sl2c_to_so31") else None)
            if len(rep.failures) >= 3:
                return
