"""C03 - applying transformations is a left group action on every kind of object (DESIGN.md section 3, C03)."""
import numpy as np
from vf.api import rcontract, bounded
from vf.rrun import _det_obj
from geometry_tools import projective as pr, hyperbolic as h, utils
from contracts import spec

P = "C03"
PR = "geometry_tools/projective.py:"
HY = "geometry_tools/hyperbolic.py:"
F_APPLY = [PR + "Transformation.__init__", PR + "Transformation._apply_to_data", PR + "Transformation.apply", PR + "Transformation.__matmul__",
           PR + "Transformation.inv", PR + "ProjectiveObject.set", PR + "identity", "geometry_tools/utils/core.py:matrix_product", "geometry_tools/utils/core.py:invert"]


def det(m, ctx):
    return _det_obj(np.asarray(m, dtype=object)) if ctx.mode == 'sym' else np.linalg.det(np.asarray(m, dtype=complex if np.iscomplexobj(m) else float))


def _mat(ctx, name, n, cplx):
    A = ctx.complexes(name, (n + 1, n + 1)) if cplx else ctx.reals(name, (n + 1, n + 1))
    d = det(A, ctx)
    if cplx:
        dd = d * (np.conjugate(d) if ctx.mode == 'num' else d.conjugate())
        ctx.assume(dd.real if ctx.mode == 'num' else dd.re_im()[0], '>', 0)
    else:
        ctx.assume(d * d, '>', 0)
    return A


# object factories: (constructor, data shape given composite shape and n)
def _proj_objects(n):
    return {
        "Point": (pr.Point, lambda s: s + (n + 1,)),
        "PointPair": (pr.PointPair, lambda s: s + (2, n + 1)),
        "Polygon": (pr.Polygon, lambda s: s + (3, n + 1)),
        "Simplex": (pr.Simplex, lambda s: s + (n + 1, n + 1)),
        "Subspace": (pr.Subspace, lambda s: s + (2, n + 1)),
        "Transformation": (pr.Transformation, lambda s: s + (n + 1, n + 1)),
    }


def _same(ctx, tag, X, Y):
    ctx.ensure_true(tag + 'type', type(X) is type(Y), f"{type(X).__name__} vs {type(Y).__name__}")
    ctx.ensure_true(tag + 'shape', X.shape == Y.shape, f"{X.shape} vs {Y.shape}")
    ctx.ensure_eq(tag + 'proj_data', X.proj_data, Y.proj_data, tol=1e-6)
    if X.aux_data is not None or Y.aux_data is not None:
        ctx.ensure_true(tag + 'aux_present', X.aux_data is not None and Y.aux_data is not None)
        if X.aux_data is not None and Y.aux_data is not None:
            ctx.ensure_eq(tag + 'aux_data', X.aux_data, Y.aux_data, tol=1e-6)


def _action_laws(ctx, TA, TB, I, X):
    comp = (TA @ TB) @ X
    seq = TA @ (TB @ X)
    _same(ctx, 'assoc_', comp, seq)
    _same(ctx, 'identity_', I @ X, X)
    _same(ctx, 'inverse_', TA.inv() @ (TA @ X), X)
    ctx.ensure_true('result_type', type(comp) is type(X), f"{type(comp).__name__}")
    ctx.ensure_true('result_shape', comp.shape == X.shape, f"{comp.shape} vs {X.shape}")


PROJ_INST = [dict(cls=c, n=n, shape=s, cplx=False) for c in ("Point", "PointPair", "Polygon", "Simplex", "Subspace", "Transformation")
             for n in (1, 2) for s in ((), (2,))]
PROJ_INST_T = [dict(cls=c, n=2, shape=(2, 2), cplx=False) for c in ("Point", "Polygon", "Transformation")] + \
              [dict(cls=c, n=n, shape=(), cplx=True) for c in ("Point", "Polygon", "Transformation") for n in (1, 2)] + \
              [dict(cls=c, n=3, shape=(), cplx=False) for c in ("Point", "Polygon")]


@rcontract(P, "projective_action", instances=PROJ_INST, thorough=PROJ_INST_T, timeout=60.0, functions=F_APPLY + [PR + "Polygon._compute_aux_data"])
def projective_action(ctx, cls, n, shape, cplx):
    A, B = _mat(ctx, 'A', n, cplx), _mat(ctx, 'B', n, cplx)
    ctor, shp = _proj_objects(n)[cls]
    data = ctx.complexes('X', shp(tuple(shape))) if cplx else ctx.reals('X', shp(tuple(shape)))
    X = ctor(np.array(data, copy=True))
    TA, TB = pr.Transformation(np.array(A, copy=True)), pr.Transformation(np.array(B, copy=True))
    I = pr.identity(n)
    _action_laws(ctx, TA, TB, I, X)
    ctx.ensure_eq('row_convention', (TA @ X).proj_data, data @ A, tol=1e-6)


def _isom(ctx, n, suffix):
    """a J-preserving matrix with symbolic parameters: rotation(theta) then loxodromic(lambda), composed by the library"""
    th = ctx.real('th' + suffix, lambda r: r.uniform(-3, 3))
    lam = ctx.real('lam' + suffix, lambda r: r.uniform(0.4, 2.5))
    ctx.assume(lam, '>', 0)
    return h.Isometry.standard_rotation(th, dimension=n) @ h.Isometry.standard_loxodromic(n, lam)


def _klein(ctx, name, shape, n):
    k = ctx.reals(name, shape + (n,), lambda r: r.uniform(-0.55, 0.55, shape + (n,)))
    ctx.assume(spec.nsq(k), '<', 1)
    return k


HYP_CLASSES = ["Point", "PointPair", "Segment", "Geodesic", "Polygon", "TangentVector", "Horosphere", "Hyperplane", "Subspace", "Isometry"]


def _hyp_object(ctx, cls, n, shape):
    if cls == "Point":
        return h.Point(_klein(ctx, 'p', shape, n), model="klein")
    if cls in ("PointPair", "Segment", "Geodesic", "Subspace"):
        k = _klein(ctx, 'p', shape + (2,), n)
        ctx.assume(spec.nsq(k[..., 0, :] - k[..., 1, :]), '>', 0)         # distinct endpoints
        pts = h.Point(k, model="klein")
        return {"PointPair": h.PointPair, "Segment": h.Segment, "Geodesic": h.Geodesic, "Subspace": h.Subspace}[cls](pts)
    if cls == "Polygon":
        k = _klein(ctx, 'p', shape + (3,), n)
        for i in range(3):
            ctx.assume(spec.nsq(k[..., i, :] - k[..., (i + 1) % 3, :]), '>', 0)     # consecutive vertices distinct
        return h.Polygon(h.Point(k, model="klein"))
    if cls == "TangentVector":
        p = h.Point(_klein(ctx, 'p', shape, n), model="klein")
        v = ctx.reals('v', shape + (n + 1,))
        return h.TangentVector(p, v)
    if cls == "Horosphere":
        th = ctx.reals('phi', shape, lambda r: r.uniform(-3, 3, shape))
        c = np.stack([np.cos(th) * 0 + 1, np.cos(th), np.sin(th)] + [0 * np.cos(th)] * (n - 2), axis=-1)
        ref = h.Point(_klein(ctx, 'p', shape, n), model="klein")
        return h.Horosphere(h.IdealPoint(c), ref)
    if cls == "Hyperplane":
        d = ctx.reals('H', shape + (n + 1, n + 1))
        return h.Hyperplane(d)
    if cls == "Isometry":
        return h.Isometry(ctx.reals('M', shape + (n + 1, n + 1)))
    raise ValueError(cls)


@rcontract(P, "hyperbolic_action", instances=[dict(cls=c, n=2, shape=s) for c in HYP_CLASSES for s in ((), (2,))],
           thorough=[dict(cls=c, n=3, shape=()) for c in ("Point", "Segment", "Polygon", "TangentVector", "Isometry")],
           timeout=120.0, max_paths=40,
           functions=F_APPLY + [HY + "Isometry.__init__", HY + "Segment._compute_aux_data", HY + "TangentVector._compute_aux_data", HY + "Polygon._compute_aux_data",
                                HY + "Isometry.standard_rotation", HY + "Isometry.standard_loxodromic", HY + "identity"])
def hyperbolic_action(ctx, cls, n, shape):
    TA, TB = _isom(ctx, n, 'a'), _isom(ctx, n, 'b')
    X = _hyp_object(ctx, cls, n, tuple(shape))
    _action_laws(ctx, TA, TB, h.identity(n), X)


WORDS = ["", "a", "b", "A", "ab", "ba", "aB", "Ab", "aa", "aba", "abA", "bAb", "BAb"]


@rcontract(P, "representation_acts_by_word_matrix", instances=[dict(n=1, kind="projective"), dict(n=2, kind="projective"), dict(n=2, kind="hyperbolic")],
           timeout=120.0,
           functions=[PR + "ProjectiveRepresentation.wrap_func", PR + "ProjectiveRepresentation.unwrap_func", PR + "ProjectiveRepresentation.array_wrap_func",
                      HY + "HyperbolicRepresentation.wrap_func", "geometry_tools/representation.py:Representation.element",
                      "geometry_tools/representation.py:Representation.elements", "geometry_tools/representation.py:Representation._word_value",
                      "geometry_tools/representation.py:Representation._set_generator", "geometry_tools/representation.py:Representation.__setitem__"])
def representation_acts_by_word_matrix(ctx, n, kind):
    """rep[w] @ p has coordinates  N_w p^T  where N_g are the column-action matrices of the generators"""
    Na, Nb = _mat(ctx, 'A', n, False), _mat(ctx, 'B', n, False)
    x = ctx.reals('x', (n + 1,))
    if kind == "projective":
        rep = pr.ProjectiveRepresentation()
        rep["a"] = pr.Transformation(np.array(Na, copy=True), column_vectors=True)
        rep["b"] = pr.Transformation(np.array(Nb, copy=True), column_vectors=True)
        pt = pr.Point(np.array(x, copy=True))
    else:
        rep = h.HyperbolicRepresentation()
        rep["a"] = h.Isometry(np.array(Na, copy=True), column_vectors=True)
        rep["b"] = h.Isometry(np.array(Nb, copy=True), column_vectors=True)
        pt = h.Point(np.array(x, copy=True))
    mats = {"a": Na, "b": Nb, "A": np.linalg.inv(Na), "B": np.linalg.inv(Nb)}
    for w in WORDS:
        N = ctx.const(np.identity(n + 1))
        for g in w:
            N = N @ mats[g]
        img = rep[w] @ pt
        ctx.ensure_true(f'type_{w or "empty"}', type(img) is type(pt))
        ctx.ensure_eq(f'word_{w or "empty"}', img.proj_data, (N @ x), tol=1e-6)
    batch = rep.elements(["ab", "bA"])
    ctx.ensure_eq('elements_batch', (batch @ pt).proj_data[1], (Nb @ mats["A"] @ x), tol=1e-6)
    # history: after re-assigning a generator every word (also those using only its inverse letter) uses the new matrices
    Nc = _mat(ctx, 'C', n, False)
    wrap = (lambda M: pr.Transformation(np.array(M, copy=True), column_vectors=True)) if kind == "projective" else \
           (lambda M: h.Isometry(np.array(M, copy=True), column_vectors=True))
    rep["a"] = wrap(Nc)
    mats2 = {"a": Nc, "b": Nb, "A": np.linalg.inv(Nc), "B": mats["B"]}
    for w in ("bA", "A", "ab", "Ab"):
        N = ctx.const(np.identity(n + 1))
        for g in w:
            N = N @ mats2[g]
        ctx.ensure_eq(f'after_reassignment_{w}', (rep[w] @ pt).proj_data, (N @ x), tol=1e-6)


@bounded(P, "sampling", functions=F_APPLY, note="all classes, real and complex matrices, composite shapes to rank 3, dimensions 1..4, words to length 6")
def sampling(tier, rng, rep):
    N = 150 if tier == 'thorough' else 30
    rep.rule = "random invertible real/complex matrices; all object classes; shapes (), (3,), (2,2), (2,1,2); mixed entry types (real or integer object under a complex / real map, real map composed with a complex one); non-trivial = composite shape or complex data"
    rep.bound = f"{N} rounds x 6 projective classes"

    def close(a, b, tol=1e-7):
        if a is None and b is None:
            return True
        if a is None or b is None or a.shape != b.shape:
            return False
        m = max(np.max(np.abs(a)), np.max(np.abs(b)))
        return m > 0 and np.max(np.abs(a - b)) <= tol * m      # relative to the overall scale
    for t in range(N):
        n = int(rng.integers(1, 5))
        cplx = bool(t % 2)
        shape = [(), (3,), (2, 2), (2, 1, 2)][t % 4]
        # homogeneous data: arbitrary overall scales (tiny ones included) must not matter
        sc = lambda: 10.0 ** rng.uniform(-10, 3) if t % 3 == 0 else 1.0
        rnd = lambda s: (rng.normal(size=s) + (1j * rng.normal(size=s) if cplx else 0)) * sc()
        A, B = rnd((n + 1, n + 1)), rnd((n + 1, n + 1))
        # mixed entry types: the object's entries need not have the type of the transformation's (a real object moved by a
        # complex map, integer lattice points moved by a real map, a real map composed with a complex one)
        xkind = ["same", "real_object", "integer_object", "same", "real_B", "integer_maps"][t % 6]
        if xkind == "real_B":
            B = B.real.copy()
        if xkind == "integer_maps":         # matrices stored with an integer dtype, determinant not +-1 in general
            def imat():
                while True:
                    m_ = rng.integers(-3, 4, size=(n + 1, n + 1)).astype(np.int64)
                    if abs(np.linalg.det(m_)) > 1.5:
                        return m_
            A, B = imat(), imat()
        TA, TB, I = pr.Transformation(A.copy()), pr.Transformation(B.copy()), pr.identity(n)
        for cls, (ctor, shp) in _proj_objects(n).items():
            data = rnd(shp(shape))
            if xkind == "real_object":
                data = data.real.copy()
            elif xkind == "integer_object":
                data = rng.integers(-4, 5, size=shp(shape)).astype(np.int64)
                while not np.all(np.any(data != 0, axis=-1)):
                    data = rng.integers(-4, 5, size=shp(shape)).astype(np.int64)
            inp = {"class": cls, "n": n, "shape": list(shape), "complex": cplx, "entry_types": xkind, "A": [A.real.tolist(), np.imag(A).tolist()],
                   "B": [B.real.tolist(), np.imag(B).tolist()], "X": [data.real.tolist(), np.imag(data).tolist()]}

            def laws():
                X = ctor(data.copy())
                one = TA @ X
                if not close(np.asarray(one.proj_data, dtype=complex), np.asarray(data, dtype=complex) @ A):
                    rep.fail("acts_as_the_matrix", "(A @ X).proj_data != X.proj_data A", inp)
                l, r = (TA @ TB) @ X, TA @ (TB @ X)
                if type(l) is not type(X) or l.shape != X.shape:
                    rep.fail("type_shape", f"{type(l).__name__} {l.shape}", inp)
                if not (close(l.proj_data, r.proj_data) and close(l.aux_data, r.aux_data)):
                    rep.fail("associativity", "(A@B)@X != A@(B@X)", inp)
                i = I @ X
                if not (close(i.proj_data, X.proj_data) and close(i.aux_data, X.aux_data)):
                    rep.fail("identity", "I@X != X", inp)
                b = TA.inv() @ (TA @ X)
                if not (close(b.proj_data, X.proj_data, 1e-6) and close(b.aux_data, X.aux_data, 1e-6)):
                    rep.fail("inverse", "A.inv()@(A@X) != X", inp)
                # the inverse of a product formed AFTER the inverses of its factors have been asked for
                TB.inv(); TA.inv()
                C = TA @ TB
                c2 = C.inv() @ (C @ X)
                if not (close(c2.proj_data, X.proj_data, 1e-5) and close(c2.aux_data, X.aux_data, 1e-5)):
                    rep.fail("inverse", "(A@B).inv() @ ((A@B) @ X) != X (the inverses of A and B had been computed before the product)", inp)
            rep.attempt("action_runs", inp, laws)
            rep.case(key=(t, cls), nontrivial=(shape != () or cplx), sample={k: inp[k] for k in ("class", "n", "shape", "complex")} if t < 1 else None)


@bounded(P, "generators_of_mixed_types", functions=["geometry_tools/representation.py:Representation.elements", "geometry_tools/representation.py:Representation._word_value",
                                                     "geometry_tools/representation.py:Representation._set_generator", PR + "ProjectiveRepresentation.transformations",
                                                     HY + "HyperbolicRepresentation.isometries"],
         note="a representation whose generators have different entry types (complex / float / integer), assigned in every order: a word's image through rep[w], element, elements, "
              "transformations / isometries acts on a point as the word's matrix (real or complex) acts on the coordinate vector")
def generators_of_mixed_types(tier, rng, rep):
    import itertools
    from geometry_tools.representation import Representation
    N = 40 if tier == 'thorough' else 10
    rep.rule = ("generators a, b, c with dtypes drawn from {complex128, float64, int64, float32} (not all equal), every assignment order; words to length 5 with inverse letters; "
                "evaluation routes: rep[w], element(w), elements([..]), transformations([..]) / isometries([..]); n = 1, 2")
    rep.bound = f"{N} rounds x 6 assignment orders x 5 routes"
    dts = [np.complex128, np.float64, np.int64, np.float32]
    for t in range(N):
        n = 1 + t % 2
        kinds = [dts[int(i)] for i in rng.choice(4, size=3)]
        if len(set(kinds)) == 1:
            kinds[0] = dts[(dts.index(kinds[0]) + 1) % 4]
        gens = {}
        for g, dt in zip("abc", kinds):
            while True:
                M = rng.integers(-2, 3, size=(n + 1, n + 1)).astype(float)
                if abs(abs(np.linalg.det(M)) - 1) < 1e-9:
                    break
            if dt is np.complex128:
                M = M * np.exp(1j * rng.uniform(0.3, 2.5))            # unimodular factor: the projective map has a complex matrix
                M = M + 0j
            gens[g] = M.astype(dt)
        ref = {g: np.asarray(M, dtype=complex) for g, M in gens.items()}
        ref.update({g.upper(): np.linalg.inv(M) for g, M in list(ref.items())})
        x = rng.normal(size=n + 1) + 1j * rng.normal(size=n + 1)
        words = ["".join(rng.choice(list("abcABC"), size=int(rng.integers(1, 6)))) for _ in range(4)] + ["ab", "cA"]
        for order in itertools.permutations("abc"):
            inp = {"n": n, "dtypes": {g: np.dtype(k).name for g, k in zip("abc", kinds)}, "assignment_order": "".join(order), "generators": {g: np.asarray(M).astype(complex).view(float).tolist() for g, M in gens.items()}}

            def body():
                plain = Representation()
                proj = pr.ProjectiveRepresentation()
                for g in order:
                    plain[g] = gens[g].copy()
                    proj[g] = pr.Transformation(gens[g].copy(), column_vectors=True)
                want = []
                for w in words:
                    Nw = np.identity(n + 1, dtype=complex)
                    for ch in w:
                        Nw = Nw @ ref[ch]
                    want.append(Nw)
                routes = {
                    "getitem": lambda: [np.asarray(plain[w]) for w in words],
                    "element": lambda: [np.asarray(plain.element(w)) for w in words],
                    "elements": lambda: list(np.asarray(plain.elements(list(words)))),
                    "projective_getitem": lambda: [np.asarray(proj[w].proj_data).T for w in words],
                    "transformations": lambda: [np.asarray(m).T for m in np.asarray(proj.transformations(list(words)).proj_data)],
                }
                for rname, f in routes.items():
                    got = f()
                    for w, G, W in zip(words, got, want):
                        G = np.asarray(G, dtype=complex)
                        y1, y2 = G @ x, W @ x
                        # projective comparison of the image points (the plain representation is compared entry by entry)
                        cr = np.outer(y1, y2) - np.outer(y2, y1)
                        ok = np.all(np.abs(cr) <= 1e-7 * (1 + np.abs(y1).max() * np.abs(y2).max())) and np.abs(y1).max() > 1e-12
                        if ok and not rname.startswith("proj") and rname != "transformations":
                            ok = bool(np.all(np.abs(G - W) <= 1e-5 * (1 + np.abs(W).max())))
                        if not ok:
                            rep.fail("word_image_is_the_word_matrix", f"route {rname}, word {w!r}: {G.tolist()} vs {W.tolist()}", {**inp, "route": rname, "word": w}); return
            rep.attempt("representation_runs", inp, body)
            rep.case(key=(t, order), nontrivial=True, sample=inp if (t, order) == (0, ("a", "b", "c")) else None)
            if len(rep.failures) >= 3:
                return


@bounded(P, "composite_transformations_on_polygons", functions=[PR + "Transformation.apply", PR + "Transformation._apply_to_data", PR + "Polygon._compute_aux_data"],
         note="an array of k maps (as returned by rep.transformations(words)) acting on one polygon or, elementwise, on k polygons - including k equal to the number of vertices: entry i of "
              "the result is map i applied to the (i-th) polygon, INCLUDING its derived data (edge j of entry i joins vertices j and j+1 of entry i)")
def composite_transformations_on_polygons(tier, rng, rep):
    N = 60 if tier == 'thorough' else 15
    rep.rule = "k = 2..5 maps, polygons with 3..5 vertices (k = number of vertices in a third of the cases), projective (real and complex maps) / hyperbolic polygons, one polygon or k polygons; real and complex projective maps"
    rep.bound = f"{N} rounds x 3 classes x 2 operand shapes"

    def edges_msg(Q):
        p = np.asarray(Q.proj_data)
        want = np.stack([p, np.roll(p, -1, axis=-2)], axis=-2)
        have = np.asarray(Q.aux_data)
        if have.shape[:-2] != want.shape[:-2] or have.shape[-1] != want.shape[-1]:
            return f"derived data of shape {have.shape} for vertices of shape {p.shape}"
        have = have[..., :2, :]
        m = have[..., :, None] * want[..., None, :]
        if not np.all(np.isfinite(have)) or not np.all(np.abs(m - np.swapaxes(m, -1, -2)) <= 1e-7 * max(1.0, np.max(np.abs(m)))):
            return "an edge does not join its vertex to the next one"
        return None
    for t in range(N):
        nv = 3 + t % 3
        k = nv if t % 3 == 0 else int(rng.integers(2, 6))
        for cls in ("ProjPolygon", "ProjPolygonComplexMaps", "HypPolygon"):
            for many in (False, True):
                shape = (k,) if many else ()
                if cls == "HypPolygon":
                    ang = np.sort(rng.uniform(0, 2 * np.pi, size=shape + (nv,)), axis=-1)
                    r_ = rng.uniform(0.2, 0.9, size=shape + (nv,))
                    X = h.Polygon(h.Point(np.stack([r_ * np.cos(ang), r_ * np.sin(ang)], axis=-1), model="klein"))
                    T = h.Isometry(np.array([(h.Isometry.standard_rotation(rng.uniform(-3, 3)) @ h.Isometry.standard_loxodromic(2, rng.uniform(0.5, 2))).proj_data for _ in range(k)]))
                else:
                    ang = np.sort(rng.uniform(0, 2 * np.pi, size=shape + (nv,)), axis=-1)
                    pts = np.stack([np.ones_like(ang), np.cos(ang) * rng.uniform(0.8, 1.2), np.sin(ang)], axis=-1)
                    X = pr.Polygon(pts)
                    T = pr.Transformation(rng.normal(size=(k, 3, 3)) if cls == "ProjPolygon" else rng.normal(size=(k, 3, 3)) + 1j * rng.normal(size=(k, 3, 3)))
                inp = {"class": cls, "maps": k, "vertices": nv, "polygons": k if many else 1, "matrices_re": np.real(np.asarray(T.proj_data)).tolist(), "matrices_im": np.imag(np.asarray(T.proj_data)).tolist(), "polygon_data": np.asarray(X.proj_data).tolist()}

                def body():
                    Y = T @ X
                    if Y.shape != (k,):
                        rep.fail("composite_shape", f"{Y.shape} for {k} maps on {'%d polygons' % k if many else 'one polygon'}", inp); return
                    msg = edges_msg(Y)
                    if msg:
                        rep.fail("derived_data_moves_with_the_object", msg, inp); return
                    for i in range(k):
                        Ti = type(T)(np.asarray(T.proj_data)[i].copy())
                        Yi = Ti @ (X[i] if many else X)
                        a, b = np.asarray(Y.proj_data)[i], np.asarray(Yi.proj_data)
                        m = a[..., :, None] * b[..., None, :]
                        if a.shape != b.shape or not np.all(np.abs(m - np.swapaxes(m, -1, -2)) <= 1e-8 * max(1.0, np.max(np.abs(m)))):
                            rep.fail("entry_i_is_map_i_applied", f"entry {i}", inp); return
                        a, b = np.asarray(Y.aux_data)[i], np.asarray(Yi.aux_data)
                        m = a[..., :, None] * b[..., None, :]
                        if a.shape != b.shape or not np.all(np.abs(m - np.swapaxes(m, -1, -2)) <= 1e-8 * max(1.0, np.max(np.abs(m)))):
                            rep.fail("derived_data_moves_with_the_object", f"derived data of entry {i} differs from that of map {i} applied alone", inp); return
                rep.attempt("apply_runs", inp, body)
                rep.case(key=(t, cls, many), nontrivial=True, sample=inp if (t, cls, many) == (0, "ProjPolygon", True) else None)
                if len(rep.failures) >= 3:
                    return


@bounded(P, "words_are_not_reduced_behind_the_callers_back", functions=["geometry_tools/representation.py:Representation._word_value", "geometry_tools/representation.py:Representation.set_generator",
                                                                        "geometry_tools/representation.py:Representation.elements"],
         note="representations whose upper-case generator is NOT the inverse of the lower-case one (set_generator(..., compute_inverse=False): semigroup representations, rounded inverses): "
              "the image of a word is the ordered product of its letters' matrices, also for words containing gG or Gg")
def words_are_not_reduced_behind_the_callers_back(tier, rng, rep):
    from geometry_tools.representation import Representation
    N = 60 if tier == 'thorough' else 15
    rep.rule = "n = 1, 2; letters a, A, b, B set independently (random invertible matrices, and inverses rounded to 2 decimals); words aA, Aa, baAb, abBA, aaAAb, bBaA and random words to length 6; routes rep[w], element, elements, projective transformations acting on a point"
    rep.bound = f"{N} representations x 2 kinds"
    fixed = ["aA", "Aa", "baAb", "abBA", "aaAAb", "bBaA", "", "ab", "BA"]
    for t in range(N):
        n = 1 + t % 2
        for kind in ("independent_letters", "rounded_inverses"):
            mats = {}
            for g in "ab":
                M = rng.normal(size=(n + 1, n + 1)) + np.identity(n + 1)
                mats[g] = M
                mats[g.upper()] = rng.normal(size=(n + 1, n + 1)) + np.identity(n + 1) if kind == "independent_letters" else np.round(np.linalg.inv(M), 2)
            words = fixed + ["".join(rng.choice(list("abAB"), size=int(rng.integers(2, 7)))) for _ in range(4)]
            x = rng.normal(size=n + 1)
            inp = {"n": n, "kind": kind, "letters": {g: M.tolist() for g, M in mats.items()}}

            def body():
                R = Representation()
                PRp = pr.ProjectiveRepresentation()
                for g, M in mats.items():
                    R.set_generator(g, M.copy(), compute_inverse=False)
                    PRp.set_generator(g, pr.Transformation(M.copy(), column_vectors=True), compute_inverse=False)
                batch = np.asarray(R.elements(list(words)))
                for i, w in enumerate(words):
                    W = np.identity(n + 1)
                    for ch in w:
                        W = W @ mats[ch]
                    for rname, G in (("getitem", np.asarray(R[w])), ("element", np.asarray(R.element(w))), ("elements", batch[i])):
                        if G.shape != W.shape or not np.all(np.abs(G - W) <= 1e-9 * (1 + np.max(np.abs(W)))):
                            rep.fail("word_image_is_the_word_matrix", f"{kind}, route {rname}: image of {w!r} is not the ordered product of its letters' matrices", {**inp, "word": w, "route": rname}); return
                    y = np.asarray((PRp[w] @ pr.Point(x.copy())).proj_data, dtype=float)
                    z = W @ x
                    cr = np.outer(y, z) - np.outer(z, y)
                    if not np.all(np.abs(cr) <= 1e-8 * (1 + np.abs(y).max() * np.abs(z).max())):
                        rep.fail("word_image_is_the_word_matrix", f"{kind}: rep[{w!r}] @ p is not the word's matrix applied to the coordinate vector", {**inp, "word": w, "route": "projective"}); return
            rep.attempt("representation_runs", inp, body)
            rep.case(key=(t, kind), nontrivial=True, sample=inp if (t, kind) == (0, "independent_letters") else None)
            if len(rep.failures) >= 3:
                return


@bounded(P, "long_composites", functions=F_APPLY, note="long arrays of maps acting elementwise on long arrays of points / polygons (hundreds to thousands of units, where a vectorised fast path "
                                                       "would switch on): every entry is the plain matrix product, associativity and the word clause hold")
def long_composites(tier, rng, rep):
    sizes = [2, 37, 341, 342, 400, 1500] + ([5000] if tier == 'thorough' else [])
    rep.rule = f"N in {sizes} maps (non-symmetric, real and complex) x N points, n = 1, 2, 3; also one map on N points and N maps on one point; polygons for N = 400; oracle: numpy matmul on the coordinate arrays"
    rep.bound = f"{len(sizes)} sizes x 3 dimensions x 2 fields"
    for N in sizes:
        for n in (1, 2, 3):
            for cplx in (False, True):
                A = rng.normal(size=(N, n + 1, n + 1)) + 2 * np.identity(n + 1) + (1j * rng.normal(size=(N, n + 1, n + 1)) if cplx else 0)
                B = rng.normal(size=(N, n + 1, n + 1)) + 2 * np.identity(n + 1)
                X = rng.normal(size=(N, n + 1)) + (1j * rng.normal(size=(N, n + 1)) if cplx else 0)
                inp = {"N": N, "n": n, "complex": cplx}

                def same(Y, W, what):
                    Y, W = np.asarray(Y), np.asarray(W)
                    if Y.shape != W.shape:
                        rep.fail("composite_shape", f"{what}: {Y.shape} vs {W.shape}", inp); return False
                    m = Y[..., :, None] * W[..., None, :]
                    bad = np.abs(m - np.swapaxes(m, -1, -2)) > 1e-8 * (1 + np.abs(m))
                    if np.any(bad):
                        rep.fail("entry_is_the_matrix_product", f"{what}: unit {int(np.argwhere(bad)[0][0])} of {N} is not the matrix applied to the coordinate vector", inp); return False
                    return True

                def body():
                    TA, TB = pr.Transformation(A.copy(), column_vectors=True), pr.Transformation(B.copy(), column_vectors=True)
                    P_ = pr.Point(X.copy())
                    want = np.einsum('kij,kj->ki', A, X)
                    if not same((TA @ P_).proj_data, want, "N maps on N points"):
                        return
                    if not same(((TA @ TB) @ P_).proj_data, np.einsum('kij,kj->ki', A @ B, X), "(A @ B) @ X"):
                        return
                    if not same((TA @ (TB @ P_)).proj_data, np.einsum('kij,kj->ki', A @ B, X), "A @ (B @ X)"):
                        return
                    T0 = pr.Transformation(A[0].copy(), column_vectors=True)
                    if not same((T0 @ P_).proj_data, X @ A[0].T, "one map on N points"):
                        return
                    if not same((TA @ pr.Point(X[0].copy())).proj_data, A @ X[0], "N maps on one point"):
                        return
                    if N == 400 and n == 2 and not cplx:
                        V = rng.normal(size=(N, 4, 3))
                        Q = TA @ pr.Polygon(V.copy())
                        if not same(Q.proj_data, np.einsum('kij,kvj->kvi', A, V), "N maps on N polygons"):
                            return
                rep.attempt("apply_runs", inp, body)
                rep.case(key=(N, n, cplx), nontrivial=N * (n + 1) >= 1024, sample=inp if (N, n, cplx) == (342, 2, False) else None)
                if len(rep.failures) >= 3:
                    return


@bounded(P, "enumerated_elements_act_as_their_words", functions=["geometry_tools/representation.py:Representation.automaton_accepted", "geometry_tools/representation.py:Representation._automaton_accepted",
                                                                  "geometry_tools/representation.py:Representation.freely_reduced_elements", PR + "ProjectiveRepresentation.wrap_func"],
         note="images of words delivered by the enumeration routes of a representation (automaton_accepted from a start state, into an end state, with a precomputed memo; freely_reduced_elements): "
              "each returned transformation acts on a point as the matrix of ITS word acts on the coordinate vector (non-commuting generators, non-palindromic words)")
def enumerated_elements_act_as_their_words(tier, rng, rep):
    from geometry_tools.automata import fsa
    N = 30 if tier == 'thorough' else 8
    rep.rule = "n = 1, 2; projective representations with random non-commuting generators a, b; free automaton and random 3-state automata over {a, b, A}; options: default, start_state, end_state (every state), maxlen on / off; lengths to 3"
    rep.bound = f"{N} representations x 2 automata x all states"
    for t in range(N):
        n = 1 + t % 2
        mats = {g: rng.normal(size=(n + 1, n + 1)) + 1.5 * np.identity(n + 1) for g in "ab"}
        mats.update({g.upper(): np.linalg.inv(M) for g, M in list(mats.items())})
        R = pr.ProjectiveRepresentation()
        for g in "ab":
            R[g] = pr.Transformation(mats[g].copy(), column_vectors=True)
        x = rng.normal(size=n + 1)
        d = {v: {l: int(rng.integers(0, 3)) for l in ["a", "b", "A"] if rng.random() < 0.8} for v in range(3)}
        autos = {"free": fsa.free_automaton(["a", "b"]), "random": fsa.FSA({k: dict(v) for k, v in d.items()}, [0])}
        for aname, A in autos.items():
            inp = {"n": n, "automaton": aname, "graph_dict": {repr(k): {l: repr(w) for l, w in nb.items()} for k, nb in A.graph_dict.items()}, "generators": {g: mats[g].tolist() for g in "ab"}}

            def body():
                states = list(A.graph_dict)[:4]
                opts = [dict()] + [dict(start_state=s) for s in states] + [dict(end_state=s) for s in states]
                for o in opts:
                    for maxlen in (True, False):
                        for L in (2, 3):
                            try:
                                elts, words = R.automaton_accepted(A, L, maxlen=maxlen, with_words=True, **o)
                            except Exception as e:
                                rep.fail("enumeration_runs", f"{o}: {type(e).__name__}: {e}", inp); return
                            if len(words) == 0:
                                continue
                            Y = np.asarray((elts @ pr.Point(x.copy())).proj_data) if len(words) else np.zeros((0, n + 1))
                            for i, w in enumerate(words):
                                W = np.identity(n + 1)
                                for ch in w:
                                    W = W @ mats[ch]
                                z = W @ x
                                cr = np.outer(Y[i], z) - np.outer(z, Y[i])
                                if not np.all(np.abs(cr) <= 1e-8 * (1 + np.abs(Y[i]).max() * np.abs(z).max())):
                                    rep.fail("word_image_is_the_word_matrix", f"automaton_accepted({o}, maxlen={maxlen}, length {L}): the element returned for {w!r} does not act as the matrix of {w!r}", {**inp, "options": {k: repr(v) for k, v in o.items()}, "word": w}); return
                fr, fw = R.freely_reduced_elements(3, with_words=True)
                Yf = np.asarray((fr @ pr.Point(x.copy())).proj_data)
                for i, w in enumerate(fw):
                    W = np.identity(n + 1)
                    for ch in w:
                        W = W @ mats[ch]
                    z = W @ x
                    cr = np.outer(Yf[i], z) - np.outer(z, Yf[i])
                    if not np.all(np.abs(cr) <= 1e-8 * (1 + np.abs(Yf[i]).max() * np.abs(z).max())):
                        rep.fail("word_image_is_the_word_matrix", f"freely_reduced_elements: element for {w!r}", {**inp, "word": w}); return
            rep.attempt("representation_runs", inp, body)
            rep.case(key=(t, aname), nontrivial=True, sample=inp if (t, aname) == (0, "free") else None)
            if len(rep.failures) >= 3:
                return


@bounded(P, "maps_acting_on_maps_of_another_class", functions=[PR + "Transformation.__matmul__", PR + "Transformation.apply", HY + "Isometry.__init__"],
         note="A @ X when X is itself a transformation of ANOTHER class than A (a hyperbolic isometry and a plain projective transformation, CP1 / projective): the result has the type and "
              "composite shape of X, equals A.apply(X), and the action laws hold with these operands")
def maps_acting_on_maps_of_another_class(tier, rng, rep):
    N = 40 if tier == 'thorough' else 10
    rep.rule = "A in {Isometry, Transformation}, X in {Transformation, Isometry} of the other class; single and composite (3,); matrices of O(2,1) (so that both classes accept them)"
    rep.bound = f"{N} rounds x 2 class pairs x 2 shapes"
    def iso_mat():
        C = h.Point((lambda w: w / np.linalg.norm(w) * rng.uniform(0.1, 0.7))(rng.normal(size=2)), model="klein").origin_to()
        return np.asarray((C @ h.Isometry.standard_rotation(rng.uniform(0, 6))).proj_data, dtype=float)
    for t in range(N):
        for shape in ((), (3,)):
            MA = iso_mat()
            MX = np.array([iso_mat() for _ in range(int(np.prod(shape)) or 1)]).reshape(shape + (3, 3))
            for ca, cx in ((h.Isometry, pr.Transformation), (pr.Transformation, h.Isometry)):
                inp = {"class_of_A": ca.__name__, "class_of_X": cx.__name__, "shape": list(shape), "A": MA.tolist(), "X": MX.tolist()}

                def body():
                    A_, X_ = ca(MA.copy()), cx(MX.copy())
                    Y = A_ @ X_
                    Z = A_.apply(X_)
                    if type(Y) is not type(X_) or type(Z) is not type(X_):
                        rep.fail("result_has_the_type_of_X", f"{ca.__name__} @ {cx.__name__} is a {type(Y).__name__} (apply gives {type(Z).__name__})", inp); return
                    if Y.shape != X_.shape or not np.all(np.abs(np.asarray(Y.proj_data) - np.asarray(Z.proj_data)) <= 1e-12):
                        rep.fail("matmul_is_apply", f"shapes {Y.shape} / {X_.shape}", inp); return
                    back = A_.inv() @ Y
                    if type(back) is not type(X_) or not np.all(np.abs(np.asarray(back.proj_data) - MX) <= 1e-9):
                        rep.fail("inverse_law", f"A.inv() @ (A @ X) is a {type(back).__name__}", inp); return
                rep.attempt("apply_runs", inp, body)
                rep.case(key=(t, shape, ca.__name__), nontrivial=True, sample=inp if (t, shape) == (0, ()) and ca is h.Isometry else None)
                if len(rep.failures) >= 3:
                    return
