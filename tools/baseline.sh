#!/bin/bash
# Run the repository's pinned baseline (guard OFF) and compare with /root/.vp/BASELINE.json stable_pass.
cd /repo
OUT=$(mktemp /tmp/junit.XXXXXX.xml)
env -u GEOMETRY_TOOLS_VERIF /venv/bin/python -m pytest -ra -q -p no:cacheprovider --timeout=900 --continue-on-collection-errors --junitxml=$OUT >/dev/null 2>&1
/venv/bin/python - "$OUT" <<'PY'
import sys, json, xml.etree.ElementTree as ET
base=json.load(open('/root/.vp/BASELINE.json'))
want=set(base['stable_pass'])
root=ET.parse(sys.argv[1]).getroot()
passed=set()
for tc in root.iter('testcase'):
    name=f"{tc.get('classname')}::{tc.get('name')}"
    if not any(ch.tag in('failure','error','skipped') for ch in tc): passed.add(name)
missing=sorted(want-passed)
print(f"baseline: {len(want&passed)}/{len(want)} stable tests pass; extra passing: {sorted(passed-want)}")
if missing:
    print("MISSING:", missing); sys.exit(1)
PY
rc=$?
rm -f $OUT
exit $rc
