#!/usr/bin/env python3
"""Generate /verif/MANIFEST.json from contracts/meta.json (single source of per-property metadata)."""
import json, os, subprocess
ROOT = os.path.dirname(os.path.dirname(os.path.abspath(__file__)))
meta = json.load(open(os.path.join(ROOT, "contracts", "meta.json")))
props = [json.loads(l) for l in open(os.path.join(ROOT, "properties.jsonl"))]
checks, na = [], []
for p in props:
    pid = p["id"]
    m = meta.get(pid)
    if not m or m.get("not_applicable"):
        na.append({"property_id": pid, "reason": (m or {}).get("not_applicable", "check not built yet in this round (work in progress; see DESIGN.md section 6)")})
        continue
    checks.append({
        "property_id": pid,
        "quick_cmd": f"./check {pid} --tier quick",
        "thorough_cmd": f"./check {pid} --tier thorough",
        "evidence_file": f"/verif/evidence/{pid}.json",
        "replay_cmd_template": "./check --replay {path}",
        "engine": m.get("engine", "engine_r"),
        "level_claimed": {"category": m.get("level", "proof"), "text": m["text"], "design_ref": m.get("design_ref", f"DESIGN.md section 3, {pid}")},
        "level_note": m["note"],
        "technique": m["technique"],
    })
fixes = subprocess.run(["git", "-C", "/repo", "log", "--format=%h %s", "5fa3ad4..HEAD"], capture_output=True, text=True).stdout.strip().split("\n")
man = {
    "version": 1,
    "setup_cmd": "./setup.sh",
    "hooks": {"guard": "GEOMETRY_TOOLS_VERIF", "enable": "no source hooks are needed: the engines import/parse /repo's working tree in a fresh process on every run (the variable is exported by ./check but read by nothing in /repo)",
              "baseline_off_cmd": "./tools/baseline.sh", "source_commits": [], "add_only": True},
    "engines": [
        {"name": "engine_r", "path": "vf/alg.py vf/rrun.py vf/smt.py", "serves_properties": sorted(k for k, v in meta.items() if "engine_r" in v.get("engine", "engine_r") and not v.get("not_applicable")),
         "kind_free_text": "deductive: the real functions of /repo are executed on NumPy object arrays of exact symbolic scalars (rational functions + radicals + trig/exp generators); equalities by exact normal form, sign/domain/path-coverage obligations by z3/cvc5 (QF_NRA); externals (numpy.linalg) replaced by contract stubs"},
        {"name": "engine_p", "path": "vf/pyvc", "serves_properties": sorted(k for k, v in meta.items() if "engine_p" in v.get("engine", "") and not v.get("not_applicable")),
         "kind_free_text": "deductive: AST -> verification conditions for the pure-Python code (automata, words), discharged by z3/cvc5"},
        {"name": "rtc", "path": "vf/main.py (_run_R bounded part, _run_B)", "serves_properties": sorted(k for k, v in meta.items() if not v.get("not_applicable")),
         "kind_free_text": "bounded stand-in and replay harness: the same contracts evaluated natively (float64) on seeded inputs; never counted as proved"},
    ],
    "checks": checks,
    "not_applicable": na,
    "notes": "Contract-based deductive verification of the real code; see DESIGN.md. Repairs of genuine defects are the unguarded 'fix:' commits in /repo: " + "; ".join(fixes),
}
json.dump(man, open(os.path.join(ROOT, "MANIFEST.json"), "w"), indent=1)
try:
    import jsonschema
    jsonschema.validate(man, json.load(open("/root/.vp/MANIFEST.schema.json")))
    print("MANIFEST.json valid;", len(checks), "checks,", len(na), "not_applicable")
except ImportError:
    print("written (jsonschema not available to validate)")
