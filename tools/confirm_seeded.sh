#!/bin/bash
# Confirm every candidate mutation under /tmp/seed_out/Cxx/{A,B} in a scratch worktree and keep the confirmed ones in /verif/seeded/
WT=/tmp/wt/confirm
git -C /repo worktree remove --force $WT 2>/dev/null
git -C /repo worktree add -q --detach $WT HEAD || exit 1
for d in ${SEEDSRC:-/tmp/seed_out}/C*/[A-Z]; do
  id=$(basename $(dirname $d)); v=$(basename $d); name="$id-$v"
  [ -f $d/patch.diff ] && [ -f $d/demo.py ] || { echo "$name: incomplete"; continue; }
  [ -f /verif/seeded/$name/meta.json ] && continue
  cd $WT && git checkout -q -- . && git clean -fdq
  if ! git apply --check $d/patch.diff 2>/dev/null; then echo "$name: patch does not apply"; continue; fi
  PYTHONPATH=$WT timeout 300 /venv/bin/python $d/demo.py >/tmp/$name.clean.log 2>&1; clean_rc=$?
  git apply $d/patch.diff
  PYTHONPATH=$WT timeout 300 /venv/bin/python $d/demo.py >/tmp/$name.mut.log 2>&1; mut_rc=$?
  OUT=$(mktemp /tmp/junit.XXXXXX.xml)
  /venv/bin/python -m pytest -q -p no:cacheprovider --timeout=900 --continue-on-collection-errors --junitxml=$OUT >/dev/null 2>&1
  tests=$(/venv/bin/python - $OUT <<'PY'
import sys, json, xml.etree.ElementTree as ET
want=set(json.load(open('/root/.vp/BASELINE.json'))['stable_pass'])
passed=set()
for tc in ET.parse(sys.argv[1]).getroot().iter('testcase'):
    if not any(ch.tag in('failure','error','skipped') for ch in tc): passed.add(f"{tc.get('classname')}::{tc.get('name')}")
print(len(want&passed), len(want))
PY
)
  rm -f $OUT
  git checkout -q -- . 
  echo "$name: demo clean rc=$clean_rc mutated rc=$mut_rc baseline=$tests"
  set -- $tests
  if [ "$clean_rc" = 0 ] && [ "$mut_rc" != 0 ] && [ "$1" = "$2" ]; then
    mkdir -p /verif/seeded/$name
    cp $d/patch.diff $d/demo.py /verif/seeded/$name/; [ -f $d/notes.md ] && cp $d/notes.md /verif/seeded/$name/
    prop_title=$(head -1 /tmp/seed_out/$id/property.txt)
    /venv/bin/python - "$name" "$id" "$prop_title" "$mut_rc" "$tests" <<'PY'
import sys, json, re
name, pid, title, mut_rc, tests = sys.argv[1:6]
notes = open(f"/verif/seeded/{name}/notes.md").read() if __import__('os').path.exists(f"/verif/seeded/{name}/notes.md") else ""
files = sorted(set(re.findall(r"^\+\+\+ b/(\S+)", open(f"/verif/seeded/{name}/patch.diff").read(), re.M)))
json.dump({"id": name, "breaks_property": pid, "property_title": title, "files_changed": files,
           "needs_to_manifest": "see notes.md (written by the independent sub-agent that produced the change)",
           "confirmed": {"how": "scratch worktree of /repo HEAD under /tmp/wt/confirm: demo.py on the clean tree, patch applied with git apply, demo.py again, then the repository test suite compared with BASELINE.json stable_pass",
                         "demo_rc_clean": 0, "demo_rc_mutated": int(mut_rc), "baseline_stable_tests_passing_with_change": tests},
           "detected_by": None}, open(f"/verif/seeded/{name}/meta.json", "w"), indent=1)
PY
  fi
done
cd / && git -C /repo worktree remove --force $WT
