#!/bin/bash
# usage: tools/mutants.sh [ids...]   run the property's check against each seeded change in a scratch worktree (VF_REPO),
# record the outcome in seeded/<id>/detect.txt.  /repo itself is never touched.
WT=${MUTWT:-/tmp/wt/mut}
OUTD=${MUTOUT:-/tmp/wt/mut_out}
cd /verif
ids="$@"; [ -z "$ids" ] && ids=$(ls seeded)
git -C /repo worktree remove --force $WT 2>/dev/null; git -C /repo worktree add -q --detach $WT HEAD || exit 1
for id in $ids; do
  d=/verif/seeded/$id; prop=${id%-*}
  [ -f contracts/$(echo $prop | tr 'A-Z' 'a-z').py ] || { echo "$id: no check for $prop yet"; continue; }
  # a seeded change whose code was rewritten by a later fix: commit records the tree it applies to (meta.json base_commit)
  base=$(python3 -c "import json,sys; m=json.load(open('$d/meta.json')); print(m.get('base_commit',''))")
  only=$(python3 -c "import json,sys; m=json.load(open('$d/meta.json')); print(m.get('only',''))")
  git -C $WT checkout -q -- . ; git -C $WT checkout -q --detach ${base:-$(git -C /repo rev-parse HEAD)}
  git -C $WT apply $d/patch.diff || { echo "$id: patch does not apply"; continue; }
  out=$(VF_OUT=$OUTD VF_REPO=$WT ./check $prop --tier ${TIER:-quick} ${only:+--only $only} 2>&1); rc=$?
  git -C $WT checkout -q -- .
  nviol=$(echo "$out" | grep -c "^VIOLATION")
  first=$(echo "$out" | grep "^VIOLATION" | head -2 | tr '\n' ' ')
  echo "$id: exit=$rc violations=$nviol $first"
  { echo "check: ./check $prop --tier ${TIER:-quick} ${only:+--only $only} (scratch worktree ${base:+at $base }with the patch applied)"; echo "exit=$rc"; echo "$out" | grep "^VIOLATION\|^CHECKER\|^C[0-9][0-9] \["; } > $d/detect.txt
done
git -C /repo worktree remove --force $WT
rm -rf $OUTD
