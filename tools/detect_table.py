#!/usr/bin/env python3
"""Regenerate the detection table of DESIGN.md section 8 from seeded/<id>/detect.txt (written by tools/mutants.sh) and
record `detected_by` in each seeded/<id>/meta.json.  The table lives between the markers
<!-- DETECT-TABLE-BEGIN --> and <!-- DETECT-TABLE-END -->."""
import json, os, re, sys
ROOT = os.path.dirname(os.path.dirname(os.path.abspath(__file__)))
rows = []
n_ok = 0
ids = sorted(os.listdir(os.path.join(ROOT, "seeded")))
for sid in ids:
    d = os.path.join(ROOT, "seeded", sid)
    if not os.path.exists(os.path.join(d, "meta.json")):
        continue
    meta = json.load(open(os.path.join(d, "meta.json")))
    det = open(os.path.join(d, "detect.txt")).read() if os.path.exists(os.path.join(d, "detect.txt")) else ""
    prop = sid.split("-")[0]
    obs = []
    for m in re.finditer(r"^VIOLATION property=\S+ replay=\S*/replays/([^\s]+)\.json( no-failing-input-found)?", det, re.M):
        name = m.group(1)
        name = name[len(prop) + 1:] if name.startswith(prop + ".") else name
        obs.append(name + (" (no-failing-input-found)" if m.group(2) else ""))
    caught = "exit=1" in det and bool(obs)
    n_ok += caught
    kinds = set("bounded" if o.split(" ")[0].endswith(".bounded") else "deductive" for o in obs)
    by = "+".join(sorted(kinds)) if kinds else "-"
    files = ", ".join(os.path.basename(f) for f in meta.get("files_changed", []))
    rows.append(f"| {sid} | {files} | {'yes' if caught else '**no**'} | {'; '.join(obs[:3])} | {by} |")
    meta["detected_by"] = {"check": f"./check {prop} --tier quick", "caught": caught, "obligations": obs[:6], "by": by}
    json.dump(meta, open(os.path.join(d, "meta.json"), "w"), indent=1)
table = "\n".join(["| seeded change | file | caught (quick) | failing obligations (first three) | by |", "|---|---|---|---|---|"] + rows)
table += f"\n\n{n_ok} of {len(rows)} seeded changes make their property's quick check exit 1."
p = os.path.join(ROOT, "DESIGN.md")
s = open(p).read()
a, b = "<!-- DETECT-TABLE-BEGIN -->", "<!-- DETECT-TABLE-END -->"
if a in s and b in s:
    s = s[:s.index(a) + len(a)] + "\n" + table + "\n" + s[s.index(b):]
    open(p, "w").write(s)
print(f"{n_ok}/{len(rows)} detected")
