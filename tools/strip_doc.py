"""print a python file without docstrings / blank lines, with original line numbers (reading aid only)"""
import ast, sys
def strip(path):
    src=open(path).read()
    tree=ast.parse(src)
    drop=set()
    for node in ast.walk(tree):
        if isinstance(node,(ast.FunctionDef,ast.ClassDef,ast.Module,ast.AsyncFunctionDef)):
            b=node.body
            if b and isinstance(b[0],ast.Expr) and isinstance(getattr(b[0],'value',None),ast.Constant) and isinstance(b[0].value.value,str):
                for l in range(b[0].lineno,b[0].end_lineno+1): drop.add(l)
    out=[]
    for i,l in enumerate(src.split('\n'),1):
        if i in drop: continue
        if not l.strip(): continue
        out.append(f"{i}\t{l}")
    return '\n'.join(out)
print(strip(sys.argv[1]))
