#!/bin/bash
# usage: tools/try_mutant.sh <patch.diff> <Cxx> [more check args]   -- applies the patch to /repo, runs the check, reverts
PATCH="$1"; shift
cd /repo && git apply "$PATCH" || { echo "patch does not apply"; exit 9; }
cd /verif && ./check "$@"; rc=$?
git -C /repo checkout -- . 
echo "check exit=$rc"
exit $rc
