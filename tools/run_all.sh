#!/bin/bash
# run every claimed check (tier $1, default quick) sequentially on the current tree; summary on stdout
cd /verif
TIER=${1:-quick}; shift
for i in $(seq -w 1 20); do
  p=C$i
  s=$(date +%s)
  out=$(./check $p --tier $TIER "$@" 2>&1); rc=$?
  e=$(( $(date +%s) - s ))
  echo "$p rc=$rc ${e}s :: $(echo "$out" | grep "^$p \[" | tail -1)"
  echo "$out" | grep "^VIOLATION\|^CHECKER\|^UNDECIDED" | cut -c1-220 | head -5
done
