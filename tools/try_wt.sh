#!/bin/bash
# usage: tools/try_wt.sh <seeded id> <check args...>  -- apply seeded/<id>/patch.diff in the scratch worktree /tmp/wt/dbg and run ./check there
id=$1; shift
WT=/tmp/wt/dbg
[ -d $WT ] || git -C /repo worktree add -q --detach $WT HEAD
git -C $WT checkout -q --detach $(git -C /repo rev-parse HEAD) 2>/dev/null
git -C $WT checkout -q -- . ; git -C $WT apply /verif/seeded/$id/patch.diff || exit 9
cd /verif && VF_OUT=/tmp/wt/mut_out VF_REPO=$WT ./check "$@" 2>&1 | grep -v "Warning\|^  "
git -C $WT checkout -q -- .
